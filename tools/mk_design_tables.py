#!/usr/bin/env python3
"""Regenerate DESIGN.md section 10 (which checks catch which changes) from mutants/RESULTS.txt and seeded/*/meta.json."""
import glob, json, os, re
HERE = os.path.dirname(os.path.dirname(os.path.abspath(__file__)))
res = {}
p = os.path.join(HERE, 'mutants', 'RESULTS.txt')
if os.path.exists(p):
    for line in open(p):
        m = re.match(r'(C\d+) (\S+): (CAUGHT|MISSED|PATCH-FAILED|EDIT-FAILED)', line)
        if m:
            res[(m.group(1), m.group(2))] = m.group(3)
out = ['## 10. Which checks catch which changes\n',
       'Two kinds of deliberate property-breaking changes were used to validate the monitors; none of them is ever committed to',
       '`/repo`. Each is applied to a scratch copy of `/repo/src` outside `/repo` and `/verif` (`mutants/run.sh`, which sets',
       '`BIOGEME_SRC`), the quick tier of the check is run against it and must exit 1 with a `VIOLATION` line for a mechanism',
       'that is not a listed known finding. Applying the patch to `/repo` itself (`git -C /repo apply`, run, `git -C /repo checkout -- .`)',
       'gives the same result because the checks import whatever `BIOGEME_SRC` (default `/repo/src`) points to.\n',
       '### 10.1 Independently seeded changes (`seeded/<tag>/`)\n',
       'Written by fresh sub-agents that saw only the property text and a scratch worktree, never `/verif`. Each was confirmed by',
       're-running its demonstration on an original and a changed scratch tree (`tools/seed_keep.sh`); the seed agents ran the',
       "repository's suite on the changed code.\n",
       '| Seed | Property | What it changes / needs | History of results | Last full sweep (quick tier, present check) |', '|---|---|---|---|---|']
for f in sorted(glob.glob(os.path.join(HERE, 'seeded', '*', 'meta.json'))):
    tag = os.path.basename(os.path.dirname(f))
    m = json.load(open(f))
    runs = '; '.join(f'{k}: {v}' for k, v in m.get('checks_run', {}).items())
    last = res.get((m['property'], tag), 'not in last sweep')
    if m.get('status'):
        last += ' — ' + m['status']
    if m.get('rebased'):
        last += ' — patch ' + m['rebased']
    out.append(f"| `{tag}` | {m['property']} | {m['change']} — needs: {m['needs']} | {runs} | {last} |")
out += ['', '### 10.2 Own mutants (`mutants/<ID>/`)\n',
        '`*.json` = edits written by the author of the check (ideas from the **M.** lists of section 4); `regress_<commit>.patch` =',
        'reverse diff of a repair made in `/repo` (the defect the monitor originally found). Result of the last full sweep',
        '(`tools/sweep_all.sh`, quick tier):\n']
byprop = {}
for f in sorted(glob.glob(os.path.join(HERE, 'mutants', 'C*', '*'))):
    prop = os.path.basename(os.path.dirname(f))
    name = os.path.basename(f)
    why = ''
    if name.endswith('.json'):
        try:
            why = json.load(open(f)).get('why', '')
        except Exception:
            pass
    if name.endswith('.txt'):
        continue
    byprop.setdefault(prop, []).append((name, why, res.get((prop, name), 'not in last sweep')))
out += ['| Property | Mutants (result) |', '|---|---|']
for prop in sorted(byprop):
    items = '; '.join(f"`{n}` ({r})" for n, w, r in byprop[prop])
    out.append(f'| {prop} | {items} |')
tot = sum(len(v) for v in byprop.values())
caught = sum(1 for v in byprop.values() for _, _, r in v if r == 'CAUGHT')
out.append(f'\n{caught} of {tot} mutants caught in the last sweep; the others are marked above.\n')
txt = '\n'.join(out) + '\n'
d = open(os.path.join(HERE, 'DESIGN.md')).read()
start = d.find('## 10. Which checks catch which changes')
if start >= 0:
    d = d[:start]
d = d.rstrip('\n') + '\n\n' + txt
open(os.path.join(HERE, 'DESIGN.md'), 'w').write(d)
print('section 10 written:', caught, '/', tot)
