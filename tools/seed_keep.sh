#!/bin/bash
# tools/seed_keep.sh <tag> <PROP>   e.g. c01a C01
# Collect a seeded change from its scratch worktree /tmp/seed_<tag>: store patch+demo+notes under /verif/seeded/<tag>/,
# confirm the demo passes on the original tree and fails on the changed one.
set -u
tag="$1"; prop="$2"; wt="/tmp/seed_$tag"; dest="/verif/seeded/$tag"
mkdir -p "$dest"
git -C "$wt" diff -- src > "$dest/patch.diff"
cp "$wt/demo_$tag.py" "$dest/" 2>/dev/null; cp "$wt/notes_$tag.md" "$dest/" 2>/dev/null
echo "patch lines: $(wc -l < "$dest/patch.diff")"
tmp=$(mktemp -d /tmp/seedchk.XXXX); mkdir -p "$tmp/orig" "$tmp/chg"
( cd "$tmp/orig" && PYTHONPATH=/repo/src timeout 900 /venv/bin/python "$dest/demo_$tag.py" > "$tmp/orig.log" 2>&1 ); o=$?
( cd "$tmp/chg" && PYTHONPATH="$wt/src" timeout 900 /venv/bin/python "$dest/demo_$tag.py" > "$tmp/chg.log" 2>&1 ); c=$?
echo "demo on original: exit $o ($(tail -1 $tmp/orig.log | cut -c1-100)); on changed: exit $c ($(tail -1 $tmp/chg.log | cut -c1-100))"
rm -rf "$tmp"
