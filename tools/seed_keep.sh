#!/bin/bash
# tools/seed_keep.sh <tag> <PROP>   e.g. c01a C01
# Collect a seeded change from its scratch worktree /tmp/seed_<tag> (if it still exists): store patch+demo+notes under
# /verif/seeded/<tag>/; then confirm, on two scratch trees outside /repo and /verif (original = /repo/src as it is now,
# changed = original + patch), that the demo passes on the original and fails on the changed tree.
set -u
tag="$1"; prop="$2"; wt="/tmp/seed_$tag"; dest="/verif/seeded/$tag"
mkdir -p "$dest"
if [ -d "$wt" ]; then
  git -C "$wt" diff -- src > "$dest/patch.diff"
  cp "$wt/demo_$tag.py" "$dest/" 2>/dev/null; cp "$wt/notes_$tag.md" "$dest/" 2>/dev/null
fi
echo "patch lines: $(wc -l < "$dest/patch.diff")"
tmp=$(mktemp -d /tmp/seedchk.XXXX)
for v in orig chg; do mkdir -p "$tmp/$v"; cp -r /repo/src "$tmp/$v/src"; cp "$dest/demo_$tag.py" "$tmp/$v/"; done
( cd "$tmp/chg" && patch -s -p1 < "$dest/patch.diff" ) || echo "PATCH DOES NOT APPLY to the current tree"
( cd "$tmp/orig" && PYTHONPATH="$tmp/orig/src" timeout 1200 /venv/bin/python demo_$tag.py > "$tmp/orig.log" 2>&1 ); o=$?
( cd "$tmp/chg" && PYTHONPATH="$tmp/chg/src" timeout 1200 /venv/bin/python demo_$tag.py > "$tmp/chg.log" 2>&1 ); c=$?
echo "demo on original: exit $o ($(grep -m1 -E 'PASS|FAIL' $tmp/orig.log | cut -c1-60)); on changed: exit $c ($(grep -m1 -E 'PASS|FAIL' $tmp/chg.log | cut -c1-60))"
rm -rf "$tmp"
