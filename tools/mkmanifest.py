#!/usr/bin/env python3
"""Regenerate MANIFEST.json from the registry below (run from /verif)."""
import json, os, sys

HERE = os.path.dirname(os.path.dirname(os.path.abspath(__file__)))
props = [json.loads(l) for l in open(os.path.join(HERE, 'properties.jsonl'))]

# id -> (category, level text, level note, technique)   -- only checks that are built and silent on the unchanged tree
REG = json.load(open(os.path.join(HERE, 'tools', 'registry.json')))

man = {
    "version": 1,
    "setup_cmd": "./setup.sh",
    "hooks": {
        "guard": "BIOGEME_VERIF",
        "enable": "no source hook in /repo: every monitor attaches from the harness (module-attribute proxies around the engine, icontract wrappers, sys.addaudithook, sys.monitoring failpoints); ./check exports BIOGEME_VERIF=1 for the harness side only",
        "baseline_off_cmd": "cd /repo && /venv/bin/python -m pytest -ra -q -p no:cacheprovider --timeout=900 --continue-on-collection-errors",
        "source_commits": [],
        "add_only": True,
    },
    "engines": [{
        "name": "biomon", "path": "/verif/biomon",
        "serves_properties": sorted(REG),
        "kind_free_text": "runtime monitors over real executions: reference-model oracles, engine-boundary recording proxy, contracts, audit-hook file-event log, sys.monitoring failpoints, ASan/UBSan/TSan builds of the pinned C++ engine",
    }],
    "checks": [],
    "not_applicable": [],
    "notes": "Every verdict is 'held on the executions observed' (see evidence coverage), never 'verified'. Known findings: known_findings.json. Design: DESIGN.md.",
}
for p in props:
    pid = p['id']
    if pid in REG:
        r = REG[pid]
        man['checks'].append({
            "property_id": pid,
            "quick_cmd": f"./check {pid} quick",
            "thorough_cmd": f"./check {pid} thorough",
            "evidence_file": f"/verif/evidence/{pid}.json",
            "replay_cmd_template": f"./check {pid} --replay {{path}}",
            "engine": "biomon",
            "level_claimed": {"category": r['category'], "text": r['text'], "design_ref": f"DESIGN.md section 4, {pid}"},
            "level_note": r['note'],
            "technique": r['technique'],
        })
    else:
        man['not_applicable'].append({"property_id": pid, "reason": "runtime monitor for this property not yet registered (under construction); the technique applies, see DESIGN.md section 5"})
json.dump(man, open(os.path.join(HERE, 'MANIFEST.json'), 'w'), indent=1)
print('checks:', [c['property_id'] for c in man['checks']])
