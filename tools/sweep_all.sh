#!/bin/bash
# tools/sweep_all.sh <out> <parallel> C01 C02 ...  -> every mutant and every seeded change of the given properties, quick tier
cd "$(dirname "$0")/.."
out="$1"; par="$2"; shift 2
list=$(mktemp)
for p in "$@"; do
  for m in mutants/$p/*.json mutants/$p/*.patch; do [ -e "$m" ] && echo "$p $m"; done
  l=$(echo $p | tr 'C' 'c')
  for s in seeded/${l}?/patch.diff; do [ -e "$s" ] && echo "$p $s"; done
done > "$list"
: > "$out"
cat "$list" | xargs -P "$par" -L 1 bash -c 'r=$(mutants/run.sh "$1" "$0" 2>&1 | tail -1); n=$1; case "$n" in seeded/*) n=$(basename $(dirname "$1"));; *) n=$(basename "$1");; esac; echo "$0 $n: $r"' >> "$out"
rm -f "$list"
echo FINISHED >> "$out"
