#!/usr/bin/env python3
"""tools/accept_known.py CNN mech-substring [why_not_fixed]  -- copy matching entries from findings/CNN.known.json into known_findings.json"""
import json, sys
cid, sub = sys.argv[1], sys.argv[2]
why = sys.argv[3] if len(sys.argv) > 3 else ''
d = json.load(open('/verif/known_findings.json'))
have = {k['mech'] for k in d['findings']}
n = 0
for e in json.load(open(f'/verif/findings/{cid}.known.json')):
    if sub in e['mech'] and e['mech'] not in have:
        e = dict(e)
        if why:
            e['why_not_fixed'] = why
        d['findings'].append(e)
        n += 1
json.dump(d, open('/verif/known_findings.json', 'w'), indent=1)
print('added', n)
