#!/usr/bin/env python3
"""tools/seed_meta.py <tag> <PROP> <breaks> <change> <needs> <suite> <check result...>"""
import json, sys
tag, prop, breaks, change, needs, suite = sys.argv[1:7]
runs = {}
for a in sys.argv[7:]:
    k, v = a.split('=', 1)
    runs[k] = v
m = {"property": prop, "breaks": breaks, "change": change, "needs": needs,
     "demo": f"demo_{tag}.py: PASS (exit 0) on the original tree, FAIL (exit 1) on the changed tree (re-run by tools/seed_keep.sh)",
     "suite": suite, "checks_run": runs,
     "how_run": f"mutants/run.sh seeded/{tag}/patch.diff {prop}  (patch applied to a scratch copy of /repo/src outside /repo and /verif, check run with BIOGEME_SRC pointing to it, copy removed afterwards)"}
json.dump(m, open(f'/verif/seeded/{tag}/meta.json', 'w'), indent=1)
print('ok', tag)
