#!/bin/bash
# tools/run_mutants.sh C03 [C04 ...]  -> runs every mutant of the given properties, prints a table
cd "$(dirname "$0")/.."
for p in "$@"; do
  for m in mutants/$p/*.json mutants/$p/*.patch; do
    [ -e "$m" ] || continue
    r=$(mutants/run.sh "$m" "$p" 2>&1 | tail -1)
    echo "$p $(basename $m): $r"
  done
done
