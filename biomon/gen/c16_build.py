"""AST with choice nodes (biomon.gen.c16_catalogs) -> real biogeme objects, catalogs included.

Copy of biomon.gen.build.build (same way of writing formulas: operator overloading, raw numbers
where the AST marks them) extended with the three choice nodes. The hand-written formulas of the
oracle are NOT built here but by the shared biomon.gen.build from the resolved AST.

Returns (expression, info): info['catalogs'] lists every Catalog object that was created
(by this builder or by the library's helper generators) with the name of the controller that must govern it.
"""
from __future__ import annotations

from .. import env  # noqa: F401


def build(spec: dict):
    import biogeme.expressions as ex
    from biogeme import models
    from biogeme.catalog import Catalog, segmentation_catalogs, generic_alt_specific_catalogs
    from biogeme.controller import Controller
    from biogeme.segmentation import DiscreteSegmentationTuple

    shared = spec.get('shared', [])
    betas = spec['betas']
    memo = {}
    beta_objs = {}
    cat_memo = {}
    controllers = {}
    helper_memo = {}
    info = {'catalogs': [], 'controllers': controllers}

    def mk_beta(name):
        v, status = betas[name][:2]
        b = ex.Beta(name, v, None, None, status)
        beta_objs[name] = b
        return b

    def raw_or_expr(node):
        if node[0] == 'num' and len(node) > 2 and node[2] == 'raw':
            v = node[1]
            return int(v) if float(v).is_integer() and abs(v) < 1e6 and (hash(str(v)) % 2 == 0) else float(v)
        if node[0] == 'bool':
            return bool(node[1])
        return B(node)

    def is_rawish(node):
        return (node[0] == 'num' and len(node) > 2) or node[0] == 'bool'

    def binop(node):
        op, a, b = node
        if is_rawish(a) and is_rawish(b):
            x, y = B(a), raw_or_expr(b)
        else:
            x, y = raw_or_expr(a), raw_or_expr(b)
        if op == 'add':
            return x + y
        if op == 'sub':
            return x - y
        if op == 'mul':
            return x * y
        if op == 'div':
            return x / y
        if op == 'pow':
            return x ** y
        if op == 'min':
            return ex.bioMin(x, y)
        if op == 'max':
            return ex.bioMax(x, y)
        if op == 'and':
            return x & y
        if op == 'or':
            return x | y
        if op == 'eq':
            return x == y
        if op == 'ne':
            return x != y
        if op == 'le':
            return x <= y
        if op == 'ge':
            return x >= y
        if op == 'lt':
            return x < y
        if op == 'gt':
            return x > y
        raise ValueError(op)

    def seg_tuples(h):
        out = []
        for s in h['segs']:
            v = ex.Variable(s['var']) if len(s['var']) % 2 else s['var']  # both documented forms
            out.append(DiscreteSegmentationTuple(variable=v, mapping={int(k): c for k, c in s['mapping']},
                                                 reference=s['reference']))
        return tuple(out)

    def helper(hi):
        if hi in helper_memo:
            return helper_memo[hi]
        h = spec['helpers'][hi]
        bl = [mk_beta(b) for b in h['betas']]
        if h['kind'] == 'seg':
            res = segmentation_catalogs(generic_name=h['generic'], beta_parameters=bl,
                                        potential_segmentations=seg_tuples(h), maximum_number=h['max'])
            for c in res:
                info['catalogs'].append({'obj': c, 'ctrl': h['generic'], 'members': None, 'origin': 'segmentation_catalogs'})
        else:
            segs = seg_tuples(h) if h.get('segs') else None
            res = generic_alt_specific_catalogs(generic_name=h['generic'], beta_parameters=bl,
                                                alternatives=tuple(h['alts']), potential_segmentations=segs,
                                                maximum_number=h['max'])
            seen = set()
            for d in res:
                for c in d.values():
                    info['catalogs'].append({'obj': c, 'ctrl': h['generic'] + '_gen_altspec', 'members': None,
                                             'origin': 'generic_alt_specific_catalogs'})
                    for _, m in c.get_iterator():
                        if isinstance(m, Catalog) and id(m) not in seen:
                            seen.add(id(m))
                            info['catalogs'].append({'obj': m, 'ctrl': h['generic'], 'members': None,
                                                     'origin': 'generic_alt_specific_catalogs/segmentation'})
        helper_memo[hi] = res
        return res

    def B(node):
        op = node[0]
        if op == 'share':
            if node[1] not in memo:
                memo[node[1]] = B(shared[node[1]])
            return memo[node[1]]
        if op == 'catalog':
            _, cname, ctrl, explicit, members = node
            if cname in cat_memo:
                return cat_memo[cname]
            objs = [raw_or_expr(m) for _, m in members]
            named = [ex.NamedExpression(name=s, expression=o) for (s, _), o in zip(members, objs)]
            if explicit:
                if ctrl not in controllers:
                    names = [s for s, _ in members]
                    controllers[ctrl] = Controller(ctrl, names if len(ctrl) % 2 else tuple(names))
                cat = Catalog(cname, named, controlled_by=controllers[ctrl])
            elif len(cname) % 2:
                cat = Catalog(cname, named)
            else:
                cat = Catalog.from_dict(cname, {s: o for (s, _), o in zip(members, objs)})
            cat_memo[cname] = cat
            info['catalogs'].append({'obj': cat, 'ctrl': ctrl, 'origin': 'Catalog',
                                     'members': [o if isinstance(o, ex.Expression) else None for o in objs]})
            return cat
        if op == 'segcat':
            return helper(node[1])[node[2]]
        if op == 'gencat':
            return helper(node[1])[node[2]][node[3]]
        if op == 'num':
            return ex.Numeric(node[1])
        if op == 'bool':
            return ex.validate_and_convert(bool(node[1]))
        if op == 'beta':
            return mk_beta(node[1])
        if op == 'var':
            return ex.Variable(node[1])
        if op == 'neg':
            return -B(node[1])
        if op in ('exp', 'log', 'logzero', 'sin', 'cos'):
            return getattr(ex, op)(raw_or_expr(node[1]) if is_rawish(node[1]) else B(node[1]))
        if op == 'ncdf':
            return ex.bioNormalCdf(B(node[1]))
        if op == 'powc':
            c = node[2]
            return B(node[1]) ** (int(c) if float(c).is_integer() else float(c))
        if op == 'belongs':
            return ex.BelongsTo(B(node[1]), set(node[2]))
        if op in ('add', 'sub', 'mul', 'div', 'pow', 'min', 'max', 'and', 'or', 'eq', 'ne', 'le', 'ge', 'lt', 'gt'):
            return binop(node)
        if op == 'multsum':
            items = [raw_or_expr(a) for a in node[1]]
            if node[2] == 'dict':
                return ex.bioMultSum({10 * i + 3: it for i, it in enumerate(items)})
            return ex.bioMultSum(items)
        if op == 'elem':
            return ex.Elem({int(k): raw_or_expr(a) for k, a in node[2]}, B(node[1]))
        if op == 'condsum':
            return ex.ConditionalSum([ex.ConditionalTermTuple(condition=raw_or_expr(c), term=raw_or_expr(t))
                                      for c, t in node[1]])
        if op == 'linutil':
            return ex.bioLinearUtility([ex.LinearTermTuple(beta=mk_beta(b), x=ex.Variable(x)) for b, x in node[1]])
        if op == 'loglogit':
            util = {int(k): raw_or_expr(a) for k, a in node[1]}
            av = None if node[2] is None else {int(k): raw_or_expr(a) for k, a in node[2]}
            ch = raw_or_expr(node[3])
            if node[4] == 'prob':
                return models.logit(util, av, ch)
            return models.loglogit(util, av, ch)
        raise ValueError(f'unknown op {op}')

    top = B(spec['ast'])
    if not isinstance(top, ex.Expression):
        top = ex.validate_and_convert(top)
    return top, info
