"""C03 workload, third family: successive specifications under ONE model name in ONE
working directory with save_iterations on (the default): the file __<model>.iter written
by the estimation of specification k is read by name when specification k+1 is estimated.

Between two specifications parameters change status (free -> fixed at another value,
fixed -> free), are renamed, added, removed; so the file holds names the new specification
does not contain, names that are now fixed, and lacks names that are now free.
"""
from __future__ import annotations

import copy
import random

import numpy as np

from . import c03_models as gm

OPS = ['free-to-fixed', 'fixed-to-free', 'rename-some', 'rename-all', 'add', 'remove']


def _simple_occurrences(model, n):
    """True when every occurrence of n is a term ['beta', n] or ['mul', ['beta', n], ['var', c]]"""
    ok = False
    for a, st, tl in model['alts']:
        for t in tl:
            names = gm.betas_in(t)
            if n in names:
                if t == ['beta', n] or (t[0] == 'mul' and t[1] == ['beta', n] and t[2][0] == 'var'):
                    ok = True
                else:
                    return False
    return ok


def transform(model, op, r: random.Random, nrng):
    """returns (new model, description dict) or (None, None) when op does not apply"""
    m = copy.deepcopy(model)
    used = gm.betas_in(gm.loglike_ast(m))
    free = [n for n in used if m['betas'][n][1] == 0]
    fixed = [n for n in used if m['betas'][n][1] != 0]
    if op == 'free-to-fixed':
        if len(free) < 2:
            return None, None
        n = r.choice(free)
        # a value that is neither the starting value nor (in all likelihood) the estimate
        v = round(m['betas'][n][0] + r.choice([-1, 1]) * r.uniform(0.15, 0.6), 3)
        m['betas'][n] = [v, 1]
        m['bounds'].pop(n, None)
        m['true'][n] = v
        return m, {'op': op, 'name': n, 'value': v}
    if op == 'fixed-to-free':
        cand = [n for n in fixed if _simple_occurrences(m, n)]
        if not cand:
            return None, None
        n = r.choice(cand)
        m['betas'][n] = [m['betas'][n][0], 0]
        return m, {'op': op, 'name': n}
    if op in ('rename-some', 'rename-all'):
        names = sorted(m['betas'])
        pool = []
        for p in gm.NAME_POOLS:
            pool += p
        pool = [p for p in dict.fromkeys(pool) if p not in names]
        r.shuffle(pool)
        sub = names if op == 'rename-all' else r.sample(names, max(1, len(names) // 2))
        rho = {n: n for n in names}
        for n in sub:
            rho[n] = pool.pop()
        # sometimes a renamed parameter takes the name another parameter had in the previous specification
        if op == 'rename-some' and len(sub) < len(names) and r.random() < 0.5:
            others = [n for n in names if n not in sub]
            a, b = r.choice(sub), r.choice(others)
            rho[b] = pool.pop()
            rho[a] = b
        return gm.rename(m, rho), {'op': op, 'map': {k: v for k, v in rho.items() if k != v}}
    if op == 'add':
        pool = []
        for p in gm.NAME_POOLS:
            pool += p
        pool = [p for p in dict.fromkeys(pool) if p not in m['betas']]
        n = r.choice(pool)
        col = f'added_{len(m["data"])}'
        nrows = len(next(iter(m['data'].values())))
        m['data'][col] = [round(float(v), 3) for v in nrng.normal(0, 1, nrows)]
        a = r.choice(m['alts'])
        if a[1] == 'linutil' or r.random() < 0.5:
            a[2].insert(r.randint(0, len(a[2])), ['mul', ['beta', n], ['var', col]])
        else:
            a[1] = r.choice(['multsum', 'addchain'])
            a[2].insert(r.randint(0, len(a[2])), ['mul', ['beta', n], ['var', col]])
        st = 0 if r.random() < 0.7 else 1
        m['betas'][n] = [round(r.choice([-1, 1]) * r.uniform(0.05, 0.4), 3), st]
        m['true'][n] = m['betas'][n][0]
        return m, {'op': op, 'name': n, 'status': st}
    if op == 'remove':
        cand = [n for n in free + fixed if _simple_occurrences(m, n)]
        r.shuffle(cand)
        for n in cand:
            rest_free = [x for x in free if x != n]
            if not rest_free:
                continue
            m2 = copy.deepcopy(m)
            good = True
            for a in m2['alts']:
                a[2] = [t for t in a[2] if n not in gm.betas_in(t)]
                if not a[2]:
                    if m2['kind'] == 'logit':
                        a[2] = [['num', 0.0]]
                        a[1] = 'addchain'
                    else:
                        good = False
            if not good:
                continue
            for k in ('betas', 'bounds', 'true'):
                m2[k].pop(n, None)
            if not [x for x in gm.betas_in(gm.loglike_ast(m2)) if m2['betas'][x][1] == 0]:
                continue
            return m2, {'op': op, 'name': n}
        return None, None
    raise ValueError(op)


def plan(seed: int, i: int, directed=None):
    """list of (model, description) : specification 0 and its successors"""
    r = random.Random(f'c03iter-{seed}-{i}')
    nrng = np.random.default_rng([seed & 0xFFFFFFFF, i, 99])
    base = None
    for j in range(50):
        m = gm.make_model(seed, 100000 + 50 * i + j, estimation=True)
        used = gm.betas_in(gm.loglike_ast(m))
        if len([n for n in used if m['betas'][n][1] == 0]) >= 2:
            base = m
            break
    if base is None:
        return []
    base['extra'] = []
    out = [(base, {'op': 'first specification'})]
    if directed == 'free-to-fixed':
        ops = ['free-to-fixed']
    elif directed == 'free-to-fixed-then-back':
        ops = ['free-to-fixed', 'fixed-to-free']
    else:
        ops = [r.choice(OPS) for _ in range(r.randint(1, 3))]
        if 'free-to-fixed' not in ops and r.random() < 0.6:
            ops.insert(r.randint(0, len(ops)), 'free-to-fixed')
    cur = base
    for op in ops:
        m, d = transform(cur, op, r, nrng)
        if m is None:
            continue
        # sometimes two changes at once
        if directed is None and r.random() < 0.3:
            m2, d2 = transform(m, r.choice(OPS), r, nrng)
            if m2 is not None:
                m, d = m2, {'op': 'two', 'first': d, 'second': d2}
        out.append((m, d))
        cur = m
    return out
