"""Seeded generator of panel-data cases for C09.

A case = a *canonical* table (rows grouped by individual j = 0..I-1, data
columns from gen.exprs.Space), arbitrary distinct id values, two
*presentations* of that table (order of the blocks and order of the rows
inside each block shuffled), a strictly positive per-observation formula
(AST in the biomon.oracle.evalast format) that goes inside
PanelLikelihoodTrajectory, optionally Monte-Carlo draws produced by
deterministic generators whose value encodes (individual index, draw index).

Everything is JSON-able and reproducible from (seed, index, mode).
"""
from __future__ import annotations

import copy
import math
import random

from . import exprs

ID_NAMES = ['ID', 'person', 'hh_id', '_id', 'Zid', 'a_id', 'obs_group']

# deterministic "random number generators": value = function(individual index, draw index)
DRAW_KINDS = ['C09_LATTICE', 'C09_WAVE']


def draw_value(kind: str, i: int, k: int) -> float:
    """The value the generator of type `kind` delivers at [i, k]. Rows are pairwise different."""
    if kind == 'C09_LATTICE':
        return ((i * 37 + k * 11 + 5) % 101) / 101.0 - 0.5
    if kind == 'C09_WAVE':
        return math.sin(1.7 * i + 0.9 * k + 0.3)
    raise ValueError(kind)


def _ids(r: random.Random, n: int):
    """n pairwise different id values; returns (list, style)"""
    style = r.choice(['small', 'small', 'negative', 'float', 'large', 'huge_int', 'mixed'])
    out = []
    seen = set()
    guard = 0
    while len(out) < n:
        guard += 1
        if guard > 100000:
            raise RuntimeError('id generation')
        s = style if style != 'mixed' else r.choice(['small', 'negative', 'float', 'large'])
        if s == 'small':
            v = r.randint(0, 3 * n + 5)
        elif s == 'negative':
            v = r.randint(-60 - 3 * n, 10)
        elif s == 'float':
            v = round(r.uniform(-20, 20), r.choice([1, 2, 3]))
        elif s == 'large':
            v = float(r.choice([1e9, 2.0 ** 40, 1e15])) + r.randint(0, 5000)
        else:  # integers beyond the 53-bit mantissa (kept as int64 in the frame)
            v = 2 ** 53 + r.randint(1, 100000)
        if float(v) in seen and style != 'huge_int':
            continue
        if style == 'huge_int' and v in seen:
            continue
        seen.add(v if style == 'huge_int' else float(v))
        out.append(v)
    if style in ('small', 'negative') and r.random() < 0.5:
        out = [float(v) for v in out]  # integer-valued ids stored as floats
    if style == 'mixed':
        out = [float(v) for v in out]
    return out, style


def _sizes(r: random.Random, tier: str):
    c = r.random()
    if c < 0.06:
        ni = 1
    elif c < 0.16:
        ni = 2
    elif c < 0.75:
        ni = r.randint(3, 12)
    elif c < 0.96 or tier != 'thorough':
        ni = r.randint(13, 40)
    else:
        ni = r.randint(41, 150)  # thorough tier only
    single = r.choice([0.2, 0.4, 0.6, 0.9])
    t = []
    for _ in range(ni):
        t.append(1 if r.random() < single else r.randint(2, 6))
    if c >= 0.16 and all(x == 1 for x in t) and r.random() < 0.8:
        t[r.randrange(ni)] = r.randint(2, 6)
    return t


def _presentation(r: random.Random, blocks: list[list[int]]):
    """blocks in random order, rows inside a block in random order -> list of canonical row numbers"""
    bl = [list(b) for b in blocks]
    r.shuffle(bl)
    out = []
    for b in bl:
        r.shuffle(b)
        out += b
    return out


def make(seed: int, index: int, tier: str = 'quick', mode: str = 'random') -> dict:
    r = random.Random(f'c09/{seed}/{index}/{mode}')
    sizes = _sizes(r, tier)
    if mode in ('outside', 'noncontig'):
        # needs an individual with several rows and somebody else
        if len(sizes) < 2:
            sizes = sizes + [1]
        if max(sizes) < 3:
            sizes[r.randrange(len(sizes))] = r.randint(3, 5)
        sizes = sizes[:6]  # small tables: pandas' sort is then stable, the first row is predictable
        while sum(sizes) > 14:
            sizes[sizes.index(max(sizes))] -= 1
        if max(sizes) < 3:
            sizes[0] = 3
    if mode == 'hugeid':
        sizes = (sizes + [1, 2, 1])[:max(3, min(len(sizes), 7))]
    ni = len(sizes)
    n = sum(sizes)
    ids, style = _ids(r, ni)
    if mode == 'hugeid':
        # integer ids of 16 digits whose float64 images coincide pairwise (2^53 and 2^53+1): individuals 0 and 2
        base = 2 ** 53 + 4 * r.randint(0, 1000)
        ids = [base, base + 40 + 2 * r.randint(0, 9), base + 1] + [base + 100 + 8 * k for k in range(ni - 3)]
        style = 'huge_int'
    blocks = []
    k = 0
    for t in sizes:
        blocks.append(list(range(k, k + t)))
        k += t
    sp = exprs.Space(r, nrows=n)
    idcol = r.choice([c for c in ID_NAMES if c not in sp.data])
    # formula inside the trajectory
    depth = r.choice([1, 1, 2, 2, 3])
    g = exprs.Gen(r, sp, max_depth=depth, max_nodes=30, allow_ncdf=False, allow_logit=True, share_prob=0.2)
    inner = g.pos(depth)
    if r.random() < 0.35:
        lg = g.loglogit(1)
        lg[4] = 'prob'
        inner = ['mul', inner, lg]
    if r.random() < 0.3:
        # a parameter in the per-observation value (all parameter values are quantified)
        b = r.choice(list(sp.betas))
        inner = ['mul', inner, ['exp', ['mul', ['beta', b], ['var', r.choice(sp.real)]]]]
    mc = mode in ('random', 'hugeid') and r.random() < 0.5 or mode == 'mc'
    ndraws = 0
    draws = {}
    if mc:
        ndraws = r.choice([1, 2, 3, 5, 8])
        kinds = DRAW_KINDS[:]
        r.shuffle(kinds)
        d1 = r.choice(['xi', 'eps_1', 'B_rnd'])
        draws[d1] = kinds[0]
        coef = ['beta', r.choice(list(sp.betas))] if r.random() < 0.6 else ['num', r.choice([0.5, -0.7, 1.0])]
        inner = ['mul', inner, ['exp', ['mul', coef, ['draws', d1, kinds[0]]]]]
        if r.random() < 0.5:
            d2 = r.choice(['eta_2', 'a_rnd'])
            draws[d2] = kinds[1]
            inner = ['mul', inner, ['add', ['num', 1.5], ['sin', ['add', ['draws', d2, kinds[1]], ['var', r.choice(sp.real)]]]]]
    traj = ['panel', inner]
    P = ['mc', traj] if mc else traj
    bname = r.choice(list(sp.betas))
    formulas = {
        'P': P,
        'logP': ['log', copy.deepcopy(P)],
        'kP': ['mul', ['exp', ['beta', bname]], copy.deepcopy(P)],
    }
    # column order: id column at a random place
    cols = list(sp.data)
    cols.insert(r.randrange(len(cols) + 1), idcol)
    # per-row id (canonical order)
    id_of_row = []
    for j, t in enumerate(sizes):
        id_of_row += [ids[j]] * t
    canon = {c: (id_of_row if c == idcol else sp.data[c]) for c in cols}
    pres_a = _presentation(r, blocks)
    pres_b = _presentation(r, blocks)
    if mode == 'outside':
        # every multi-row individual starts with another row in B than in A (reversed order inside the block)
        for big in blocks:
            if len(big) < 2:
                continue
            pa = [p for p in pres_a if p in big]
            it = iter(pa[::-1])
            pres_b = [next(it) if p in big else p for p in pres_b]
    if mode == 'hugeid':
        # A: blocks in the order 0,1,2,... (the two colliding ids are not neighbours); B: 0,2,1,... (neighbours)
        def _blk(order):
            out = []
            for j in order:
                b = list(blocks[j])
                r.shuffle(b)
                out += b
            return out
        pres_a = _blk(list(range(ni)))
        pres_b = _blk([0, 2, 1] + list(range(3, ni)))
    # index labels of the frame handed to Database
    index_style = r.choice(['range', 'range', 'shuffled', 'gaps'])
    if index_style == 'range':
        index = list(range(n))
    elif index_style == 'shuffled':
        index = list(range(n))
        r.shuffle(index)
    else:
        index = sorted(r.sample(range(3 * n + 3), n))
    # parameter values used in the evaluations (different from the initial ones)
    eval_betas = {}
    for nm, (v, st) in sp.betas.items():
        eval_betas[nm] = v if st == 1 else round(v + r.uniform(-0.4, 0.4), 3)
    spec = {
        'mode': mode,
        'sizes': sizes,
        'ids': ids,
        'id_style': style,
        'idcol': idcol,
        'columns': cols,
        'canon': canon,
        'blocks': blocks,
        'pres_a': pres_a,
        'pres_b': pres_b,
        'index_style': index_style,
        'index': index,
        'inner': inner,
        'formulas': formulas,
        'shared': g.shared,
        'betas': sp.betas,
        'eval_betas': eval_betas,
        'mc': bool(mc),
        'ndraws': ndraws,
        'draws': draws,
        'threads': r.choice([1, 1, 2, 3, 4, 7]),
        'remove': None,
        'keysets': sp.keysets,
        'realcols': sp.real,
    }
    if mode == 'remove' or (mode == 'random' and r.random() < 0.2):
        kc = r.choice(sp.key)
        val = r.choice(sp.keysets[kc])
        keep = [i for i in range(n) if canon[kc][i] != float(val)]
        if 0 < len(keep) < n:
            # 'api': Database.remove; 'direct': rows dropped in place through the public attribute Database.data
            # (the idiom of many biogeme scripts): only the model preparation can then bring the map up to date
            spec['remove'] = {'col': kc, 'value': float(val), 'how': r.choice(['api', 'direct'])}
    if mode == 'outside':
        xv = r.choice(sp.real + sp.pos)
        how = r.choice(['mul', 'add'])
        spec['outside'] = {'var': xv, 'how': how}
        spec['formulas'] = {'P': [how, ['var', xv], ['panel', inner]]}
        spec['mc'] = False
        spec['ndraws'] = 0
        spec['draws'] = {}
    if mode == 'noncontig':
        # tear one row of a multi-row individual away from its block
        big = max(blocks, key=len)
        row = big[0]
        rest = [p for p in pres_a if p != row]
        # insert it at a place where both neighbours belong to other individuals or at an end not adjacent to its block
        places = []
        for pos in range(len(rest) + 1):
            left = rest[pos - 1] if pos > 0 else None
            right = rest[pos] if pos < len(rest) else None
            if (left is None or left not in big) and (right is None or right not in big):
                places.append(pos)
        if places:
            pos = r.choice(places)
            spec['pres_a'] = rest[:pos] + [row] + rest[pos:]
        else:
            spec['mode'] = 'random'
    return spec


def table(spec: dict, which: str = 'a') -> dict:
    """the presented table: column -> list of values, in presentation order"""
    pres = spec['pres_' + which]
    return {c: [spec['canon'][c][p] for p in pres] for c in spec['columns']}


# ---- history-shaped cases: one BIOGEME object through a sequence of public calls -----------------
HISTORY_OPS = ['simulate', 'loglike', 'scaled', 'estimate', 'estimate_bootstrap', 'quick_estimate']
DIRECTED_HISTORIES = [
    ['simulate', 'estimate_bootstrap', 'simulate', 'simulate'],
    ['estimate_bootstrap', 'loglike', 'simulate', 'loglike'],
    ['estimate_bootstrap', 'estimate', 'simulate'],
    ['loglike', 'estimate', 'scaled', 'simulate', 'estimate_bootstrap', 'scaled', 'quick_estimate', 'simulate'],
]


def make_history(seed, index: int, tier: str = 'quick') -> dict:
    """A binary-logit panel model (bounded parameters, optional random coefficient under MonteCarlo)
    on a generated panel table, plus a sequence of operations applied to ONE BIOGEME object."""
    r = random.Random(f'c09h/{seed}/{index}')
    ni = r.randint(2, 12)
    sizes = [1 if r.random() < 0.3 else r.randint(2, 5) for _ in range(ni)]
    if all(t == 1 for t in sizes):
        sizes[0] = 3
    n = sum(sizes)
    ids, style = _ids(r, ni)
    blocks = []
    k = 0
    for t in sizes:
        blocks.append(list(range(k, k + t)))
        k += t
    idcol = r.choice(ID_NAMES)
    xs = [round(r.gauss(0, 1), 3) for _ in range(n)]
    ys = [float(r.random() < 1 / (1 + math.exp(-(0.3 + 0.8 * x)))) for x in xs]
    if len(set(ys)) == 1:
        ys[0] = 1.0 - ys[0]
    id_of_row = []
    for j, t in enumerate(sizes):
        id_of_row += [ids[j]] * t
    cols = ['X', 'Y']
    cols.insert(r.randrange(3), idcol)
    canon = {'X': xs, 'Y': ys, idcol: id_of_row}
    mc = r.random() < 0.3
    draws = {}
    ndraws = 0
    util = ['add', ['beta', 'asc'], ['mul', ['beta', 'b_x'], ['var', 'X']]]
    betas = {'asc': [0.0, 0], 'b_x': [0.0, 0]}
    bounds = {'asc': [-5.0, 5.0], 'b_x': [-5.0, 5.0]}
    if mc:
        ndraws = r.choice([2, 3, 5])
        kind = r.choice(DRAW_KINDS)
        draws = {'xi': kind}
        betas['s_x'] = [0.5, 0]
        bounds['s_x'] = [-3.0, 3.0]
        util = ['add', util, ['mul', ['mul', ['beta', 's_x'], ['draws', 'xi', kind]], ['var', 'X']]]
    p1 = ['div', ['num', 1.0], ['add', ['num', 1.0], ['exp', ['neg', util]]]]
    prob = ['add', ['mul', ['var', 'Y'], p1], ['mul', ['sub', ['num', 1.0], ['var', 'Y']], ['sub', ['num', 1.0], copy.deepcopy(p1)]]]
    traj = ['panel', prob]
    P = ['mc', traj] if mc else traj
    if isinstance(seed, str) and seed == 'directed':
        ops = list(DIRECTED_HISTORIES[index % len(DIRECTED_HISTORIES)])
    else:
        ops = [r.choice(HISTORY_OPS) for _ in range(r.randint(3, 6))]
        if 'estimate_bootstrap' not in ops and r.random() < 0.6:
            ops.insert(r.randrange(len(ops)), 'estimate_bootstrap')
        ops.append('simulate')
    # parameter values used by the explicit simulate / loglike operations (one set per operation)
    values = [{nm: round(r.uniform(-1.0, 1.0), 3) for nm in betas} for _ in ops]
    return {
        'mode': 'history', 'sizes': sizes, 'ids': ids, 'id_style': style, 'idcol': idcol, 'columns': cols, 'canon': canon,
        'blocks': blocks, 'pres_a': _presentation(r, blocks), 'pres_b': _presentation(r, blocks),
        'index_style': 'range', 'index': list(range(n)), 'inner': prob, 'formulas': {'P': P, 'logP': ['log', copy.deepcopy(P)]},
        'shared': [], 'betas': betas, 'bounds': bounds, 'eval_betas': {k: v[0] for k, v in betas.items()},
        'mc': mc, 'ndraws': ndraws, 'draws': draws, 'threads': r.choice([1, 1, 2, 3]), 'remove': None,
        'ops': ops, 'op_values': values, 'bootstrap_samples': r.choice([1, 2, 3]), 'max_iterations': r.choice([5, 15, 40]),
    }


# ---- re-declaration histories: panel(a) -> panel(b) ... on ONE Database object ----------------------
REDECLARE_SEQUENCES = [
    ['fine', 'coarse'], ['coarse', 'fine'], ['fine', 'fine'], ['coarse', 'coarse'],
    ['fine', 'coarse', 'fine'], ['coarse', 'fine', 'coarse'],
]
REDECLARE_ACTIONS = ['evaluate', 'biogeme', 'remove', 'add_column', 'scale_column']


def make_redeclare(seed, index: int, tier: str = 'quick') -> dict:
    """Nested ids (persons 'fine' inside households 'coarse') on a generated table; a sequence of panel()
    declarations on one Database with optional actions in between. With 'aligned' ids, sorting by the person id
    keeps households together (both directions are valid declarations); otherwise fine -> coarse may legitimately
    be refused by the library (counted, not judged)."""
    r = random.Random(f'c09r/{seed}/{index}')
    spec = make(f'r{seed}', index, 'quick', 'mc' if r.random() < 0.5 else 'random')
    spec['mode'] = 'redeclare'
    spec['remove'] = None
    sizes = spec['sizes']
    ni = len(sizes)
    blocks = spec['blocks']
    # households = runs of 1-3 consecutive canonical individuals
    hh_of_ind = []
    h = 0
    j = 0
    while j < ni:
        k = r.choice([1, 1, 2, 2, 3])
        for _ in range(min(k, ni - j)):
            hh_of_ind.append(h)
        j += k
        h += 1
    nh = h
    hh_ids, _ = _ids(r, nh)
    aligned = r.random() < 0.7
    fine_ids = list(spec['ids'])
    if aligned:
        fine_ids = sorted(fine_ids, key=lambda v: (float(v), v))
        if r.random() < 0.5:
            fine_ids = fine_ids[::-1]
    fine_col = spec['idcol']
    coarse_col = r.choice([c for c in ID_NAMES if c != fine_col and c not in spec['canon']])
    n = sum(spec['sizes'])
    fine_of_row = []
    coarse_of_row = []
    for jj, b in enumerate(blocks):
        fine_of_row += [fine_ids[jj]] * len(b)
        coarse_of_row += [hh_ids[hh_of_ind[jj]]] * len(b)
    spec['ids'] = fine_ids
    spec['canon'][fine_col] = fine_of_row
    spec['canon'][coarse_col] = coarse_of_row
    spec['columns'] = list(spec['columns'])
    spec['columns'].insert(r.randrange(len(spec['columns']) + 1), coarse_col)
    # presentation: households shuffled, persons inside shuffled, rows inside shuffled
    hh = {}
    for jj, b in enumerate(blocks):
        hh.setdefault(hh_of_ind[jj], []).append(list(b))
    order = list(hh)
    r.shuffle(order)
    pres = []
    for hk in order:
        persons = hh[hk]
        r.shuffle(persons)
        for b in persons:
            r.shuffle(b)
            pres += b
    spec['pres_a'] = pres
    spec['pres_b'] = pres
    spec['cols'] = {'fine': fine_col, 'coarse': coarse_col}
    spec['aligned'] = aligned
    spec['households'] = nh
    spec['sequence'] = list(r.choice(REDECLARE_SEQUENCES))
    between = []
    kc = r.choice(list(spec['keysets']))
    used_remove = False
    for _ in range(len(spec['sequence']) - 1):
        acts = []
        if r.random() < 0.6:
            for _ in range(r.randint(1, 2)):
                a = r.choice(REDECLARE_ACTIONS)
                if a == 'remove':
                    if used_remove:
                        continue
                    val = r.choice(spec['keysets'][kc])
                    keep = [t for t in range(n) if spec['canon'][kc][t] != float(val)]
                    if not (1 < len(keep) < n):
                        continue
                    used_remove = True
                    acts.append({'do': 'remove', 'col': kc, 'value': float(val)})
                elif a == 'scale_column':
                    acts.append({'do': 'scale_column', 'col': r.choice(spec['realcols']), 'scale': r.choice([0.5, 2.0, -1.0])})
                elif a == 'add_column':
                    acts.append({'do': 'add_column', 'col': r.choice(spec['realcols'])})
                else:
                    acts.append({'do': a})
        between.append(acts)
    spec['between'] = between
    spec['shuffle_seed'] = r.randrange(10 ** 6)
    return spec
