"""C19 workload: seeded sampling-of-alternatives contexts.

``make_spec(seed, i)`` returns a small JSON-able *specification* (alternative
table with arbitrary ids, partition + sample sizes, individuals, combined
variables and utility given as plain ASTs, optional second (MEV) partition,
optional nests).  ``build(spec, file_name)`` turns it into the real biogeme
objects.  The oracle (biomon/oracle/c19_oracle.py) only ever reads the
specification, never the biogeme objects.

AST of formulas: ['var', name] | ['num', x] | ['add'|'sub'|'mul'|'div', a, b] |
['pow', a, constant] | ['log', a] | ['exp', a]
"""
from __future__ import annotations

import random

ID_COL = 'alt_id'
CHOICE_COL = 'choice'


# ----------------------------------------------------------------------------
# specification generator
# ----------------------------------------------------------------------------
def _r3(rr, lo, hi):
    return round(rr.uniform(lo, hi), 3)


def _split(rr, items, nparts):
    """random split of a list into nparts non-empty parts"""
    items = list(items)
    rr.shuffle(items)
    if nparts <= 1:
        return [items]
    cuts = sorted(rr.sample(range(1, len(items)), nparts - 1))
    parts = []
    prev = 0
    for c in cuts + [len(items)]:
        parts.append(items[prev:c])
        prev = c
    return parts


def _combined_formula(rr, ind_cols, alt_cols):
    s = rr.choice(ind_cols)
    s2 = rr.choice(ind_cols)
    a = rr.choice(alt_cols)
    a2 = rr.choice(alt_cols)
    t = rr.randrange(7)
    V = lambda n: ['var', n]  # noqa: E731
    if t == 0:
        return ['mul', V(s), V(a)]
    if t == 1:
        return ['div', V(s), ['add', ['num', 1.0], ['pow', V(a), 2.0]]]
    if t == 2:  # log of a distance, like the repository's restaurant example
        return ['log', ['pow', ['add', ['add', ['pow', ['sub', V(s), V(a)], 2.0], ['pow', ['sub', V(s2), V(a2)], 2.0]],
                                ['num', 0.01]], 0.5]]
    if t == 3:
        return ['pow', ['sub', V(s), V(a)], 2.0]
    if t == 4:
        return ['sub', ['mul', V(s), V(a)], ['mul', V(s2), V(a2)]]
    if t == 5:
        return ['mul', ['exp', ['mul', ['num', -0.1], V(a)]], V(s)]
    return ['add', V(s), ['mul', ['num', 0.5], V(a)]]


def _utility_term(rr, ind_cols, alt_cols, comb_names):
    V = lambda n: ['var', n]  # noqa: E731
    t = rr.random()
    if comb_names and t < 0.35:
        return V(rr.choice(comb_names))
    if t < 0.65:
        return V(rr.choice(alt_cols))
    if t < 0.8:
        return ['mul', V(rr.choice(ind_cols)), V(rr.choice(alt_cols))]
    if t < 0.9:
        return ['log', ['add', ['num', 1.0], ['pow', V(rr.choice(alt_cols)), 2.0]]]
    if t < 0.95:
        return V(rr.choice(ind_cols))  # same for every alternative: must stay un-renamed and cancel
    return ['mul', V(rr.choice(alt_cols)), V(rr.choice(alt_cols))]


INDEX_STYLES = ['range', 'perm', 'sorted', 'gaps', 'offset', 'id', 'id_named', 'string', 'repeated']


def _index_style(rr, n, ids, for_alternatives):
    """one of several row-label styles: {'style': name, 'labels': [...]} ('sorted': sort by a column, labels follow)"""
    styles = ['range', 'range', 'perm', 'perm', 'sorted', 'gaps', 'offset', 'string', 'repeated']
    if for_alternatives:
        styles += ['id', 'id', 'id_named']
    st = rr.choice(styles)
    if st == 'range':
        return {'style': 'range'}
    if st == 'perm':
        lab = list(range(n))
        rr.shuffle(lab)
        return {'style': st, 'labels': lab}
    if st == 'sorted':
        return {'style': st, 'ascending': rr.random() < 0.5}
    if st == 'gaps':  # rows kept from a larger table
        return {'style': st, 'labels': sorted(rr.sample(range(0, 3 * n + 2), n))}
    if st == 'offset':
        off = rr.choice([-n, -3, 1, 7, 100, 10 ** 6])
        lab = list(range(off, off + n))
        if rr.random() < 0.3:
            rr.shuffle(lab)
        return {'style': st, 'labels': lab}
    if st in ('id', 'id_named'):
        return {'style': st}
    if st == 'string':
        lab = [f'r{k}' for k in range(n)]
        rr.shuffle(lab)
        return {'style': st, 'labels': lab}
    # repeated labels
    lab = [rr.randrange(0, max(1, n // 2)) for _ in range(n)]
    return {'style': 'repeated', 'labels': lab}


def _apply_index(df, style, sort_col, id_col=None):
    st = (style or {}).get('style', 'range')
    if st == 'range':
        return df
    if st == 'sorted':
        # a user sorting the table by an attribute and not resetting the index (stable: rows keep their content)
        return df.sort_values(sort_col, ascending=style.get('ascending', True), kind='stable')
    if st == 'id':
        df = df.copy()
        df.index = df[id_col].to_numpy()
        return df
    if st == 'id_named':
        return df.set_index(id_col, drop=False)
    df = df.copy()
    df.index = list(style['labels'])
    return df


def _mev_and_nests(rr, model, full, ids, n_alt, force_mev=False):
    """second partition + nests for a model on the alternatives `ids` -> (mev, nests)"""
    mev = None
    nests = None
    if model in ('nested', 'cnl') or force_mev or rr.random() < 0.25:
        if rr.random() < 0.5 or n_alt < 4:
            mev_ids = list(ids)
        else:
            mev_ids = rr.sample(ids, rr.randint(max(2, n_alt // 2), n_alt))
        m_str = min(rr.choice([1, 1, 2, 3]), len(mev_ids))
        mstrata = [sorted(p) for p in _split(rr, mev_ids, m_str)]
        msizes = []
        for st in mstrata:
            if full:
                msizes.append(len(st))
            else:
                u = rr.random()
                msizes.append(len(st) if u < 0.3 else rr.randint(1, min(len(st), 10)))
        mev = {'strata': mstrata, 'sizes': msizes}
        if model == 'nested':
            # nests are disjoint subsets of the MEV alternatives; some MEV alternatives may stay alone
            pool = list(mev_ids)
            rr.shuffle(pool)
            if rr.random() < 0.4 and len(pool) > 2:
                pool = pool[: rr.randint(2, len(pool))]
            n_nests = min(rr.choice([1, 2, 2, 3]), max(1, len(pool) // 1))
            n_nests = max(1, min(n_nests, len(pool)))
            parts = _split(rr, pool, n_nests)
            nests = []
            for k, p in enumerate(parts):
                nests.append({'name': f'nest{k}', 'mu': round(rr.uniform(1.0, 2.5), 2), 'mu_kind': rr.choice(['free', 'fixed', 'float']),
                              'alpha': {str(a): 1.0 for a in sorted(p)}})
        elif model == 'cnl':
            n_nests = rr.choice([1, 2, 2, 3])
            nests = [{'name': f'nest{k}', 'mu': round(rr.uniform(1.0, 2.5), 2), 'mu_kind': rr.choice(['free', 'fixed', 'float']), 'alpha': {}}
                     for k in range(n_nests)]
            for a in mev_ids:
                members = rr.sample(range(n_nests), rr.randint(1, n_nests))
                if len(members) == 1:
                    nests[members[0]]['alpha'][str(a)] = 1.0
                else:
                    w = [rr.randint(1, 9) for _ in members]
                    tot = sum(w)
                    for m, ww in zip(members, w):
                        nests[m]['alpha'][str(a)] = round(ww / tot, 2)
            nests = [n for n in nests if n['alpha']]
            covered = set()
            for n in nests:
                covered |= set(n['alpha'])
            # the MEV partition covers exactly the nested alternatives (as the context demands for CNL)
    return mev, nests


def make_spec(seed, i, tier='quick', model=None, full=None, **force):
    rr = random.Random(f'c19/{seed}/{i}')
    big = tier == 'thorough'
    if model is None:
        model = rr.choices(['logit', 'nested', 'cnl'], [0.5, 0.27, 0.23])[0]
    if full is None:
        full = rr.random() < 0.4
    # ---- alternatives ----
    if rr.random() < (0.45 if big else 0.3):
        n_alt = rr.randint(13, 40)
    else:
        n_alt = rr.randint(3, 12)
    n_alt = force.get('n_alt', n_alt)
    id_kind = rr.choice(['small', 'small', 'large', 'neg', 'seq', 'zero'])
    if id_kind == 'small':
        ids = rr.sample(range(1, 3 * n_alt + 2), n_alt)
    elif id_kind == 'large':
        ids = rr.sample(range(1000, 1000000), n_alt)
    elif id_kind == 'neg':
        ids = rr.sample(range(-60, 61), n_alt)
    elif id_kind == 'zero':
        ids = rr.sample(range(0, 2 * n_alt + 1), n_alt)
        if 0 not in ids:
            ids[0] = 0
        rr.shuffle(ids)
    else:
        ids = list(range(1, n_alt + 1))
        if rr.random() < 0.5:
            rr.shuffle(ids)
    n_attr = rr.randint(1, 4)
    alt_cols = {}
    int_cols = []
    for k in range(n_attr):
        name = rr.choice(['x', 'cost', 'tt', 'rating', 'lat'])
        name = f'{name}{k}'
        if rr.random() < 0.25:
            alt_cols[name] = [rr.randint(0, 5) for _ in ids]
            int_cols.append(name)
        else:
            alt_cols[name] = [_r3(rr, -2.0, 3.0) for _ in ids]
    id_float = rr.random() < 0.15
    # ---- main partition ----
    n_str = min(rr.choice([1, 2, 2, 3, 3, 4]), n_alt)
    strata = [sorted(p) for p in _split(rr, ids, n_str)]
    sizes = []
    for st in strata:
        if full:
            sizes.append(len(st))
        else:
            u = rr.random()
            if u < 0.2:
                sizes.append(1)
            elif u < 0.3:
                sizes.append(len(st))
            else:
                sizes.append(rr.randint(1, min(len(st), 9)))
    if not full and all(k == len(st) for k, st in zip(sizes, strata)) and n_alt > n_str:
        # make sure "partial" really is partial somewhere
        j = max(range(n_str), key=lambda q: len(strata[q]))
        sizes[j] = rr.randint(1, len(strata[j]) - 1)
    # ---- individuals ----
    n_ind = rr.randint(1, 60) if big else rr.choice([1, 2, 3, 5, 8, 12, 20, 30])
    n_ind = force.get('n_ind', n_ind)
    choices = [rr.choice(ids) for _ in range(n_ind)]
    n_soc = rr.randint(1, 3)
    ind_cols = {}
    ind_int = []
    for k in range(n_soc):
        name = f"{rr.choice(['age', 'inc', 'ulat', 's'])}{k}"
        if rr.random() < 0.3:
            ind_cols[name] = [rr.randint(1, 5) for _ in range(n_ind)]
            ind_int.append(name)
        else:
            ind_cols[name] = [_r3(rr, 0.5, 3.0) for _ in range(n_ind)]
    index = None
    if rr.random() < 0.25:
        index = rr.sample(range(0, 5 * n_ind + 3), n_ind)
    # row labels of the two tables, chosen independently (the library must identify rows by id / position, never by label)
    alt_index = _index_style(rr, n_alt, ids, for_alternatives=True)
    ind_index = {'style': 'range'} if index is not None else _index_style(rr, n_ind, None, for_alternatives=False)
    choice_float = rr.random() < 0.3
    # ---- formulas ----
    attr_names = list(alt_cols)
    comb = []
    for k in range(rr.choice([0, 1, 1, 2])):
        comb.append({'name': f'cv{k}', 'f': _combined_formula(rr, list(ind_cols), attr_names + ([ID_COL] if rr.random() < 0.05 and id_kind in ('small', 'seq', 'zero') else []))})
    util = []
    n_terms = rr.randint(2, 4)
    have_alt_specific = False
    for k in range(n_terms):
        term = _utility_term(rr, list(ind_cols), attr_names, [c['name'] for c in comb])
        if k == n_terms - 1 and not have_alt_specific:
            term = ['var', rr.choice(attr_names)] if not comb else ['var', comb[-1]['name']]
        if term[0] != 'var' or term[1] not in ind_cols:
            have_alt_specific = True
        scale = 0.25 if (comb and term == ['var', comb[-1]['name']]) or term[0] in ('mul',) else 0.8
        util.append({'beta': f'b{k}', 'value': _r3(rr, -scale, scale), 'status': 1 if rr.random() < 0.15 else 0, 'term': term})
    # every combined variable is used at least once in the data (it is always defined), not necessarily in V
    # ---- second (MEV) sample, nests ----
    mev, nests = _mev_and_nests(rr, model, full, ids, n_alt)
    spec = {
        'model': model, 'full': bool(full), 'id_kind': id_kind, 'id_float': id_float,
        'ids': ids, 'alt_cols': alt_cols, 'alt_int_cols': int_cols,
        'strata': strata, 'sizes': sizes,
        'choices': choices, 'choice_float': choice_float, 'ind_cols': ind_cols, 'ind_int_cols': ind_int, 'index': index,
        'alt_index': alt_index, 'ind_index': ind_index,
        'combined': comb, 'utility': util, 'mev': mev, 'nests': nests,
    }
    return spec


def make_history(seed, i, tier='quick'):
    """2-4 specifications that share ONE table of alternatives (same ids, columns, row labels: the caller builds the
    data frame once and hands the same object to every context): a cross-nested context first, then cross-nested with
    the same nest names and other alphas / members, a logit or nested context in between, the same specification again,
    or other nest names. Everything else (partition sizes, second partition) is re-drawn per step."""
    import copy

    rr = random.Random(f'c19-history/{seed}/{i}')
    base = make_spec(seed + 7777, i, tier, model='cnl', n_ind=rr.choice([2, 4, 6, 10]), n_alt=rr.randint(4, 12))
    steps = [base]
    n_steps = rr.choice([2, 2, 3, 3, 4])
    kinds = []
    for k in range(1, n_steps):
        kind = rr.choice(['cnl_same_names', 'cnl_same_names', 'cnl_same_names', 'logit', 'nested', 'same', 'cnl_other_names'])
        if k == n_steps - 1 and not any(x.startswith('cnl') or x == 'same' for x in kinds):
            kind = 'cnl_same_names'  # a history always comes back to a cross-nested context
        kinds.append(kind)
        prev_cnl = [sp for sp in steps if sp['model'] == 'cnl'][-1]
        if kind == 'same':
            sp = copy.deepcopy(prev_cnl)
        else:
            sp = copy.deepcopy(base)
            model = 'cnl' if kind.startswith('cnl') else kind
            full = rr.random() < 0.5
            sp['model'], sp['full'] = model, full
            sp['sizes'] = [len(st) if full else rr.randint(1, len(st)) for st in sp['strata']]
            sp['mev'], sp['nests'] = _mev_and_nests(rr, model, full, sp['ids'], len(sp['ids']))
            if kind == 'cnl_other_names':
                for n in sp['nests']:
                    n['name'] = 'other_' + n['name']
        sp['history_step'] = kind
        steps.append(sp)
    base['history_step'] = 'first_cnl'
    return steps


def directed():
    """Seed-independent shapes that every run must contain."""
    out = []
    # D0: the repository's own CNL lay-out (second sample larger than the first), complete sampling of both samples
    base = {
        'id_kind': 'small', 'id_float': False,
        'ids': [3, 7, 11, 20, 5, 9],
        'alt_cols': {'cost': [1.5, 2.5, 3.5, 0.5, 1.0, 2.0], 'tt': [1.0, 2.0, 3.0, 0.5, 0.7, 0.8]}, 'alt_int_cols': [],
        'strata': [[3, 5, 7], [9, 11, 20]], 'sizes': [3, 3],
        'choices': [7, 3, 11, 20, 3, 9, 5], 'choice_float': False,
        'ind_cols': {'age': [2.5, 3.0, 3.5, 4.0, 2.2, 5.0, 1.0], 'inc': [1.0, 2.0, 3.0, 4.0, 5.0, 6.0, 2.0]}, 'ind_int_cols': [], 'index': None,
        'combined': [{'name': 'agett', 'f': ['mul', ['var', 'age'], ['var', 'tt']]}],
        'utility': [{'beta': 'b0', 'value': -0.3, 'status': 0, 'term': ['var', 'cost']},
                    {'beta': 'b1', 'value': 0.02, 'status': 0, 'term': ['var', 'agett']},
                    {'beta': 'b2', 'value': 0.1, 'status': 0, 'term': ['mul', ['var', 'inc'], ['var', 'tt']]}],
    }
    cnl_nests = [{'name': 'n1', 'mu': 1.5, 'mu_kind': 'fixed', 'alpha': {'3': 0.4, '7': 1.0, '11': 0.5}},
                 {'name': 'n2', 'mu': 2.0, 'mu_kind': 'float', 'alpha': {'3': 0.6, '11': 0.5, '20': 1.0, '5': 1.0, '9': 1.0}}]
    d0 = dict(base, model='cnl', full=True, mev={'strata': [[3, 5, 7], [9, 11, 20]], 'sizes': [3, 3]}, nests=cnl_nests)
    out.append(d0)
    # D1: CNL, second sample smaller than the first one
    cnl2 = [{'name': 'n1', 'mu': 1.5, 'mu_kind': 'free', 'alpha': {'3': 0.4, '7': 1.0, '11': 0.5}},
            {'name': 'n2', 'mu': 2.0, 'mu_kind': 'float', 'alpha': {'3': 0.6, '11': 0.5, '20': 1.0}}]
    d1 = dict(base, model='cnl', full=True, mev={'strata': [[3, 7], [11, 20]], 'sizes': [2, 2]}, nests=cnl2)
    out.append(d1)
    # D2: nested logit, complete sampling
    nl = [{'name': 'n1', 'mu': 1.5, 'mu_kind': 'free', 'alpha': {'3': 1.0, '7': 1.0}},
          {'name': 'n2', 'mu': 2.0, 'mu_kind': 'float', 'alpha': {'11': 1.0, '20': 1.0}}]
    out.append(dict(base, model='nested', full=True, mev={'strata': [[3, 7], [11, 20]], 'sizes': [2, 2]}, nests=nl))
    # D3: logit, complete sampling, one stratum
    out.append(dict(base, model='logit', full=True, strata=[[3, 5, 7, 9, 11, 20]], sizes=[6], mev=None, nests=None))
    # D4: logit, partial sampling with a stratum of requested size 1 (nothing but the chosen one when it is chosen)
    out.append(dict(base, model='logit', full=False, strata=[[3], [5, 7], [9, 11, 20]], sizes=[1, 1, 2], mev=None, nests=None))
    # D5: nested logit, partial sampling of both samples
    out.append(dict(base, model='nested', full=False, strata=[[3, 5, 7], [9, 11, 20]], sizes=[2, 2],
                    mev={'strata': [[3, 7, 11, 20]], 'sizes': [3]}, nests=nl))
    # D6: CNL, partial sampling, equal sizes of the two samples
    out.append(dict(base, model='cnl', full=False, strata=[[3, 5, 7], [9, 11, 20]], sizes=[2, 2],
                    mev={'strata': [[3, 7], [11, 20]], 'sizes': [2, 2]}, nests=cnl2))
    # D7-D10: row labels that differ from row positions (table sorted without reset_index, indexed by id, shuffled)
    out.append(dict(base, model='logit', full=True, strata=[[3, 5, 7], [9, 11, 20]], sizes=[3, 3], mev=None, nests=None,
                    alt_index={'style': 'sorted', 'ascending': True}))
    out.append(dict(base, model='logit', full=False, strata=[[3, 5, 7], [9, 11, 20]], sizes=[2, 2], mev=None, nests=None,
                    alt_index={'style': 'id'}, ind_index={'style': 'string', 'labels': ['g', 'a', 'c', 'b', 'f', 'e', 'd']}))
    out.append(dict(base, model='nested', full=True, mev={'strata': [[3, 7], [11, 20]], 'sizes': [2, 2]}, nests=nl,
                    alt_index={'style': 'perm', 'labels': [4, 2, 5, 0, 1, 3]}, ind_index={'style': 'perm', 'labels': [6, 0, 3, 1, 5, 2, 4]}))
    out.append(dict(base, model='logit', full=True, strata=[[3, 5, 7], [9, 11, 20]], sizes=[3, 3], mev=None, nests=None,
                    alt_index={'style': 'gaps', 'labels': [1, 4, 5, 9, 12, 17]}, ind_index={'style': 'repeated', 'labels': [0, 0, 1, 1, 2, 2, 0]}))
    return out


# ----------------------------------------------------------------------------
# real objects
# ----------------------------------------------------------------------------
def _expr(ast):
    from biogeme.expressions import Variable, Numeric, log, exp

    op = ast[0]
    if op == 'var':
        return Variable(ast[1])
    if op == 'num':
        return Numeric(ast[1])
    if op == 'log':
        return log(_expr(ast[1]))
    if op == 'exp':
        return exp(_expr(ast[1]))
    if op == 'pow':
        return _expr(ast[1]) ** ast[2]
    a, b = _expr(ast[1]), _expr(ast[2])
    if op == 'add':
        return a + b
    if op == 'sub':
        return a - b
    if op == 'mul':
        return a * b
    if op == 'div':
        return a / b
    raise ValueError(op)


def frames(spec):
    """the two pandas tables, exactly as a user would hand them over"""
    import numpy as np
    import pandas as pd

    alt = {ID_COL: np.array(spec['ids'], dtype=float if spec['id_float'] else int)}
    for c, v in spec['alt_cols'].items():
        alt[c] = np.array(v, dtype=int if c in spec['alt_int_cols'] else float)
    alternatives = pd.DataFrame(alt)
    alternatives = _apply_index(alternatives, spec.get('alt_index'), list(spec['alt_cols'])[0], ID_COL)
    ind = {CHOICE_COL: np.array(spec['choices'], dtype=float if spec['choice_float'] else int)}
    for c, v in spec['ind_cols'].items():
        ind[c] = np.array(v, dtype=int if c in spec['ind_int_cols'] else float)
    individuals = pd.DataFrame(ind, index=spec['index'])
    ist = spec.get('ind_index') or {'style': 'range'}
    if ist.get('style') != 'sorted':  # the order of the individuals is part of the specification: labels only
        individuals = _apply_index(individuals, ist, None)
    else:
        order = sorted(range(len(individuals)), key=lambda r: (ind[list(spec['ind_cols'])[0]][r], r))
        lab = [0] * len(order)
        for pos, r in enumerate(order):
            lab[r] = pos
        individuals.index = lab  # what sort_values + a later re-sort on another key leaves behind: a permutation
    return individuals, alternatives


def build(spec, file_name, alternatives=None):
    """-> dict(context=SamplingContext, nests=NestsForNestedLogit|None, individuals=..., alternatives=...)"""
    from biogeme.expressions import Beta
    from biogeme.partition import Partition
    from biogeme.sampling_of_alternatives import SamplingContext, CrossVariableTuple
    from biogeme.nests import (OneNestForNestedLogit, NestsForNestedLogit, OneNestForCrossNestedLogit,
                               NestsForCrossNestedLogit)

    individuals, own = frames(spec)
    if alternatives is None:
        alternatives = own  # else: the caller's data frame object, shared with earlier contexts (never copied here)
    part = Partition([set(s) for s in spec['strata']], full_set=set(spec['ids']))
    V = None
    for t in spec['utility']:
        piece = Beta(t['beta'], t['value'], None, None, t['status']) * _expr(t['term'])
        V = piece if V is None else V + piece
    comb = [CrossVariableTuple(c['name'], _expr(c['f'])) for c in spec['combined']]
    kw = {}
    if spec['mev'] is not None:
        full2 = set()
        for s in spec['mev']['strata']:
            full2 |= set(s)
        kw['mev_partition'] = Partition([set(s) for s in spec['mev']['strata']], full_set=full2)
        kw['mev_sample_sizes'] = list(spec['mev']['sizes'])

    def mu_of(n):
        if n['mu_kind'] == 'float':
            return n['mu']
        return Beta('mu_' + n['name'], n['mu'], 1.0, None, 1 if n['mu_kind'] == 'fixed' else 0)

    nl_nests = None
    if spec['model'] == 'cnl':
        kw['cnl_nests'] = NestsForCrossNestedLogit(
            choice_set=list(spec['ids']),
            tuple_of_nests=tuple(
                OneNestForCrossNestedLogit(nest_param=mu_of(n), dict_of_alpha={int(a): v for a, v in n['alpha'].items()}, name=n['name'])
                for n in spec['nests']
            ),
        )
    elif spec['model'] == 'nested':
        nl_nests = NestsForNestedLogit(
            choice_set=list(spec['ids']),
            tuple_of_nests=tuple(
                OneNestForNestedLogit(nest_param=mu_of(n), list_of_alternatives=[int(a) for a in n['alpha']], name=n['name'])
                for n in spec['nests']
            ),
        )
    ctx = SamplingContext(
        the_partition=part, sample_sizes=list(spec['sizes']), individuals=individuals, choice_column=CHOICE_COL,
        alternatives=alternatives, id_column=ID_COL, biogeme_file_name=file_name, utility_function=V,
        combined_variables=comb, **kw,
    )
    return {'context': ctx, 'nests': nl_nests, 'individuals': individuals, 'alternatives': alternatives}
