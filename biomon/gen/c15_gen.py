"""C15 workload: model specifications, evaluation histories, real biogeme objects.

Everything is a pure function of (seed, i) and JSON-able, so that one case can be
replayed alone. Floats that must survive JSON bit-for-bit are carried as hex
strings (``float.hex``).

Two model families
* 'quad'  : LL(row) = sum_i -w * wt_i * (s_i*b_i - c_i*t)^2  [+ log(p) - p] ; finite value and
            gradient for every finite parameter value (the per-parameter scale s_i keeps
            1e308 and denormals inside the double range), a non-finite gradient at p = 0,
            a NaN value with finite gradient at p < 0.  The reference value is computed
            by ``quad_reference`` (numpy) independently of biogeme.
* 'logit' : binary logit on generated choices, used with the real optimisers.
"""
from __future__ import annotations

import math
import random

# characters verified (scratch probe) to be accepted by the engine's signature parser and
# by the file format; brackets, quotes and commas make the external engine abort and '='
# is the field separator of the file (probed separately as a directed case).
_ASCII = 'abcdefghijklmnopqrstuvwxyzABCDEFGHIJKLMNOPQRSTUVWXYZ0123456789_'
_PUNCT = '-.:/#%;|*+~!?@$^&<>'
_UNI = 'éβ中ñüжλø'

HOSTILE_VALUES = [
    1e308, -1.7e308, 1.7976931348623157e308, 5e-324, -5e-324, 2.2250738585072014e-308, 1e-310, -0.0, 0.0,
    0.1 + 0.2, 1.0 / 3.0, 2.0 / 3.0, 123456789.12345679, 1.0000000000000002, 0.9999999999999999,
    4.35, 1e16 + 2.0, 1e-5, 1e22, 1e23, 9007199254740993.0, 5e-5, 1.2345678901234567e-7, 8.41e21,
    2.5e-324 * 4, 1e21, 1e-7, -1e15, 0.30000000000000004, 6.02214076e23,
]


def fhex(v: float) -> str:
    return float(v).hex()


def unhex(s: str) -> float:
    return float.fromhex(s)


def _name(r: random.Random, style: str) -> str:
    if style == 'plain':
        return 'B_' + ''.join(r.choice(_ASCII) for _ in range(r.randint(1, 10)))
    if style == 'spaces':
        parts = [''.join(r.choice(_ASCII) for _ in range(r.randint(1, 6))) for _ in range(r.randint(2, 4))]
        return r.choice([' ', '  ', '\t']).join(parts)
    if style == 'unicode':
        return ''.join(r.choice(_UNI + _ASCII[:10]) for _ in range(r.randint(2, 12)))
    if style == 'punct':
        return r.choice(_ASCII) + ''.join(r.choice(_PUNCT + _ASCII[:6]) for _ in range(r.randint(2, 12))) + r.choice(_ASCII)
    if style == 'long':
        n = r.randint(200, 420)
        return 'L' + ''.join(r.choice(_ASCII + ' ' + _UNI) for _ in range(n)) + 'x'
    if style == 'numeric':
        return r.choice(['1', '-1', '0.5', 'nan', 'inf', '-inf', '1e5', 'True', 'None', '0', '1.0', '0x10', '1_000'])
    w = ''.join(r.choice(_ASCII) for _ in range(r.randint(1, 6)))
    if style == 'comment':
        # what a reader of hand-edited files may take for a comment, a section or a string
        return r.choice(['#', '# ', '  # of ', ';', '; ', '//', '// ', '--', '%', '!', '[', '[' + w + '] ', '"', "'", '"' + w + '" ', "'" + w + "' ",
                         '<', '{', '(', '\\', '*', '@']) + w
    if style == 'edge-blank':
        return r.choice([' ', '  ', '\t', '\u00a0']) * r.randint(0, 2) + w + r.choice([' ', '  ', '\t', '\u00a0', ''])
    if style == 'equals':
        return r.choice([w + ' = ' + w, w + '=' + w, w + ' = 1.5', '= ' + w, w + ' =', w + ' = ' + w + ' = 2', '=' + w, w + '= '])
    if style == 'bracketed':
        return r.choice(['[' + w + ']', '(' + w + ')', '{' + w + '}', w + '[1]', w + '(2)', '"' + w + '"', "'" + w + "'", w + ',' + w, w + ', ' + w,
                         '`' + w + '`', w + '"', w + "'s"])
    raise ValueError(style)


RESERVED = {'t', 'w', 'x1', 'x2', 'z', 'choice'}  # columns of the generated tables (a parameter may not share a name with a variable)
HOSTILE_STYLES = ['plain', 'spaces', 'unicode', 'punct', 'numeric', 'comment', 'comment', 'edge-blank', 'equals', 'bracketed', 'spaces', 'unicode']


def make_names(r: random.Random, k: int, mode: str) -> list[str]:
    """k distinct names. mode: plain | hostile | long"""
    out: list[str] = []
    seen = set()
    while len(out) < k:
        if mode == 'plain':
            st = 'plain'
        elif mode == 'long':
            st = 'long'
        else:
            st = r.choice(HOSTILE_STYLES + (['long'] if k <= 12 else ['plain']))
        if mode == 'hostile' and out and r.random() < 0.12:
            # a name equal to another one plus a trailing / leading blank, or plus ' = <number>'
            n = r.choice(out)
            n = r.choice([n + ' ', ' ' + n, n + ' = 1', n + '  ', '#' + n])
        else:
            n = _name(r, st)
        if n in seen or not n.strip() or '\n' in n or '\r' in n or n in RESERVED:
            continue
        seen.add(n)
        out.append(n)
    return out


def name_class(n: str) -> list[str]:
    out = []
    if n != n.strip():
        out.append('edge_white_space')
    if n.lstrip()[:1] in '#;%![<{(*@"\'-' or n.lstrip()[:2] in ('//', '--'):
        out.append('comment_or_section_like_start')
    if '=' in n:
        out.append('equals_sign')
    if any(ch in n for ch in '[](){}"\',`'):
        out.append('brackets_quotes_commas')
    try:
        float(n)
        out.append('reads_as_number')
    except ValueError:
        pass
    return out


def model_name(r: random.Random) -> str:
    st = r.random()
    if st < 0.5:
        return 'm' + ''.join(r.choice(_ASCII) for _ in range(r.randint(1, 12)))
    if st < 0.8:
        return 'mod ' + ''.join(r.choice(_ASCII + ' -.' + _UNI) for _ in range(r.randint(1, 20))) + 'z'
    return ''.join(r.choice(_ASCII + _UNI) for _ in range(r.randint(1, 40)))


# ---------------------------------------------------------------------------
# quadratic family
# ---------------------------------------------------------------------------
def make_quad(r: random.Random, k: int, names_mode: str, hostile_values: bool, with_log: bool, with_sqrt: bool = False) -> dict:
    nrows = r.randint(2, 6)
    rows = [[round(r.uniform(0.2, 1.5), 3), r.choice([0.5, 1.0, 2.0])] for _ in range(nrows)]
    names = make_names(r, k, names_mode)
    params = []
    for i, n in enumerate(names):
        role = 'tame'
        if hostile_values and i > 0 and r.random() < 0.6:
            role = r.choice(['huge', 'tiny', 'digits'])
        # weights keep the contribution of the hostile parameters small but non-zero
        if role == 'huge':
            s, c, wt = 1e-300, 0.0, 1e-20
        elif role == 'tiny':
            s, c, wt = 1.0, 0.0, 1e-3
        elif role == 'digits':
            s, c, wt = 1e-12, 0.0, 1e-30
        else:
            s, c, wt = 1.0, (0.0 if (i > 0 and r.random() < 0.3) else round(r.uniform(-1.5, 1.5), 2)), 1.0
        params.append({'name': n, 'role': role, 's': s, 'c': c, 'wt': wt,
                       'init': round(r.uniform(-2.0, 2.0), 2) if role == 'tame' else 0.0,
                       'lb': None, 'ub': None})
    spec = {'kind': 'quad', 'model_name': model_name(r), 'rows': rows, 'params': params, 'logp': None}
    if with_log:
        n = 'P_' + ''.join(r.choice(_ASCII) for _ in range(4))
        while n in names:
            n += 'q'
        spec['logp'] = n
        params.append({'name': n, 'role': 'logp', 's': 1.0, 'c': 0.0, 'wt': 1.0, 'init': 2.0, 'lb': None, 'ub': None})
    spec['sqrtp'] = None
    if with_sqrt:
        # sqrt(r) - r/2: finite value and infinite derivative at r = 0
        n = 'R_' + ''.join(r.choice(_ASCII) for _ in range(4))
        while n in [p['name'] for p in params]:
            n += 'q'
        spec['sqrtp'] = n
        params.append({'name': n, 'role': 'sqrtp', 's': 1.0, 'c': 0.0, 'wt': 1.0, 'init': 2.0, 'lb': None, 'ub': None})
    return spec


def free_names(spec: dict) -> list[str]:
    """names of the free parameters in the order biogeme numbers them (sorted)."""
    return sorted(p['name'] for p in spec['params'])


def quad_optimum(spec: dict) -> dict:
    """arg-max of the tame part: b_i = c_i * sum(w t^2)/(sum(w t) ...) -> closed form per parameter"""
    rows = spec['rows']
    sw_tt = sum(w * t * t for t, w in rows)
    sw_t = sum(w * t for t, w in rows)
    out = {}
    for p in spec['params']:
        if p['role'] in ('logp', 'sqrtp'):
            out[p['name']] = 1.0
        else:
            # minimise sum_w (s b - c t)^2  -> s b = c * sum(w t)/sum(w)
            sw = sum(w for _, w in rows)
            out[p['name']] = (p['c'] * sw_t / sw) / p['s'] if p['s'] else 0.0
    return out


def quad_reference(spec: dict, values: dict) -> float:
    """independent numpy/python value of the log likelihood (sum over rows)"""
    import numpy as np

    with np.errstate(all='ignore'):
        tot = np.float64(0.0)
        for t, w in spec['rows']:
            row = np.float64(0.0)
            for p in spec['params']:
                b = np.float64(values[p['name']])
                if p['role'] == 'logp':
                    row = row + (np.log(b) - b)
                elif p['role'] == 'sqrtp':
                    row = row + (np.sqrt(b) - np.float64(0.5) * b)
                else:
                    row = row - np.float64(w) * np.float64(p['wt']) * (np.float64(p['s']) * b - np.float64(p['c']) * np.float64(t)) ** 2
            tot = tot + row
    return float(tot)


def build_quad(spec: dict):
    """real biogeme objects: (database, loglikelihood expression)"""
    import pandas as pd
    from biogeme.database import Database
    from biogeme.expressions import Beta, Variable, log

    df = pd.DataFrame({'t': [float(t) for t, _ in spec['rows']], 'w': [float(w) for _, w in spec['rows']]})
    db = Database('c15data', df)
    t = Variable('t')
    w = Variable('w')
    ll = None
    for p in spec['params']:
        b = Beta(p['name'], p['init'], p['lb'], p['ub'], 0)
        if p['role'] == 'logp':
            term = log(b) - b
        elif p['role'] == 'sqrtp':
            term = b ** 0.5 - 0.5 * b
        else:
            term = -(w * p['wt']) * (p['s'] * b - p['c'] * t) ** 2
        ll = term if ll is None else ll + term
    return db, ll


# ---------------------------------------------------------------------------
# logit family (real optimisers)
# ---------------------------------------------------------------------------
def make_logit(r: random.Random, names_mode: str, bounds: bool) -> dict:
    n = r.randint(40, 120)
    truth = [r.uniform(-0.8, 0.8), r.uniform(-1.5, -0.2), r.uniform(0.2, 1.5)]
    rows = []
    for _ in range(n):
        x1, x2, z = r.uniform(0, 3), r.uniform(0, 3), r.uniform(-1, 1)
        v1 = truth[0] + truth[1] * x1 + truth[2] * z
        v2 = truth[1] * x2
        p1 = 1.0 / (1.0 + math.exp(v2 - v1))
        rows.append([round(x1, 3), round(x2, 3), round(z, 3), 1 if r.random() < p1 else 2])
    if len({row[3] for row in rows}) < 2:
        rows[0][3], rows[1][3] = 1, 2
    names = make_names(r, 3, names_mode)
    params = []
    for i, nm in enumerate(names):
        lb = ub = None
        if bounds and i == 1:
            lb, ub = -3.0, 0.0
        if bounds and i == 2 and r.random() < 0.5:
            lb, ub = 0.0, round(abs(truth[2]) * r.choice([0.5, 2.0]), 3)  # possibly active
        params.append({'name': nm, 'init': 0.0, 'lb': lb, 'ub': ub, 'role': 'tame'})
    return {'kind': 'logit', 'model_name': model_name(r), 'rows': rows, 'params': params, 'logp': None, 'sqrtp': None}


def build_logit(spec: dict):
    import pandas as pd
    from biogeme.database import Database
    from biogeme.expressions import Beta, Variable
    from biogeme import models

    df = pd.DataFrame(spec['rows'], columns=['x1', 'x2', 'z', 'choice']).astype(float)
    db = Database('c15data', df)
    ps = [Beta(p['name'], p['init'], p['lb'], p['ub'], 0) for p in spec['params']]
    v = {1: ps[0] + ps[1] * Variable('x1') + ps[2] * Variable('z'), 2: ps[1] * Variable('x2')}
    ll = models.loglogit(v, None, Variable('choice'))
    return db, ll


def logit_reference(spec: dict, values: dict) -> float:
    """independent numpy value of the binary-logit log likelihood on the estimation data"""
    import numpy as np

    a = np.asarray(spec['rows'], dtype=float)
    b0, b1, b2 = (np.float64(values[p['name']]) for p in spec['params'])
    with np.errstate(all='ignore'):
        v1 = b0 + b1 * a[:, 0] + b2 * a[:, 2]
        v2 = b1 * a[:, 1]
        m = np.maximum(v1, v2)
        lse = m + np.log(np.exp(v1 - m) + np.exp(v2 - m))
        ll = np.where(a[:, 3] == 1, v1, v2) - lse
    return float(ll.sum())


def reference(spec: dict, values: dict) -> float:
    return quad_reference(spec, values) if spec['kind'] == 'quad' else logit_reference(spec, values)


def build(spec: dict):
    return build_quad(spec) if spec['kind'] == 'quad' else build_logit(spec)


def default_start(spec: dict) -> dict:
    return {p['name']: float(p['init']) for p in spec['params']}


# ---------------------------------------------------------------------------
# evaluation histories for the quadratic family
# ---------------------------------------------------------------------------
def _hostile_value(r: random.Random, role: str) -> float:
    if role == 'huge':
        return r.choice([1e308, -1.7e308, 1.7976931348623157e308, r.uniform(-1.0, 1.0) * 1e307, 8.41e300, -3.3e305])
    if role == 'tiny':
        return r.choice([5e-324, -5e-324, 2.2250738585072014e-308, 1e-310, -0.0, 0.0, r.uniform(-1, 1) * 1e-312, 3e-320])
    return r.choice(HOSTILE_VALUES[9:]) * r.choice([1.0, -1.0]) if r.random() < 0.7 else r.uniform(-1e3, 1e3)


def make_history(r: random.Random, spec: dict, length: int, nonfinite: bool = True, first_kind: str = 'first') -> list[dict]:
    """list of steps {'intent', 'x': {name: hex}, 'container': 'list'|'array', 'scaled','hessian','bhhh'}

    Tame parameters move on a ray through the optimum, x = opt + d*dir, so that the
    *intended* order of the likelihood values is known; the oracle nevertheless uses the
    values observed at the boundary."""
    opt = quad_optimum(spec)
    tame = [p for p in spec['params'] if p['role'] == 'tame']
    direction = {p['name']: r.choice([-1.0, 1.0]) * r.uniform(0.3, 1.5) for p in tame}
    for p in tame:
        if p['c'] == 0.0:
            opt[p['name']] = 0.0
    cur_host = {p['name']: _hostile_value(r, p['role']) for p in spec['params'] if p['role'] in ('huge', 'tiny', 'digits')}
    logp = spec['logp']

    sqrtp = spec.get('sqrtp')

    def point(d, host, pval, rval=1.0):
        x = {}
        for p in spec['params']:
            if p['role'] == 'tame':
                x[p['name']] = opt[p['name']] + d * direction[p['name']]
            elif p['role'] == 'logp':
                x[p['name']] = pval
            elif p['role'] == 'sqrtp':
                x[p['name']] = rval
            else:
                x[p['name']] = host[p['name']]
        return x

    steps = []
    d_first = r.uniform(0.8, 1.6)
    d_best = d_first
    best_pt = None
    kinds = ['improve', 'improve', 'worsen-mid', 'worsen-mid', 'worsen-far', 'tie-same', 'tie-flip', 'host-only']
    if nonfinite and logp:
        kinds += ['nonfinite-g', 'nan-f']
    if nonfinite and sqrtp:
        kinds += ['inf-g-finite-f', 'inf-g-finite-f-better']
    if nonfinite:
        kinds += ['nan-x']
    for j in range(length):
        if j == 0:
            intent = first_kind
        else:
            intent = r.choice(kinds)
        host = dict(cur_host)
        pval = 1.0
        rval = 1.0
        d = d_best
        if intent in ('first',):
            d = d_first
        elif intent == 'first-nan-f':
            d, pval = d_first, -0.5
        elif intent == 'improve':
            d = d_best * r.uniform(0.3, 0.9)
        elif intent == 'worsen-mid':
            d = d_best + (d_first - d_best) * r.uniform(0.25, 0.75) if d_first > d_best else d_best * 1.0
        elif intent == 'worsen-far':
            d = d_first * r.uniform(1.3, 3.0)
        elif intent == 'host-only':
            host = {n: _hostile_value(r, next(p['role'] for p in spec['params'] if p['name'] == n)) for n in host}
        elif intent == 'nonfinite-g':
            pval = 0.0
        elif intent == 'nan-f':
            pval = -r.uniform(0.1, 2.0)
        elif intent == 'inf-g-finite-f':
            rval = 0.0
        elif intent == 'inf-g-finite-f-better':
            rval = 0.0
            d = d_best * r.uniform(0.0, 0.4)
        if r.random() < 0.5 and intent in ('improve', 'worsen-mid', 'worsen-far'):
            host = {n: _hostile_value(r, next(p['role'] for p in spec['params'] if p['name'] == n)) for n in host}
        x = point(d, host, pval, rval)
        if intent == 'tie-same' and best_pt is not None:
            x = dict(best_pt)
        elif intent == 'tie-flip' and best_pt is not None:
            x = dict(best_pt)
            flips = [p['name'] for p in spec['params'] if p['role'] != 'logp' and p['c'] == 0.0]
            if flips:
                n = r.choice(flips)
                x[n] = -x[n]
        elif intent == 'nan-x':
            n = r.choice([p['name'] for p in spec['params']])
            x[n] = float('nan')
        if intent in ('first', 'improve') or (intent == 'host-only' and best_pt is None):
            if intent == 'improve' or best_pt is None:
                d_best = min(d_best, d)
                best_pt = dict(x)
        cur_host = host if intent not in ('nan-x', 'nonfinite-g', 'nan-f', 'inf-g-finite-f', 'inf-g-finite-f-better') else cur_host
        steps.append({
            'intent': intent,
            'x': {n: fhex(v) for n, v in x.items()},
            'container': 'array' if intent in ('nan-x', 'nonfinite-g', 'first-nan-f', 'inf-g-finite-f', 'inf-g-finite-f-better') else r.choice(['list', 'array', 'array']),
            'scaled': False, 'hessian': r.random() < 0.3, 'bhhh': r.random() < 0.3,
        })
    return steps
