"""C04 workload: seeded (log-likelihood formula, weight formula, table, parameter point) cases.

Everything is expressed in the AST format of biomon.oracle.evalast so that the
same description yields (a) real biogeme objects through biomon.gen.build and
(b) the independent per-observation reference values.

Three families:
  logit   cross-section log-logit with 2-4 alternatives (labels not 0..K-1), availabilities,
          alternative specific constants, generic / specific / non-linear terms, a fixed scale
  random  a random *differentiable* expression DAG from biomon.gen.exprs (any operator mix)
  panel   log(PanelLikelihoodTrajectory(logit probability)) over individuals with 1-5 rows each,
          individual ids not in ascending order
"""
from __future__ import annotations

import random

from . import exprs

ROW_CHOICES = [1, 1, 2, 2, 3, 4, 5, 6, 7, 8, 9, 11, 15, 16, 17, 23, 31, 32, 33, 47, 64, 65, 100, 129, 257, 400]


def _rows(r: random.Random, tier):
    c = r.random()
    if c < 0.75:
        return r.choice(ROW_CHOICES)
    return r.randint(1, 400 if tier == 'thorough' or r.random() < 0.3 else 60)


def _val(r, used, lo=-1.2, hi=1.2):
    while True:
        v = round(r.uniform(lo, hi), 3)
        if v != 0 and v not in used:
            used.add(v)
            return v


def _logit_parts(r: random.Random, n: int, panel_prob=False):
    """returns (utils, avs, choice ast, data dict, betas dict)"""
    labels = r.choice([[1, 2], [0, 1], [1, 2, 3], [2, 5, 11], [3, 1, 2], [1, 2, 3, 4], [10, 20, 30], [0, 1, 2, 3]])
    labels = list(labels)
    r.shuffle(labels)
    K = len(labels)
    data = {}
    used = set()
    betas = {}
    generic = []
    if r.random() < 0.9:
        betas['B_TIME'] = [_val(r, used, -0.9, -0.05), 0]
        generic.append(('B_TIME', 't'))
    if r.random() < 0.7:
        betas['b_x'] = [_val(r, used), 0]
        generic.append(('b_x', 'x'))
    nonlin = r.random() < 0.45
    if nonlin:
        betas['Lambda_log'] = [_val(r, used), r.choice([0, 0, 1])]
    scale = r.random() < 0.3
    if scale:
        betas['MU_fixed'] = [round(r.uniform(0.5, 2.0), 3), 1]
    ref_alt = r.choice(labels)
    utils = []
    for k in labels:
        data[f't_{k}'] = [round(r.uniform(0.2, 3.0), 3) for _ in range(n)]
        data[f'x_{k}'] = [round(r.uniform(-2, 2), 3) for _ in range(n)]
        terms = []
        if k != ref_alt and r.random() < 0.85:
            nm = f'ASC_{k}'
            betas[nm] = [_val(r, used), 0 if r.random() < 0.85 else 1]
            terms.append(['beta', nm])
        for b, col in generic:
            terms.append(['mul', ['beta', b], ['var', f'{col}_{k}']])
        if r.random() < 0.3:
            nm = f'bs_{k}'
            betas[nm] = [_val(r, used), 0]
            terms.append(['mul', ['beta', nm], ['powc', ['var', f'x_{k}'], 2]])
        if nonlin and r.random() < 0.7:
            terms.append(['mul', ['beta', 'Lambda_log'], ['log', ['var', f't_{k}']]])
        if not terms:
            terms.append(['num', 0.0])
        u = terms[0]
        if len(terms) > 2 and r.random() < 0.4:
            u = ['multsum', terms, 'list']
        else:
            for t in terms[1:]:
                u = ['add', u, t]
        if scale:
            u = ['mul', ['beta', 'MU_fixed'], u]
        utils.append([k, u])
    if not any(v[1] == 0 for v in betas.values()):
        betas['B_TIME'] = [_val(r, used, -0.9, -0.05), 0]
        utils[0][1] = ['add', utils[0][1], ['mul', ['beta', 'B_TIME'], ['var', f't_{labels[0]}']]]
    data['CHOICE'] = [float(r.choice(labels)) for _ in range(n)]
    avs = None
    if r.random() < 0.6:
        avs = []
        for k in labels:
            col = f'av_{k}'
            data[col] = [1.0 if (data['CHOICE'][i] == k or r.random() < 0.75) else 0.0 for i in range(n)]
            avs.append([k, ['var', col]])
    return utils, avs, ['var', 'CHOICE'], data, betas


def _weight(r: random.Random, n: int, data: dict, allow_data=True):
    """returns (kind, ast or None); may add a column to data"""
    kinds = ['none', 'none', 'const', 'column', 'column', 'expr'] if allow_data else ['none', 'none', 'const']
    kind = r.choice(kinds)
    if kind == 'none':
        return kind, None
    if kind == 'const':
        return kind, ['num', r.choice([2.5, 0.5, 3.0, 1.0, 0.125])]
    w = [round(r.uniform(0.1, 4.0), 3) for _ in range(n)]
    if r.random() < 0.3:
        for i in range(n):
            if r.random() < 0.2:
                w[i] = 0.0
    if r.random() < 0.2:
        w = [float(r.choice([1, 2, 3, 10])) for _ in range(n)]
    data['WGT'] = w
    if kind == 'column':
        return kind, ['var', 'WGT']
    other = r.choice(sorted(c for c in data if c not in ('WGT', 'CHOICE', 'ID') and not c.startswith('av_')))
    form = r.choice(['scaled', 'sum', 'ratio'])
    if form == 'scaled':
        return kind, ['mul', ['var', 'WGT'], ['num', r.choice([0.5, 2.0, 1.25])]]
    if form == 'sum':
        return kind, ['add', ['var', 'WGT'], ['powc', ['var', other], 2]]
    return kind, ['div', ['var', 'WGT'], ['add', ['num', 1.0], ['powc', ['var', other], 2]]]


def _point(r: random.Random, betas: dict):
    used = set(v[0] for v in betas.values())
    return {k: _val(r, used, -1.0, 1.0) for k, v in betas.items() if v[1] == 0}


def _shuffle_columns(r, data):
    cols = list(data)
    r.shuffle(cols)
    return {c: data[c] for c in cols}


def make(seed: int, i: int, tier: str = 'quick', kind=None, nrows=None) -> dict:
    """One reproducible C04 case (JSON-able)."""
    r = random.Random(f'c04/{seed}/{i}')
    kind = kind or r.choice(['logit'] * 9 + ['random'] * 6 + ['panel'] * 5)
    n = nrows or _rows(r, tier)
    spec = None
    if kind == 'random':
        from ..oracle import evalast

        for attempt in range(12):
            s = exprs.make_case(seed * 7919 + 13, i * 12 + attempt, differentiable=True, nrows=n,
                                allow_ncdf=False, nfree=r.randint(1, 4), nfixed=r.randint(0, 1))
            free_used = [b for b in sorted(_betas_in(s['ast'], s['shared'])) if s['betas'][b][1] == 0]
            if not free_used:
                continue
            if 'belongs' in exprs.ops_in(s['ast'], s['shared']):
                continue  # the engine refuses to differentiate BelongsTo: no derivative to aggregate
            pt = _point(r, s['betas'])
            bv = {k: v[0] for k, v in s['betas'].items()}
            bv.update(pt)
            if not evalast.judge(s['ast'], s['data'], bv, s['shared'])['ok']:
                continue
            if not evalast.judge(s['ast'], s['data'], {k: v[0] for k, v in s['betas'].items()}, s['shared'])['ok']:
                continue
            data = dict(s['data'])
            wk, wast = _weight(r, n, data)
            spec = {'kind': 'random', 'ast': s['ast'], 'shared': s['shared'], 'data': data, 'betas': s['betas'],
                    'point': pt, 'weight_kind': wk, 'weight_ast': wast, 'panel': None}
            break
        if spec is None:
            kind = 'logit'
    if kind == 'logit':
        utils, avs, ch, data, betas = _logit_parts(r, n)
        wk, wast = _weight(r, n, data)
        ast = ['loglogit', utils, avs, ch, 'log']
        spec = {'kind': 'logit', 'ast': ast, 'shared': [], 'data': data, 'betas': betas, 'point': _point(r, betas),
                'weight_kind': wk, 'weight_ast': wast, 'panel': None}
    if kind == 'panel':
        # n = number of individuals here; rows per individual 1..5. Database.build_panel_map (run at every
        # evaluation) costs ~1 ms per individual, hence the cap.
        n = min(n, 90)
        sizes = [r.randint(1, 5) for _ in range(n)]
        if sum(sizes) > 900:
            sizes = [1 + (s % 2) for s in sizes]
        nrow = sum(sizes)
        utils, avs, ch, data, betas = _logit_parts(r, nrow)
        ids = r.sample(range(3, 3 + 4 * n + 5), n)  # distinct, not ascending
        col = []
        for ind, s in zip(ids, sizes):
            col += [float(ind)] * s
        data['ID'] = col
        wk, wast = _weight(r, nrow, data, allow_data=False)
        ast = ['log', ['panel', ['loglogit', utils, avs, ch, 'prob']]]
        spec = {'kind': 'panel', 'ast': ast, 'shared': [], 'data': data, 'betas': betas, 'point': _point(r, betas),
                'weight_kind': wk, 'weight_ast': wast, 'panel': 'ID'}
    spec['data'] = _shuffle_columns(r, spec['data'])
    spec['ll_key'] = r.choice(['log_like', 'log_like', 'loglike'])
    spec['w_key'] = r.choice(['weight', 'weight', 'weights'])
    spec['bare'] = spec['weight_ast'] is None and r.random() < 0.5  # formula passed bare instead of in a dict
    return spec


def _betas_in(node, shared, acc=None, seen=None):
    acc = set() if acc is None else acc
    seen = set() if seen is None else seen
    if isinstance(node, list):
        if node and node[0] == 'beta':
            acc.add(node[1])
        elif node and node[0] == 'linutil':
            for b, _ in node[1]:
                acc.add(b)
        elif node and node[0] == 'share':
            if node[1] not in seen:
                seen.add(node[1])
                _betas_in(shared[node[1]], shared, acc, seen)
        else:
            for x in node:
                _betas_in(x, shared, acc, seen)
    return acc


def units(spec):
    """Observation units: list of row-index lists (one row each for cross-section, the rows of one
    individual for panel) in the order in which biogeme reports them (panel: ascending id)."""
    n = len(next(iter(spec['data'].values())))
    if not spec['panel']:
        return [[i] for i in range(n)]
    col = spec['data'][spec['panel']]
    groups = {}
    for i, v in enumerate(col):
        groups.setdefault(v, []).append(i)
    return [groups[k] for k in sorted(groups)]


def subset(spec, unit_order):
    """New spec holding the given observation units (list of row-index lists) in that order."""
    rows = [i for u in unit_order for i in u]
    s = dict(spec)
    s['data'] = {c: [v[i] for i in rows] for c, v in spec['data'].items()}
    return s


def thread_counts(r: random.Random, n_units: int, k: int):
    base = [1, 2, 3, 5, 7, 8, 16, n_units - 1, n_units, n_units + 1, 4 * n_units, 64]
    base = sorted({t for t in base if t >= 1})
    if len(base) <= k:
        return base
    must = [t for t in (1, n_units + 1) if t in base]
    rest = [t for t in base if t not in must]
    r.shuffle(rest)
    return sorted(must + rest[:max(0, k - len(must))])
