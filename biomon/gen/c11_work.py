"""C11 workload: requested sizes and the uniform inputs of the quantile sweep.

Everything is regenerated from (seed, index) inside the worker.
"""
from __future__ import annotations

import random

import numpy as np

GRID_N = [1, 2, 7, 50]
GRID_R = [2, 4, 10, 100, 1000]

CHUNK = 10000
# kinds of quantile chunks; every kind is a pure function of (seed, j)
Q_KINDS = ['special', 'low_log', 'high_log', 'branch_central_lo', 'branch_central_hi', 'branch_code_045',
           'branch_tail_split_hi', 'branch_tail_split_lo', 'around_half', 'random', 'grid']

N_RANDOM_SIZES = {'quick': 400, 'thorough': 2500}
N_Q_CHUNKS = {'quick': 132, 'thorough': 1100}  # x CHUNK uniforms
N_DB = {'quick': 96, 'thorough': 800}


def size_cases(seed: int, tier: str) -> list[dict]:
    out = []
    for n in GRID_N:
        for r in GRID_R:
            out.append({'mode': 'types', 'n': n, 'R': r, 'rng': 1000 * seed + len(out), 'grid': True})
    rr = random.Random(seed * 7919 + 11)
    big = tier == 'thorough'
    for i in range(N_RANDOM_SIZES[tier]):
        c = rr.random()
        if c < 0.25:  # odd / tiny numbers of draws (non-antithetic types only take the odd ones)
            n, r = rr.randint(1, 12), rr.choice([1, 3, 5, 7, 9, 11, 13, 2, 6])
        elif c < 0.8:
            n, r = rr.randint(1, 80), 2 * rr.randint(1, 150)
        else:
            n, r = rr.randint(1, 300 if big else 120), 2 * rr.randint(50, 1500 if big else 1000)
        out.append({'mode': 'types', 'n': n, 'R': r, 'rng': 1000 * seed + 500 + i, 'grid': False})
    return out


def quantile_cases(seed: int, tier: str) -> list[dict]:
    out = []
    for j in range(N_Q_CHUNKS[tier]):
        out.append({'mode': 'quantile', 'kind': Q_KINDS[j % len(Q_KINDS)], 'seed': seed, 'j': j})
    return out


def db_cases(seed: int, tier: str) -> list[dict]:
    return [{'mode': 'database', 'seed': seed, 'j': j} for j in range(N_DB[tier])]


def _around(center: float, rs: np.random.RandomState, m: int) -> np.ndarray:
    """dense around a branch point: the neighbouring floats, then log-spaced distances up to 1e-2 relative."""
    a = [center]
    lo = hi = center
    for _ in range(200):
        lo = np.nextafter(lo, -np.inf)
        hi = np.nextafter(hi, np.inf)
        a += [lo, hi]
    k = (m - len(a)) // 3
    d = 10.0 ** rs.uniform(-16, -2, size=k)
    rest = m - len(a) - 2 * k
    return np.concatenate([np.array(a), center - d * center, center + d * center, center + rs.uniform(-1, 1, size=rest) * 1e-3 * center])


def quantile_inputs(case: dict) -> np.ndarray:
    kind, seed, j = case['kind'], case['seed'], case['j']
    rs = np.random.RandomState((seed * 100003 + j * 17 + 5) % (2**31))
    m = CHUNK
    tiny = np.finfo(float).tiny
    if kind == 'special':
        base = [0.5, 0.075, 0.925, 0.45, 0.55, 0.425, 0.575, 1e-300, 1e-200, 1e-100, 1e-16, 1e-10, 0.25, 0.75,
                np.exp(-25.0), 1 - np.exp(-25.0), 1 - 2.0**-53, 2.0**-53, tiny, 5e-324, 0.1, 0.9, 0.001, 0.999]
        u = np.concatenate([np.array(base), 2.0 ** -rs.randint(1, 1000, size=2000), 1 - 2.0 ** -rs.randint(1, 54, size=2000).astype(float),
                            rs.randint(1, 1000, size=m) / 1000.0])
    elif kind == 'low_log':
        u = 10.0 ** rs.uniform(-300, np.log10(0.5), size=m)
    elif kind == 'high_log':
        u = 1.0 - 10.0 ** rs.uniform(-15.95, np.log10(0.5), size=m)
    elif kind == 'branch_central_lo':
        u = _around(0.5 - 0.425, rs, m)
    elif kind == 'branch_central_hi':
        u = _around(0.5 + 0.425, rs, m)
    elif kind == 'branch_code_045':
        u = _around(0.45, rs, m) if j % 2 == 0 else _around(0.55, rs, m)
    elif kind == 'branch_tail_split_hi':
        u = 1.0 - _around(float(np.exp(-25.0)), rs, m)
    elif kind == 'branch_tail_split_lo':
        u = _around(float(np.exp(-25.0)), rs, m)
    elif kind == 'around_half':
        u = 0.5 + np.concatenate([[0.0], rs.choice([-1.0, 1.0], size=m - 1) * 10.0 ** rs.uniform(-17, -0.4, size=m - 1)])
    elif kind == 'grid':
        u = (np.arange(m) + 0.5 + (j // len(Q_KINDS)) * 0.01) / m
    else:
        u = rs.uniform(size=m)
    u = np.asarray(u, dtype=float)
    u = u[(u > 0.0) & (u < 1.0)]
    return u


def region(u: np.ndarray) -> np.ndarray:
    """AS241 region of each input (Wichura 1988): 0 central |u-1/2|<=0.425, 1 tail with sqrt(-log p)<=5, 2 far tail."""
    u = np.asarray(u, dtype=float)
    q = u - 0.5
    p = np.where(q < 0, u, 1.0 - u)
    with np.errstate(all='ignore'):
        r = np.sqrt(-np.log(p))
    reg = np.where(np.abs(q) <= 0.425, 0, np.where(r <= 5.0, 1, 2))
    return reg


# --------------------------------------------------------------------------
# request histories (one process, many requests)
# --------------------------------------------------------------------------
N_HISTORY = {'quick': 240, 'thorough': 3000}
H_FAMILIES = ['UNIFORM', 'UNIFORMSYM', 'NORMAL']
H_SUFFIXES = ['', '_ANTI', '_HALTON2', '_HALTON3', '_HALTON5', '_MLHS', '_MLHS_ANTI']


def history_cases(seed: int, tier: str) -> list[dict]:
    return [{'mode': 'history', 'seed': seed, 'j': j} for j in range(N_HISTORY[tier])]


def history_plan(case: dict, names: list[str]):
    """-> (sizes, steps). sizes: list of (n, R) (R even: every entry accepts it). steps: requests made one after the
    other in ONE process: {'op': 'gen', 'type', 'size', 'poison'} = catalogue generator called directly,
    {'op': 'db', 'types', 'size', 'poison'} = Database.generate_draws on the (kept) database of that size.
    'poison': the client overwrites the array it received with NaN afterwards. Triples (type, n, R) repeat on purpose,
    related entries (NORMAL_x / UNIFORM_x / UNIFORMSYM_x) are requested with the same sizes in random order."""
    rr = random.Random(case['seed'] * 15485863 + case['j'] * 7 + 3)
    sizes = []
    for _ in range(rr.choice([1, 1, 2, 3])):
        n = rr.randint(1, 12) if rr.random() < 0.8 else rr.randint(13, 40)
        r = 2 * rr.randint(1, 20) if rr.random() < 0.8 else 2 * rr.randint(21, 60)
        if (n, r) not in sizes:
            sizes.append((n, r))
    steps = []

    def gen(t, si=None):
        return {'op': 'gen', 'type': t, 'size': rr.randrange(len(sizes)) if si is None else si, 'poison': rr.random() < 0.3}

    def db(pool):
        k = rr.randint(1, 4)
        return {'op': 'db', 'types': [rr.choice(pool) for _ in range(k)], 'size': rr.randrange(len(sizes)), 'poison': rr.random() < 0.2}

    if case['j'] % 3 == 0:
        # the whole catalogue, random order, one size; then repeats and tables
        order = list(names)
        rr.shuffle(order)
        steps = [gen(t, 0) for t in order]
        for _ in range(rr.randint(3, 6)):
            steps.append(gen(rr.choice(order), 0) if rr.random() < 0.7 else db(order))
            steps[-1]['size'] = 0
    else:
        groups = rr.sample(H_SUFFIXES, rr.choice([1, 1, 2]))
        related = [f + s for s in groups for f in H_FAMILIES if f + s in names]
        length = rr.randint(5, 27)
        while len(steps) < length:
            c = rr.random()
            if c < 0.15 and steps:
                prev = rr.choice([s for s in steps if s['poison']] or steps)
                steps.append(dict(prev, poison=rr.random() < 0.3))
            elif c < 0.30:
                steps.append(db(related if rr.random() < 0.7 else names))
            elif c < 0.82:
                steps.append(gen(rr.choice(related)))
            else:
                steps.append(gen(rr.choice(names)))
    # a poisoned array must be followed by the identical request
    added = 0
    for i, s in enumerate(list(steps)):
        if s['op'] == 'gen' and s['poison'] and added < 3:
            if not any(t['op'] == 'gen' and t['type'] == s['type'] and t['size'] == s['size'] for t in steps[i + 1:]):
                steps.append(dict(s, poison=False))
                added += 1
    return sizes, steps
