"""C03 workload, second family: histories on SHARED expression objects.

A *world* owns one Beta object per parameter name, one Variable per column and a
pool of sub-expressions / formulas built from them; every AST (evalast format) is
built into a biogeme object exactly once (memo keyed by the AST), so that using
the same AST in two BIOGEME models means using the very same Python objects.

A history is a seeded list of steps over that world:
  build       a new BIOGEME model from a dict of pool formulas (2-3 models per history,
              sets of names chosen so that shared parameters get other positions)
  eval        stand-alone evaluation of a shared formula / sub-expression / single Beta
              with get_value_c(prepare_ids=True), with or without betas=
  chinit      change_init_values(partial, free names) on a shared object or through a model
  fix         fix_betas({name: value}) on a shared object (models holding that parameter as
              free are a different specification from then on: retired)
  corr        NestsForNestedLogit.correlation() with a shared Beta as nest parameter
The check (biomon/checks/c03.py) judges the live models after every step.
"""
from __future__ import annotations

import json
import random

import numpy as np

from .. import env  # noqa: F401
from .c03_models import NAME_POOLS, _distinct_values


class World:
    def __init__(self, seed: int, i: int):
        r = random.Random(f'c03hist-{seed}-{i}')
        self.r = r
        pools = r.sample(NAME_POOLS, 2)
        cand = list(dict.fromkeys(pools[0] + pools[1]))
        r.shuffle(cand)
        self.K = r.randint(4, 7)
        self.names = cand[:self.K]
        vals = _distinct_values(r, self.K, -0.9, 0.9)
        self.status = {n: 0 for n in self.names}
        for n in r.sample(self.names, r.choice([0, 1, 1, 2])):
            self.status[n] = 1
        if all(self.status.values()):
            self.status[self.names[0]] = 0
        self.init = dict(zip(self.names, vals))
        nrows = r.randint(3, 7)
        nrng = np.random.default_rng([seed & 0xFFFFFFFF, i, 4242])
        self.cols = [f'{c}{k}' for k, c in enumerate(r.sample(['x', 'Z', 'inc', 'tt', 'Cost', 'q_', 'w', 'A'], 5))]
        self.data = {c: [round(float(v), 3) for v in nrng.normal(0, 1, nrows)] for c in self.cols}
        self.choice = 'chosen'
        self.data[self.choice] = [float(v) for v in nrng.integers(1, 3, nrows)]
        # one term per parameter (shared object), a few utilities, a few formulas
        self.term = {n: ['mul', ['beta', n], ['var', r.choice(self.cols)]] for n in self.names}
        self.pool = {}
        k = 0
        names = self.names[:]
        # formulas over overlapping subsets of the names, so that models number shared names differently
        for _ in range(r.randint(4, 6)):
            sub = r.sample(names, r.randint(1, min(3, len(names))))
            if len(sub) == 1 and r.random() < 0.4:
                ast = self.term[sub[0]] if r.random() < 0.6 else ['beta', sub[0]]
            else:
                node = self.term[sub[0]]
                for n in sub[1:]:
                    node = ['add', node, self.term[n]]
                ast = node if r.random() < 0.7 else ['exp', ['mul', ['num', 0.25], node]]
            self.pool[f'F{k}'] = ast
            k += 1
        # a log likelihood sharing two pool utilities
        keys = [kk for kk, a in self.pool.items() if a[0] != 'beta']
        if len(keys) >= 2:
            a, b = r.sample(keys, 2)
            self.loglike = ['loglogit', [[1, self.pool[a]], [2, self.pool[b]]], None, ['var', self.choice], 'log']
        else:
            base = self.pool[keys[0]] if keys else self.term[self.names[0]]
            self.loglike = ['neg', ['mul', ['sub', ['var', self.cols[0]], base], ['sub', ['var', self.cols[0]], base]]]
        self.memo = {}
        self.beta_obj = {}

    # -- AST -> shared biogeme objects -------------------------------------------------
    def obj(self, ast):
        import biogeme.expressions as ex
        from biogeme import models

        key = json.dumps(ast)
        if key in self.memo:
            return self.memo[key]
        op = ast[0]
        if op == 'beta':
            n = ast[1]
            if n not in self.beta_obj:
                self.beta_obj[n] = ex.Beta(n, self.init[n], None, None, self.status[n])
            o = self.beta_obj[n]
        elif op == 'var':
            o = ex.Variable(ast[1])
        elif op == 'num':
            o = ex.Numeric(ast[1])
        elif op == 'add':
            o = self.obj(ast[1]) + self.obj(ast[2])
        elif op == 'sub':
            o = self.obj(ast[1]) - self.obj(ast[2])
        elif op == 'mul':
            o = self.obj(ast[1]) * self.obj(ast[2])
        elif op == 'neg':
            o = -self.obj(ast[1])
        elif op == 'exp':
            o = ex.exp(self.obj(ast[1]))
        elif op == 'loglogit':
            util = {int(k): self.obj(a) for k, a in ast[1]}
            o = models.loglogit(util, None, self.obj(ast[3]))
        else:
            raise ValueError(op)
        self.memo[key] = o
        return o

    def database(self, name='hist'):
        import pandas as pd
        import biogeme.database as db

        return db.Database(name, pd.DataFrame({k: list(v) for k, v in self.data.items()}))


def names_in(ast, acc=None):
    acc = [] if acc is None else acc
    if isinstance(ast, list):
        if ast and ast[0] == 'beta':
            if ast[1] not in acc:
                acc.append(ast[1])
            return acc
        for x in ast:
            names_in(x, acc)
    return acc


def has_var(ast):
    if isinstance(ast, list):
        if ast and ast[0] == 'var':
            return True
        return any(has_var(x) for x in ast if isinstance(x, list))
    return False


def plan(world: World, directed=None):
    """list of steps (JSON-able). directed: None | 'c03c-shape' | 'nest-shape' | 'older-model-shape'"""
    r = world.r
    keys = list(world.pool)
    steps = []

    def formulas_for_model(with_ll):
        ks = r.sample(keys, r.randint(1, min(3, len(keys))))
        f = {k: world.pool[k] for k in ks}
        if with_ll:
            items = list(f.items())
            items.insert(r.randint(0, len(items)), ('log_like', world.loglike))
            f = dict(items)
        return f

    def subexpr():
        u = r.random()
        if u < 0.3:
            return ['beta', r.choice(world.names)]
        if u < 0.55:
            return world.term[r.choice(world.names)]
        if u < 0.9:
            return world.pool[r.choice(keys)]
        return world.loglike

    if directed == 'c03c-shape':
        k0 = keys[0]
        others = [k for k in keys[1:]]
        return [
            {'op': 'build', 'forms': {k0: world.pool[k0]}, 'judge': False},
            {'op': 'eval', 'ast': world.pool[k0], 'betas': None},
            {'op': 'build', 'forms': {**{k0: world.pool[k0]}, **{k: world.pool[k] for k in others}}, 'judge': False},
            {'op': 'eval', 'ast': world.pool[k0], 'betas': None},
            {'op': 'judge-latest'},
        ]
    if directed == 'nest-shape':
        k0 = keys[0]
        mu = names_in(world.pool[k0])[0]
        return [
            {'op': 'build', 'forms': {k0: world.pool[k0], 'log_like': world.loglike}, 'judge': False},
            {'op': 'corr', 'name': mu, 'parameters': None},
            {'op': 'build', 'forms': {**{k: world.pool[k] for k in keys}, 'log_like': world.loglike}, 'judge': False},
            {'op': 'corr', 'name': mu, 'parameters': None},
            {'op': 'judge-latest'},
        ]
    if directed == 'older-model-shape':
        k0 = keys[0]
        return [
            {'op': 'build', 'forms': {k0: world.pool[k0], keys[-1]: world.pool[keys[-1]]}, 'judge': False},
            {'op': 'build', 'forms': {k: world.pool[k] for k in keys[:-1]}, 'judge': False},
            {'op': 'judge-all'},
        ]
    nbuild = 0
    fixed_done = False
    n = r.randint(7, 12)
    steps.append({'op': 'build', 'forms': formulas_for_model(r.random() < 0.5)})
    nbuild = 1
    for _ in range(n):
        u = r.random()
        if u < 0.22 and nbuild < 3:
            steps.append({'op': 'build', 'forms': formulas_for_model(r.random() < 0.5)})
            nbuild += 1
        elif u < 0.55:
            ast = subexpr()
            betas = None
            if r.random() < 0.5:
                nm = [x for x in names_in(ast)]
                betas = {x: round(r.uniform(-0.9, 0.9), 3) for x in nm if r.random() < 0.6}
                if r.random() < 0.3:
                    betas['stranger_'] = 2.5
            steps.append({'op': 'eval', 'ast': ast, 'betas': betas})
        elif u < 0.70:
            ast = subexpr()
            steps.append({'op': 'chinit', 'ast': ast, 'via_model': r.random() < 0.4,
                          'values': {x: round(r.uniform(-0.9, 0.9), 3) for x in world.names if r.random() < 0.5}})
        elif u < 0.78 and not fixed_done and nbuild < 3:
            fixed_done = True
            steps.append({'op': 'fix', 'ast': world.pool[r.choice(keys)], 'value': round(r.uniform(0.2, 0.9), 3)})
        else:
            steps.append({'op': 'corr', 'name': r.choice(world.names),
                          'parameters': None if r.random() < 0.5 else {x: round(r.uniform(0.5, 1.5), 3) for x in world.names if r.random() < 0.5}})
    if nbuild < 2:
        steps.insert(r.randint(1, len(steps)), {'op': 'build', 'forms': formulas_for_model(True)})
    return steps
