"""Seeded generator of expression-language cases (AST + data + parameters).

The AST format is the one of biomon.oracle.evalast. Types steer the
generator into the regular domain; a final oracle pass (evalast.judge) rejects
the remaining out-of-domain / ill-conditioned cases (counted by the caller).
"""
from __future__ import annotations

import random

import numpy as np

from ..oracle import evalast

# name pools chosen so that order of appearance != alphabetical order
_BETA_POOL = ['zeta', 'B_time', 'asc_9', 'Beta10', 'beta2', 'a_cost', 'mu', 'ASC_CAR', 'k1', 'Zed', '_b', 'b_0', 'omega_x']
_VAR_POOL = ['x_time', 'Cost', 'a1', 'Z', 'dist_km', 'INC', 'v2', 'v10', 'b', '_w', 'Age', 'y']


class Space:
    """The data/parameter context a tree is generated in."""

    def __init__(self, rng: random.Random, nrows=None, nreal=None, npos=None, nkey=None, nav=None,
                 nfree=None, nfixed=None):
        self.rng = rng
        r = rng
        self.n = nrows if nrows is not None else r.randint(1, 8)
        names = _VAR_POOL[:]
        r.shuffle(names)
        nreal = r.randint(1, 3) if nreal is None else nreal
        npos = r.randint(1, 2) if npos is None else npos
        nkey = r.randint(1, 2) if nkey is None else nkey
        nav = r.randint(1, 3) if nav is None else nav
        self.real = [names.pop() for _ in range(nreal)]
        self.pos = [names.pop() for _ in range(npos)]
        self.key = [names.pop() for _ in range(nkey)]
        self.av = [names.pop() for _ in range(nav)]
        self.data = {}
        self.keysets = {}
        for c in self.real:
            self.data[c] = [round(r.uniform(-2, 2), 3) for _ in range(self.n)]
        for c in self.pos:
            self.data[c] = [round(r.uniform(0.2, 3), 3) for _ in range(self.n)]
        for c in self.key:
            ks = r.choice([[1, 2, 3], [0, 1], [-3, 0, 7, 12], [2, 5], [10, 20, 30, 40]])
            self.keysets[c] = ks
            self.data[c] = [float(r.choice(ks)) for _ in range(self.n)]
        for c in self.av:
            self.data[c] = [float(r.random() < 0.7) for _ in range(self.n)]
        # column order in the frame is shuffled too
        cols = list(self.data)
        r.shuffle(cols)
        self.data = {c: self.data[c] for c in cols}
        bn = _BETA_POOL[:]
        r.shuffle(bn)
        nfree = r.randint(1, 4) if nfree is None else nfree
        nfixed = r.randint(0, 2) if nfixed is None else nfixed
        self.free = [bn.pop() for _ in range(nfree)]
        self.fixed = [bn.pop() for _ in range(nfixed)]
        self.betas = {}
        used = set()

        def val():
            while True:
                v = round(r.uniform(-1.5, 1.5), 3)
                if v != 0 and v not in used:  # distinct values: an index mix-up must be visible
                    used.add(v)
                    return v

        for b in self.free:
            self.betas[b] = [val(), 0]
        for b in self.fixed:
            self.betas[b] = [val(), 1]

    def beta_values(self):
        return {k: v[0] for k, v in self.betas.items()}


class Gen:
    def __init__(self, rng: random.Random, sp: Space, max_depth=5, max_nodes=60, differentiable=False,
                 allow_ncdf=True, allow_logit=True, share_prob=1 / 3, wide=False):
        self.r = rng
        self.sp = sp
        self.max_depth = max_depth
        self.max_nodes = max_nodes
        self.nodes = 0
        self.diff = differentiable  # no parameter under comparisons/min/max/keys/conditions
        self.allow_ncdf = allow_ncdf
        self.allow_logit = allow_logit
        self.shared = []
        self.share_prob = share_prob
        self.ops_used = []
        # wide: shapes added after independent seeded changes / deviations were reported (opt-in so that the streams of
        # the other checks using this generator do not move): truth values that are not 0/1 under and/or, one condition
        # OBJECT shared by several ConditionalSum terms, BelongsTo sets with non-integer / large / boolean members
        self.wide = wide

    # tiny positive literals: exact positive arguments of log / logzero (boundary of the regular domain)
    TINY = [1e-9, 1e-12, 3e-8, 1.4e-8, 1e-7, 1e-300]  # (a subnormal literal makes the engine's std::stod raise: not generated)

    def truth(self, d, data_only=False):
        """operand of and/or: any real is a truth value (non-zero = true)"""
        if self.wide and self.r.random() < 0.4:
            return self.real(d, True if self.diff else data_only)
        return self.boolean(d, data_only)

    # ---- leaves ------------------------------------------------------------
    def leaf_real(self, data_only=False):
        r = self.r
        self.nodes += 1
        c = r.random()
        if c < 0.35 and not data_only and self.sp.betas:
            return ['beta', r.choice(list(self.sp.betas))]
        if c < 0.75:
            return ['var', r.choice(self.sp.real + self.sp.pos)]
        if c < 0.8:
            return ['bool', r.random() < 0.5]
        v = r.choice([0.5, 1.0, 2.0, -1.0, 3.0, -0.25, 1.5, 0.1, round(r.uniform(-3, 3), 2) or 1.0])
        return ['num', v, 'raw'] if r.random() < 0.5 else ['num', v]

    def leaf_pos(self, data_only=False):
        r = self.r
        self.nodes += 1
        if r.random() < 0.6:
            return ['var', r.choice(self.sp.pos)]
        return ['num', r.choice([0.5, 1.0, 2.0, 1.5, 0.3])]

    # ---- typed generation -----------------------------------------------------
    def real(self, d, data_only=False, force=None):
        r = self.r
        if force is None and (d <= 0 or self.nodes >= self.max_nodes):
            return self.leaf_real(data_only)
        if force is None and self.shared and r.random() < self.share_prob * 0.5:
            i = r.randrange(len(self.shared))
            if not (data_only and self._has_beta(self.shared[i])):
                return ['share', i]
        ops = ['add', 'sub', 'mul', 'div', 'neg', 'exp', 'log', 'logzero', 'sin', 'cos', 'powc', 'pow',
               'multsum', 'elem', 'condsum', 'linutil', 'leaf', 'leaf']
        if self.allow_ncdf:
            ops.append('ncdf')
        if self.allow_logit:
            ops += ['loglogit']
        if not (self.diff and not data_only):
            ops += ['min', 'max', 'cmp', 'logic', 'belongs']
        else:
            ops += ['cmp_data', 'min_data']
        if data_only:
            ops = [o for o in ops if o not in ('linutil',)]
        op = force or r.choice(ops)
        self.nodes += 1
        self.ops_used.append(op)
        D = d - 1
        R = lambda: self.real(D, data_only)
        if op == 'leaf':
            return self.leaf_real(data_only)
        if op in ('add', 'sub', 'mul'):
            node = [op, R(), R()]
        elif op == 'div':
            node = ['div', R(), self.pos(D, data_only)]
        elif op in ('neg', 'sin', 'cos', 'ncdf'):
            node = [op, R()]
        elif op == 'exp':
            node = ['exp', self.small(D, data_only)]
        elif op == 'log':
            node = ['log', self.pos(D, data_only)]
            if self.wide and r.random() < 0.15:
                node = ['log', ['num', r.choice(self.TINY)]]
        elif op == 'logzero':
            node = ['logzero', self.pos(D, data_only) if r.random() < 0.7 else ['num', 0.0]]
            if self.wide and r.random() < 0.3:
                node = ['logzero', ['num', r.choice(self.TINY)]]
        elif op == 'powc':
            c = r.choice([2, 3, -1, -2, 0.5, 1.5, 2.5, -0.5, 0, 1, 4])
            base = self.pos(D, data_only) if (c != int(c) or c < 0) else R()
            node = ['powc', base, c]
        elif op == 'pow':
            node = ['pow', self.pos(D, data_only), self.small(D, data_only)]
        elif op in ('min', 'max'):
            node = [op, R(), R()]
        elif op == 'min_data':
            node = [r.choice(['min', 'max']), self.real(D, True), self.real(D, True)]
        elif op == 'cmp':
            node = self.boolean(D, data_only)
        elif op == 'cmp_data':
            node = self.boolean(D, True)
        elif op == 'logic':
            node = [r.choice(['and', 'or']), self.truth(D, data_only), self.truth(D, data_only)]
        elif op == 'belongs':
            kc = r.choice(self.sp.key)
            ks = self.sp.keysets[kc]
            sub = r.sample(ks, r.randint(1, len(ks)))
            if r.random() < 0.3:
                sub = sub + [99]
            node = ['belongs', ['var', kc], sub]
            if self.wide and r.random() < 0.45:
                style = r.choice(['fraction', 'large', 'bool'])
                if style == 'fraction':
                    # members that are values of a real column (three decimals: not representable in single precision)
                    col = r.choice(self.sp.real + self.sp.pos)
                    vals = sorted(set(self.sp.data[col]))
                    node = ['belongs', ['var', col], r.sample(vals, min(len(vals), r.randint(1, 3))) + [0.1]]
                elif style == 'large':
                    off = r.choice([16777216, 20230100, 2 ** 31])
                    node = ['belongs', ['add', ['var', kc], ['num', float(off)]], [off + k for k in sub]]
                else:
                    node = ['belongs', ['var', r.choice(self.sp.av)], r.choice([[True], [False], [True, 5], [False, True]])]
        elif op == 'multsum':
            k = r.randint(1, 4)
            node = ['multsum', [R() for _ in range(k)], r.choice(['list', 'dict'])]
        elif op == 'elem':
            node = self.elem(D, data_only)
        elif op == 'condsum':
            k = r.randint(1, 3)
            node = ['condsum', [[self.boolean(D, True if self.diff else data_only), R()] for _ in range(k)]]
            if self.wide and r.random() < 0.4:
                # one condition OBJECT governing several terms (written `c = x > 0` once and used twice)
                while len(node[1]) < 2:
                    node[1].append([None, R()])
                self.shared.append(node[1][0][0])
                ref = ['share', len(self.shared) - 1]
                node[1][0][0] = ref
                for t in node[1][1:]:
                    if t[0] is None or r.random() < 0.7:
                        t[0] = ref
                r.shuffle(node[1])
        elif op == 'linutil':
            k = r.randint(1, 3)
            node = ['linutil', [[r.choice(list(self.sp.betas)), r.choice(self.sp.real + self.sp.pos)]
                                for _ in range(k)]]
        elif op == 'loglogit':
            node = self.loglogit(D, data_only)
        else:
            raise ValueError(op)
        # sharing: remember some sub-trees for reuse under other parents
        if r.random() < self.share_prob and len(self.shared) < 4 and d < self.max_depth:
            self.shared.append(node)
            return ['share', len(self.shared) - 1]
        return node

    def _has_beta(self, node):
        if not isinstance(node, list):
            return False
        if node and node[0] in ('beta', 'linutil'):
            return True
        if node and node[0] == 'share':
            return self._has_beta(self.shared[node[1]])
        return any(self._has_beta(x) for x in node if isinstance(x, list))

    def small(self, d, data_only=False):
        """real of moderate size (argument of exp / exponent)"""
        r = self.r
        if d <= 0 or r.random() < 0.4:
            return self.leaf_real(data_only)
        c = r.random()
        if c < 0.4:
            return ['mul', self.leaf_real(data_only), self.leaf_real(data_only)]
        if c < 0.7:
            return [r.choice(['add', 'sub']), self.leaf_real(data_only), self.leaf_real(data_only)]
        if c < 0.85:
            return [r.choice(['sin', 'cos']), self.real(d - 1, data_only)]
        return ['neg', self.leaf_real(data_only)]

    def pos(self, d, data_only=False):
        """strictly positive valued expression"""
        r = self.r
        if d <= 0 or self.nodes >= self.max_nodes or r.random() < 0.3:
            return self.leaf_pos(data_only)
        self.nodes += 1
        c = r.random()
        if c < 0.3:
            return ['exp', self.small(d - 1, data_only)]
        if c < 0.5:
            return ['add', self.pos(d - 1, data_only), self.pos(d - 1, data_only)]
        if c < 0.65:
            return ['mul', self.pos(d - 1, data_only), self.pos(d - 1, data_only)]
        if c < 0.8:
            return ['add', ['powc', self.real(d - 1, data_only), 2], ['num', r.choice([0.5, 1.0, 0.1])]]
        if c < 0.9:
            return ['div', self.pos(d - 1, data_only), self.pos(d - 1, data_only)]
        return ['add', ['num', 1.5], [r.choice(['sin', 'cos']), self.real(d - 1, data_only)]]

    def boolean(self, d, data_only=False):
        r = self.r
        self.nodes += 1
        c = r.random()
        if self.diff:
            data_only = True
        if c < 0.55 or d <= 0:
            op = r.choice(evalast.BIN_CMP)
            if op in ('eq', 'ne') or r.random() < 0.3:
                kc = r.choice(self.sp.key)
                rhs = ['num', float(r.choice(self.sp.keysets[kc] + [99]))]
                if r.random() < 0.5:
                    rhs = rhs + ['raw']
                return [op, ['var', kc], rhs]
            return [op, self.real(d - 1, data_only), self.real(d - 1, data_only)]
        if c < 0.7:
            return ['var', r.choice(self.sp.av)]
        if c < 0.85:
            return [r.choice(['and', 'or']), self.truth(d - 1, data_only), self.truth(d - 1, data_only)]
        return ['belongs', ['var', r.choice(self.sp.key)], r.sample([0, 1, 2, 3, 5, 7, 10, 20], 3)]

    def elem(self, d, data_only=False):
        r = self.r
        if r.random() < 0.6:
            kc = r.choice(self.sp.key)
            keys = list(self.sp.keysets[kc])
            key = ['var', kc]
            if r.random() < 0.3:
                extra = r.choice([55, -9, 100])
                keys.append(extra)
        else:
            key = self.boolean(d, True)
            keys = [0, 1]
        r.shuffle(keys)
        return ['elem', key, [[k, self.real(d, data_only)] for k in keys]]

    def loglogit(self, d, data_only=False):
        r = self.r
        kc = r.choice(self.sp.key)
        alts = list(self.sp.keysets[kc])
        if r.random() < 0.3:
            alts.append(r.choice([77, -5]))
        r.shuffle(alts)
        utils = [[k, self.small(d, data_only) if r.random() < 0.5 else self.real(min(d, 2), data_only)] for k in alts]
        mode = r.random()
        if mode < 0.35:
            avs = None
        else:
            avs = []
            for k in alts:
                # the chosen alternative must be available on each row: availability
                # = (choice == k) OR something
                base = ['var', r.choice(self.sp.av)] if r.random() < 0.7 else ['num', float(r.random() < 0.8)]
                avs.append([k, ['or', ['eq', ['var', kc], ['num', float(k)]], base]])
        choice = ['var', kc]
        if r.random() < 0.2:
            choice = ['num', float(r.choice(self.sp.keysets[kc]))]
        if avs is not None and r.random() < 0.6:
            # the availability dictionary need not list the alternatives in the order of the utilities
            r.shuffle(avs)
        return ['loglogit', utils, avs, choice, r.choice(['log', 'prob'])]


def make_case(seed: int, index: int, differentiable=False, force=None, max_depth=None, **kw) -> dict:
    """One reproducible case. Returns spec dict (JSON-able)."""
    rng = random.Random(f'{seed}/{index}/{differentiable}/{force}')
    sp = Space(rng, **{k: v for k, v in kw.items() if k in ('nrows', 'nfree', 'nfixed')})
    g = Gen(rng, sp, max_depth=max_depth or rng.randint(2, 6), differentiable=differentiable,
            allow_ncdf=kw.get('allow_ncdf', True), allow_logit=kw.get('allow_logit', True), wide=kw.get('wide', False))
    if force:
        parent, slot, child = force
        ast = forced_tree(g, parent, slot, child)
    else:
        ast = g.real(g.max_depth)
    extra = []
    for _ in range(kw.get('extra', 0)):
        g.nodes = 0
        extra.append(g.real(rng.randint(1, 4)))
    return {
        'ast': ast,
        'extra_asts': extra,
        'shared': g.shared,
        'data': sp.data,
        'betas': sp.betas,
        'ops': sorted(set(g.ops_used)),
    }


# ---- position sweep ---------------------------------------------------------------
PARENT_SLOTS = {
    'add': 2, 'sub': 2, 'mul': 2, 'div': 2, 'pow': 2, 'min': 2, 'max': 2, 'and': 2, 'or': 2,
    'eq': 2, 'le': 2, 'gt': 2, 'neg': 1, 'exp': 1, 'log': 1, 'logzero': 1, 'sin': 1, 'cos': 1, 'ncdf': 1,
    'powc': 1, 'belongs': 1, 'multsum': 3, 'elem_key': 1, 'elem_entry': 2, 'condsum_cond': 2, 'condsum_term': 2,
    'logit_util': 2, 'logit_av': 2, 'logit_choice': 1,
}
CHILD_KINDS = ['num', 'beta', 'var', 'add', 'mul', 'div', 'neg', 'exp', 'log', 'sin', 'powc', 'pow', 'min', 'max',
               'cmp', 'logic', 'belongs', 'multsum', 'elem', 'condsum', 'linutil', 'loglogit', 'ncdf', 'logzero']


def _child(g: Gen, kind):
    if kind == 'num':
        return ['num', 1.25]
    if kind == 'beta':
        return ['beta', g.r.choice(list(g.sp.betas))]
    if kind == 'var':
        return ['var', g.r.choice(g.sp.pos)]
    return g.real(2, force=kind)


def forced_tree(g: Gen, parent, slot, child_kind):
    """parent operator with a child of the given kind in the given slot.
    The child is wrapped so that it satisfies the slot's type (positivity via
    exp(sin(.)), integrality is not imposed: key/choice slots wrap differently)."""
    r = g.r
    c = _child(g, child_kind)
    posc = ['exp', ['sin', c]]  # positive, moderate
    smallc = ['sin', c]
    other = lambda: g.real(1)
    if parent in ('add', 'sub', 'mul', 'min', 'max'):
        ch = [other(), other()]
        ch[slot] = c
        return [parent] + ch
    if parent == 'div':
        return ['div', c, g.pos(1)] if slot == 0 else ['div', other(), posc]
    if parent == 'pow':
        return ['pow', posc, g.small(1)] if slot == 0 else ['pow', g.pos(1), smallc]
    if parent in ('and', 'or'):
        ch = [g.boolean(1), g.boolean(1)]
        ch[slot] = ['gt', c, ['num', 0.3]]
        return [parent] + ch
    if parent in ('eq', 'le', 'gt'):
        ch = [other(), other()]
        ch[slot] = c
        return [parent] + ch
    if parent in ('neg', 'sin', 'cos', 'ncdf'):
        return [parent, c]
    if parent == 'exp':
        return ['exp', smallc]
    if parent in ('log', 'logzero'):
        return [parent, posc]
    if parent == 'powc':
        return ['powc', posc, r.choice([2, 0.5, -1, 3, 1.5])]
    if parent == 'belongs':
        return ['belongs', ['mul', ['gt', c, ['num', 0.3]], ['num', 2.0]], [2, 7]]
    if parent == 'multsum':
        ch = [other(), other(), other()]
        ch[slot] = c
        return ['multsum', ch, r.choice(['list', 'dict'])]
    if parent == 'elem_key':
        return ['elem', ['gt', c, ['num', 0.3]], [[0, other()], [1, other()]]]
    if parent == 'elem_entry':
        kc = r.choice(g.sp.key)
        keys = list(g.sp.keysets[kc])
        ent = [[k, other()] for k in keys]
        ent[slot % len(ent)][1] = c
        return ['elem', ['var', kc], ent]
    if parent == 'condsum_cond':
        t = [[g.boolean(1), other()], [g.boolean(1), other()]]
        t[slot][0] = ['gt', c, ['num', 0.3]]
        return ['condsum', t]
    if parent == 'condsum_term':
        t = [[g.boolean(1), other()], [g.boolean(1), other()]]
        t[slot][1] = c
        return ['condsum', t]
    if parent in ('logit_util', 'logit_av', 'logit_choice'):
        node = g.loglogit(1)
        if parent == 'logit_util':
            node[1][slot % len(node[1])][1] = smallc
        elif parent == 'logit_av':
            kc = node[3][1] if node[3][0] == 'var' else None
            alts = [k for k, _ in node[1]]
            avs = []
            for i, k in enumerate(alts):
                base = ['var', r.choice(g.sp.av)]
                if i == slot % len(alts):
                    base = ['gt', c, ['num', 0.3]]
                chosen = ['eq', node[3], ['num', float(k)]]
                avs.append([k, ['or', chosen, base]])
            if r.random() < 0.6:
                r.shuffle(avs)
            node[2] = avs
        else:
            # choice computed by an expression: 0/1 valued comparison mapped onto two alternatives
            node = ['loglogit', [[0, g.small(1)], [1, g.small(1)]], None, ['gt', c, ['num', 0.3]], 'log']
        return node
    raise ValueError(parent)


def ast_size(ast, shared=None):
    if not isinstance(ast, list):
        return 0
    n = 1 if (ast and isinstance(ast[0], str)) else 0
    for x in ast[1:] if n else ast:
        if isinstance(x, list):
            n += ast_size(x, shared)
    return n


def ops_in(ast, shared, acc=None, seen=None):
    """set of operator names in a tree (through shares)."""
    acc = set() if acc is None else acc
    seen = set() if seen is None else seen
    if not isinstance(ast, list) or not ast:
        return acc
    if isinstance(ast[0], str):
        if ast[0] == 'share':
            if ast[1] not in seen:
                seen.add(ast[1])
                ops_in(shared[ast[1]], shared, acc, seen)
            return acc
        acc.add(ast[0])
        if ast[0] == 'linutil':
            return acc
        rest = ast[1:]
    else:
        rest = ast
    for x in rest:
        if isinstance(x, list):
            ops_in(x, shared, acc, seen)
    return acc


def parent_child_pairs(ast, shared, acc=None):
    """set of (parent op, child op) edges (through shares)."""
    acc = set() if acc is None else acc

    def head(n):
        while isinstance(n, list) and n and n[0] == 'share':
            n = shared[n[1]]
        return n

    def walk(n):
        n = head(n)
        if not isinstance(n, list) or not n or not isinstance(n[0], str):
            if isinstance(n, list):
                for x in n:
                    walk(x)
            return
        op = n[0]
        if op == 'linutil':
            return

        def kids(x):
            x = head(x)
            if isinstance(x, list) and x and isinstance(x[0], str):
                acc.add((op, x[0]))
                walk(x)
            elif isinstance(x, list):
                for y in x:
                    kids(y)

        for x in n[1:]:
            if isinstance(x, list):
                kids(x)

    walk(ast)
    return acc
