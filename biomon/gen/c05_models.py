"""Seeded generator of choice-model configurations (shared by C05 and C06).

A configuration is a small JSON-able dict: alternative labels, a table of rows
(utility values, availability pattern), a nested-logit structure (partition of
a subset, the rest left alone), a cross-nested structure (overlapping nests
with an allocation alpha), nest parameters and scale parameters >= 1, an
ordered model (categories, first threshold, positive increments).

``Builder`` turns a configuration into REAL biogeme objects the way a user
writes a model: Variables / Betas / plain numbers for utilities and
availabilities, nest objects or the legacy tuple syntax, Beta / float /
Numeric nest parameters.
"""
from __future__ import annotations

import math
import random

from .. import env  # noqa: F401  (sys.path)

SHIFTS = [0.5, -0.5, 7.0, -7.0, 40.0, -40.0]
EXP_ARG_LIMIT = 650.0  # |mu_m * (V + c)| stays below: exp() neither overflows nor underflows to 0


# ----------------------------------------------------------------------------
# configuration generator
# ----------------------------------------------------------------------------
def _labels(r: random.Random, J: int) -> list[int]:
    style = r.choice(['seq1', 'seq1', 'seq0', 'sparse', 'big'])
    if style == 'seq1':
        lab = list(range(1, J + 1))
    elif style == 'seq0':
        lab = list(range(0, J))
    elif style == 'sparse':
        lab = r.sample(range(0, 60), J)
    else:
        lab = r.sample(range(100, 100000), J)
    r.shuffle(lab)  # dict order != numerical order (the engine sorts by label)
    return lab


def _nest_param(r: random.Random, force_one=False) -> float:
    if force_one:
        return 1.0
    u = r.random()
    if u < 0.12:
        return 1.0
    if u < 0.55:
        return round(r.uniform(1.0, 2.5), 3)
    if u < 0.9:
        return round(r.uniform(2.5, 6.0), 3)
    return round(r.uniform(6.0, 10.0), 3)


def _kind(r: random.Random) -> str:
    return r.choice(['float', 'float', 'beta_free', 'beta_free', 'beta_fixed', 'numeric'])


def make_config(seed: int, i: int, force: dict | None = None) -> dict:
    """configuration number i of stream `seed`. `force` pins a few features
    (used for the directed cases): J, n_alone, whole_nest_row, alpha_zero ..."""
    force = force or {}
    r = random.Random(f'c05-{seed}-{i}')
    J = force.get('J') or r.choice([2, 3, 3, 4, 4, 5, 5, 6, 7])
    alts = _labels(r, J)
    if force.get('labels'):
        alts = list(force['labels'])
        J = len(alts)

    # ---- nested logit: partition of a subset, rest alone ------------------
    order = alts[:]
    r.shuffle(order)
    if 'n_alone' in force:
        n_alone = min(force['n_alone'], J - 1)
    else:
        n_alone = r.choice([0, 0, 0, 1, 1, 2]) if J > 2 else r.choice([0, 0, 1])
        n_alone = min(n_alone, J - 1)
    nested_alts = order[n_alone:]
    k = r.randint(1, min(3, len(nested_alts)))
    cuts = sorted(r.sample(range(1, len(nested_alts)), k - 1)) if k > 1 else []
    groups = [nested_alts[a:b] for a, b in zip([0] + cuts, cuts + [len(nested_alts)])]
    nl = [{'param': _nest_param(r), 'kind': _kind(r), 'alts': g} for g in groups]

    # ---- cross nested: overlapping nests, allocation alpha -----------------
    order2 = alts[:]
    r.shuffle(order2)
    if 'n_alone_cnl' in force:
        n_alone2 = min(force['n_alone_cnl'], J - 1)
    else:
        n_alone2 = r.choice([0, 0, 0, 1]) if J > 2 else 0
    members = order2[n_alone2:]
    M = r.randint(1, min(4, max(2, len(members))))
    alpha_zero = force.get('alpha_zero', r.random() < 0.12)
    alloc = {m: {} for m in range(M)}
    for a in members:
        nn = r.randint(1, M)
        ms = r.sample(range(M), nn)
        if r.random() < 0.25:
            # wholly in one nest; optionally listed in other nests with a zero allocation
            if alpha_zero and nn > 1:
                w = [1.0] + [0.0] * (nn - 1)
            else:
                ms = ms[:1]
                w = [1.0]
        else:
            raw = [r.uniform(0.05, 1.0) for _ in ms]
            if alpha_zero and nn > 1 and r.random() < 0.5:
                raw[r.randrange(1, nn)] = 0.0
            s = sum(raw)
            w = [round(x / s, 4) for x in raw]
            w[0] = round(1.0 - sum(w[1:]), 4)  # rows of alpha sum to one
            if w[0] <= 0:
                w = [1.0 / nn] * nn
        for m, x in zip(ms, w):
            alloc[m][a] = x
    # every nest needs at least one member with a positive allocation
    cnl = []
    for m in range(M):
        if any(x > 0 for x in alloc[m].values()):
            cnl.append({'param': _nest_param(r), 'kind': _kind(r), 'alpha': [[a, x] for a, x in alloc[m].items()]})
    # an alternative whose positive allocations all vanished cannot happen (w sums to one),
    # but nests dropped above may leave explicit zeros only: harmless (alpha=0 rows are in kept nests only)
    covered = {a for n in cnl for a, x in n['alpha'] if x > 0}
    for a in members:
        if a not in covered:  # pragma: no cover (defensive)
            cnl[0]['alpha'].append([a, 1.0])
    alpha_kind = r.choice(['float', 'float', 'beta_fixed', 'beta_free'])

    mu_nl = round(r.uniform(1.0, min(n['param'] for n in nl)), 3) if r.random() < 0.8 else 1.0
    mu_cnl = round(r.uniform(1.0, min(n['param'] for n in cnl)), 3) if r.random() < 0.8 else 1.0
    mu_kind = r.choice(['float', 'beta_free', 'beta_fixed', 'numeric'])

    # ---- rows ----------------------------------------------------------------
    mumax = max([n['param'] for n in nl] + [n['param'] for n in cnl])
    vband = force.get('vband') or r.choice([1.0, 3.0, 3.0, 10.0, 30.0])
    vband = min(vband, EXP_ARG_LIMIT / mumax - 7.0)
    shifts = [c for c in SHIFTS if mumax * (vband + abs(c)) <= EXP_ARG_LIMIT]
    nrows = force.get('nrows') or r.randint(3, 6)
    rows = []
    for k in range(nrows):
        V = [round(r.uniform(-vband, vband), 4) for _ in alts]
        if k == 0:
            A = [1] * J
        else:
            p = r.choice([0.5, 0.7, 0.9])
            A = [int(r.random() < p) for _ in alts]
        if k == 1 and J > 2:
            # a whole nest unavailable (nested structure), something else available
            g = r.choice(nl)['alts']
            rest = [a for a in alts if a not in g]
            if rest:
                A = [0 if a in g else A[j] for j, a in enumerate(alts)]
                if not any(A):
                    A[alts.index(r.choice(rest))] = 1
        if k == 2:
            A = [0] * J
            A[r.randrange(J)] = 1
        if not any(A):
            A[r.randrange(J)] = 1
        rows.append({'V': V, 'A': A})
    av_mode = force.get('av_mode') or r.choice(['var', 'var', 'var', 'mixed', 'mixed', 'none'])
    # how the availability dictionary shares expression OBJECTS between alternatives:
    #   fresh      one new expression per alternative
    #   group_var  ONE Variable object reused by several alternatives (of the same nest, and across nests)
    #   group_expr ONE compound expression object reused the same way
    #   one_object ONE Numeric(1) object (or plain int / bool) for all the always-available alternatives
    av_share = force.get('av_share') or r.choice(['fresh', 'fresh', 'group_var', 'group_var', 'group_expr', 'one_object'])
    if av_mode == 'none':
        av_share = 'fresh'
    if av_share == 'one_object' and av_mode == 'var':
        av_mode = 'mixed'
    av_groups = []
    if av_share in ('group_var', 'group_expr'):
        used = set()
        for n in nl:
            if len(n['alts']) >= 2 and r.random() < 0.85:
                grp = r.sample(n['alts'], r.randint(2, len(n['alts'])))
                if r.random() < 0.4:
                    others = [a for a in alts if a not in n['alts'] and a not in used]
                    if others:
                        grp.append(r.choice(others))  # the same object also serves another nest / an alone alternative
                grp = [a for a in grp if a not in used]
                if len(grp) >= 2:
                    av_groups.append(grp)
                    used |= set(grp)
        if not av_groups:
            av_groups = [r.sample(alts, 2)]
    grouped = {a for grp in av_groups for a in grp}
    if av_mode == 'none':
        for row in rows:
            row['A'] = [1] * J
    always = []
    if av_mode == 'mixed':
        # some alternatives declared always available with a plain 1
        always = [a for a in alts if a not in grouped and r.random() < 0.4]
        if av_share == 'one_object':
            # make sure the shared object serves two members of one nest when the structure allows it
            big = [n['alts'] for n in nl if len(n['alts']) >= 2]
            if big and r.random() < 0.8:
                always = sorted(set(always) | set(r.sample(r.choice(big), 2)), key=alts.index)
        for row in rows:
            row['A'] = [1 if a in always else x for a, x in zip(alts, row['A'])]
    for row in rows:
        for grp in av_groups:
            x = row['A'][alts.index(grp[0])]
            for a in grp:
                row['A'][alts.index(a)] = x
        if not any(row['A']):
            a = r.choice(alts)
            for b_ in next((grp for grp in av_groups if a in grp), [a]):
                row['A'][alts.index(b_)] = 1
    if av_mode != 'none' and not (force.get('override') or {}).get('rows'):
        # every alternative (not declared always available) is unavailable on at least one row
        def unit(a):
            return next((grp for grp in av_groups if a in grp), [a])

        for a in alts:
            if a in always or any(row['A'][alts.index(a)] == 0 for row in rows):
                continue
            u = unit(a)
            cand = [k for k, row in enumerate(rows) if k >= 1 and any(x for b_, x in zip(alts, row['A']) if b_ not in u)]
            if cand:
                row = rows[r.choice(cand)]
            else:
                rest = [b_ for b_ in alts if b_ not in u]
                if not rest:
                    continue  # the unit is the whole choice set: it cannot be unavailable
                A = [int(r.random() < 0.7) for _ in alts]
                for grp in av_groups:
                    x = A[alts.index(grp[0])]
                    for b_ in grp:
                        A[alts.index(b_)] = x
                A = [1 if b_ in always else x for b_, x in zip(alts, A)]
                if not any(A[alts.index(b_)] for b_ in rest):
                    for b_ in unit(r.choice(rest)):  # a whole sharing unit outside u becomes available
                        if b_ not in u:
                            A[alts.index(b_)] = 1
                row = {'V': [round(r.uniform(-vband, vband), 4) for _ in alts], 'A': A}
                rows.append(row)
            for b_ in u:
                row['A'][alts.index(b_)] = 0
            assert any(row['A'])  # cand / rest guarantee another available alternative
        nrows = len(rows)
    # insertion orders: utilities, availabilities, nest member lists, allocation dicts and the choice sets of the nest
    # objects are each written in their own order (None: everything in the order of `alts`, the way examples are written)
    order_seed = None if r.random() < 0.15 else r.randrange(10 ** 6)
    if 'order_seed' in force:
        order_seed = force['order_seed']
    one_kind = force.get('one_kind') or r.choice(['numeric', 'numeric', 'int', 'bool'])
    # utilities: sub-expression objects (the constant column, the generic coefficient, a common compound term)
    # either rebuilt for every alternative or ONE object reused by all of them
    util_share = force.get('util_share') or r.choice(['fresh', 'shared', 'shared'])
    common = None
    if r.random() < 0.5:
        common = {'bs': round(r.uniform(-1, 1), 3), 'xs': [round(r.uniform(-1, 1), 3) for _ in range(nrows)]}

    util_form = force.get('util_form') or r.choice(['var', 'var', 'lin', 'lin', 'const1'])
    lin = None
    if util_form in ('lin', 'const1'):
        # V_i = ASC_i + B * X_i : the X column is derived from the target utility value
        b = r.choice([-1, 1]) * round(r.uniform(0.2, 2.0), 3)
        lin = {'b': b, 'asc': {str(a): round(r.uniform(-1, 1), 3) for a in alts}}
    const_alt = None
    if util_form == 'const1':
        # one alternative has a plain number as utility (normalisation), same in every row
        const_alt = r.choice(alts)
        cv = float(r.choice([0, 0, 1, -2]))
        for row in rows:
            row['V'][alts.index(const_alt)] = cv

    # ---- ordered model ---------------------------------------------------------
    K = r.randint(2, 6)
    cats = sorted(r.sample(range(0, 12), K)) if r.random() < 0.5 else list(range(1, K + 1))
    ordered = {
        'cats': cats,
        'tau': round(r.uniform(-3, 3), 3),
        'incs': [round(r.uniform(0.05, 3.0), 3) for _ in range(max(0, K - 2))],
        'x': [round(r.uniform(-8, 8), 4) for _ in range(nrows)],
        'bx': r.choice([None, round(r.uniform(0.3, 2.0), 3)]),
        'set_incs': r.choice(['betas', 'betas', 'default']),
    }

    cfg = {
        'alts': alts,
        'nl': nl,
        'cnl': cnl,
        'alpha_kind': alpha_kind,
        'mu_nl': mu_nl,
        'mu_cnl': mu_cnl,
        'mu_kind': mu_kind,
        'vband': vband,
        'shifts': shifts,
        'rows': rows,
        'av_mode': av_mode,
        'always': always,
        'av_share': av_share,
        'av_groups': av_groups,
        'one_kind': one_kind,
        'order_seed': order_seed,
        'util_share': util_share,
        'common': common,
        'util_form': util_form,
        'lin': lin,
        'const_alt': const_alt,
        'choice_mode': None,
        'entry': None,
        'ordered': ordered,
    }
    # one expression per alternative (choice given as a number) or one expression with the choice read from a column
    entry = force.get('entry') or r.choice(['get_value_c'] * 5 + ['simulate'])
    cm = force.get('choice_mode') or ('variable' if entry == 'simulate' else r.choice(['numeric', 'variable', 'variable']))
    cfg['choice_mode'] = cm
    cfg['entry'] = entry
    for k, v in (force.get('override') or {}).items():
        cfg[k] = v
    return cfg


def zero_allocation_dead_nest(cfg: dict, row: int) -> list:
    """alternatives that are available on base row `row`, listed with a zero allocation in a nest
    none of whose positively allocated members is available on that row"""
    av = dict(zip(cfg['alts'], cfg['rows'][row]['A']))
    out = []
    for n in cfg['cnl']:
        alive = any(x > 0 and av[a] for a, x in n['alpha'])
        if not alive:
            out += [a for a, x in n['alpha'] if x == 0 and av[a]]
    return sorted(set(out))


def features(cfg: dict) -> dict:
    """structural features of a configuration (coverage counters)"""
    alts = cfg['alts']
    nested = {a for n in cfg['nl'] for a in n['alts']}
    cn = {}
    for n in cfg['cnl']:
        for a, x in n['alpha']:
            cn.setdefault(a, []).append(x)
    whole = 0
    for row in cfg['rows']:
        av = dict(zip(alts, row['A']))
        for n in cfg['nl']:
            if len(n['alts']) >= 1 and not any(av[a] for a in n['alts']) and any(av.values()):
                whole += 1
    return {
        'J': len(alts),
        'nl_alone': len(alts) - len(nested),
        'nl_nests': len(cfg['nl']),
        'nl_singleton_nest': sum(1 for n in cfg['nl'] if len(n['alts']) == 1),
        'nl_param_one': sum(1 for n in cfg['nl'] if n['param'] == 1.0),
        'cnl_nests': len(cfg['cnl']),
        'cnl_alone': len(alts) - len(cn),
        'cnl_overlapping_alts': sum(1 for a, xs in cn.items() if sum(1 for x in xs if x > 0) > 1),
        'cnl_alpha_zero_listed': sum(1 for xs in cn.values() for x in xs if x == 0),
        'rows_whole_nest_unavailable': whole,
        'rows_with_unavailable': sum(1 for row in cfg['rows'] if not all(row['A'])),
        'rows_single_available': sum(1 for row in cfg['rows'] if sum(row['A']) == 1),
        'same_nest_members_share_availability_object': len(shared_availability_in_nest(cfg)),
        'utility_and_availability_dicts_in_different_orders': int(orders_differ(cfg)),
        'every_alternative_unavailable_on_some_row': int(cfg['av_mode'] != 'none' and all(
            any(row['A'][j] == 0 for row in cfg['rows']) for j, a in enumerate(alts) if a not in cfg['always'])),
        'availability_object_shared_across_nests': sum(
            1 for grp in shared_availability_sets(cfg) if len({_nest_of(cfg, a) for a in grp}) > 1),
    }


def orders_differ(cfg: dict) -> bool:
    """availability dictionary written in another insertion order than the utility dictionary"""
    if cfg.get('order_seed') is None or cfg['av_mode'] == 'none':
        return False
    b = Builder(cfg)
    return b._shuffled(cfg['alts'], 'util') != b._shuffled(cfg['alts'], 'av')


def _nest_of(cfg, a):
    for k, n in enumerate(cfg['nl']):
        if a in n['alts']:
            return k
    return f'alone{a}'


def shared_availability_sets(cfg: dict) -> list:
    """sets of alternatives whose availability is ONE expression object"""
    if cfg['av_mode'] == 'none':
        return []
    out = [list(grp) for grp in cfg.get('av_groups', [])]
    if cfg.get('av_share') == 'one_object' and cfg.get('one_kind') == 'numeric' and len(cfg['always']) >= 2:
        out.append(list(cfg['always']))
    return out


def shared_availability_in_nest(cfg: dict) -> list:
    """pairs (nest index, alternatives) where >= 2 members of a nest with parameter != 1 share the object"""
    out = []
    for grp in shared_availability_sets(cfg):
        for k, n in enumerate(cfg['nl']):
            inter = [a for a in grp if a in n['alts']]
            if len(inter) >= 2 and n['param'] != 1.0:
                out.append([k, inter])
    return out


# ----------------------------------------------------------------------------
# table
# ----------------------------------------------------------------------------
def table(cfg: dict, with_shifts=True, replicate_choice=None):
    """pandas frame: one line per (base row, shift[, candidate choice]).

    columns: V<label> (or X<label> for the linear form), A<label>, C (the
    constant added to every utility), XO (ordered model), CH (candidate choice),
    ROW, plus the bookkeeping arrays returned separately."""
    import pandas as pd

    alts = cfg['alts']
    shifts = [0.0] + (list(cfg['shifts']) if with_shifts else [])
    choices = list(replicate_choice) if replicate_choice else [None]
    recs = []
    for ri, row in enumerate(cfg['rows']):
        for c in shifts:
            for ch in choices:
                d = {'ROW': float(ri), 'C': float(c), 'XO': float(cfg['ordered']['x'][ri])}
                for j, a in enumerate(alts):
                    v = row['V'][j]
                    if cfg['lin'] is not None:
                        d[f'X{a}'] = (v - cfg['lin']['asc'][str(a)]) / cfg['lin']['b']
                    else:
                        d[f'V{a}'] = float(v)
                    d[f'A{a}'] = float(row['A'][j])
                for gi, grp in enumerate(cfg.get('av_groups', [])):
                    d[f'AG{gi}'] = float(row['A'][alts.index(grp[0])])
                d['XS'] = float(cfg['common']['xs'][ri]) if cfg.get('common') else 0.0
                d['CH'] = float(ch if ch is not None else alts[0])
                recs.append(d)
    return pd.DataFrame(recs)


def true_utilities(cfg: dict, df) -> dict:
    """utility value of each alternative on each line of the frame (without the constant C),
    computed from the frame itself (for the linear form: ASC + B*X in float64)."""
    import numpy as np

    out = {}
    for j, a in enumerate(cfg['alts']):
        if cfg['const_alt'] == a:
            out[a] = np.full(len(df), float(cfg['rows'][0]['V'][j]))
        elif cfg['lin'] is not None:
            out[a] = cfg['lin']['asc'][str(a)] + cfg['lin']['b'] * df[f'X{a}'].to_numpy()
        else:
            out[a] = df[f'V{a}'].to_numpy()
    return out


# ----------------------------------------------------------------------------
# real biogeme objects
# ----------------------------------------------------------------------------
class Builder:
    """Builds biogeme objects for one configuration. Every call returns fresh
    expression objects (nothing is shared between the models compared)."""

    def __init__(self, cfg: dict, datafree_row: int | None = None, shift_value: float | None = None):
        self.cfg = cfg
        self.alts = cfg['alts']
        self.row = datafree_row  # None: Variables; k: numbers of base row k (pure-Python evaluator)
        self.shift_value = shift_value
        self.free = {}  # name -> value of the free Betas created

    # -- insertion orders ----------------------------------------------------
    def _shuffled(self, items, what):
        """the items in the order reserved for `what` (deterministic for the configuration, independent between
        utilities, availabilities, nests, allocations and choice sets)"""
        items = list(items)
        seed = self.cfg.get('order_seed')
        if seed is None:
            return items
        random.Random(f'{seed}-{what}').shuffle(items)
        return items

    def _reorder(self, d, what):
        if d is None:
            return None
        return {a: d[a] for a in self._shuffled(list(d), what)}

    # -- leaves --------------------------------------------------------------
    def _param(self, name, value, kind):
        import biogeme.expressions as ex

        if kind == 'float':
            return float(value)
        if kind == 'numeric':
            return ex.Numeric(float(value))
        if kind == 'beta_fixed':
            return ex.Beta(name, float(value), 1.0, None, 1)
        self.free[name] = float(value)
        return ex.Beta(name, float(value), 1.0, None, 0)

    def util(self, shifted=True, plain_variables=False):
        """dict label -> utility. shifted: '+ C' (a data column holding the constant).

        util_share == 'shared': the constant column, the generic coefficient and the common compound
        term are each ONE object reused in every alternative's utility; 'fresh': rebuilt per alternative."""
        import biogeme.expressions as ex

        cfg = self.cfg
        shared = cfg.get('util_share', 'fresh') == 'shared'
        common = cfg.get('common')
        memo = {}

        def once(key, make):
            if not shared:
                return make()
            if key not in memo:
                memo[key] = make()
            return memo[key]

        def common_term():
            if self.row is not None:
                return ex.Numeric(common['bs'] * common['xs'][self.row])
            self.free['B_S'] = common['bs']
            return ex.Beta('B_S', common['bs'], None, None, 0) * ex.Variable('XS')

        out = {}
        for j, a in enumerate(self.alts):
            if self.row is not None:
                v = ex.Numeric(float(cfg['rows'][self.row]['V'][j]))
                if cfg['const_alt'] == a:
                    v = float(cfg['rows'][self.row]['V'][j])
                if common:
                    v = v + once('common', common_term)
                if shifted and self.shift_value is not None:
                    v = v + once('C', lambda: ex.Numeric(self.shift_value))
                out[a] = v
                continue
            if cfg['const_alt'] == a and not plain_variables:
                v = float(cfg['rows'][0]['V'][j])
                if v == int(v) and j % 2 == 0:
                    v = int(v)
            elif cfg['lin'] is not None:
                self.free['B_X'] = cfg['lin']['b']
                asc = cfg['lin']['asc'][str(a)]
                self.free[f'ASC_{a}'] = asc
                bx = once('B_X', lambda: ex.Beta('B_X', cfg['lin']['b'], None, None, 0))
                v = ex.Beta(f'ASC_{a}', asc, None, None, 0) + bx * ex.Variable(f'X{a}')
            else:
                v = ex.Variable(f'V{a}')
            if common:
                v = v + once('common', common_term)
            if shifted:
                v = v + once('C', lambda: ex.Variable('C'))
            out[a] = v
        return self._reorder(out, 'util')

    def av(self):
        """availability dictionary in the object-sharing style of the configuration (see make_config)"""
        import biogeme.expressions as ex

        cfg = self.cfg
        if cfg['av_mode'] == 'none':
            return None
        share = cfg.get('av_share', 'fresh')
        group_of = {a: gi for gi, grp in enumerate(cfg.get('av_groups', [])) for a in grp}
        memo = {}
        out = {}
        for j, a in enumerate(self.alts):
            x = None if self.row is None else cfg['rows'][self.row]['A'][j]
            if a in group_of:
                gi = group_of[a]
                if gi not in memo:
                    if x is not None:
                        memo[gi] = ex.Numeric(x)
                    elif share == 'group_expr':
                        memo[gi] = (ex.Variable(f'AG{gi}') != 0) if gi % 2 else ex.Variable(f'AG{gi}') * ex.Numeric(1)
                    else:
                        memo[gi] = ex.Variable(f'AG{gi}')
                out[a] = memo[gi]  # the SAME object for every member of the group
            elif a in cfg['always'] and share == 'one_object':
                kind = cfg.get('one_kind', 'numeric')
                if kind == 'numeric':
                    if 'one' not in memo:
                        memo['one'] = ex.Numeric(1)
                    out[a] = memo['one']
                else:
                    out[a] = 1 if kind == 'int' else True
            elif x is not None:
                out[a] = ex.Numeric(x) if j % 2 else int(x)
            elif a in cfg['always']:
                out[a] = [ex.Numeric(1), 1, True][j % 3]
            else:
                out[a] = ex.Variable(f'A{a}')
        return self._reorder(out, 'av')

    def mu(self, which, one=False):
        v = 1.0 if one else self.cfg['mu_' + which]
        return self._param('MU_' + which.upper(), v, self.cfg['mu_kind'] if not one else self.cfg['mu_kind'])

    # -- nests -----------------------------------------------------------------
    def nl_nests(self, syntax='object', all_one=False, names=False):
        from biogeme.nests import OneNestForNestedLogit, NestsForNestedLogit

        items = []
        for k, n in enumerate(self.cfg['nl']):
            p = self._param(f'MU_N{k}', 1.0 if all_one else n['param'], n['kind'])
            if all_one and n['kind'] == 'float' and k % 2:
                p = 1  # a plain integer one
            members = self._shuffled(n['alts'], f'nl{k}')
            if syntax == 'tuple':
                items.append((p, members))
            else:
                items.append(OneNestForNestedLogit(nest_param=p, list_of_alternatives=members,
                                                   name=(f'nest{k}' if names else None)))
        items = self._shuffled(items, 'nl_tuple')
        if syntax == 'tuple':
            return tuple(items)
        return NestsForNestedLogit(choice_set=self._shuffled(self.alts, 'choice_nl'), tuple_of_nests=tuple(items))

    def _alpha(self, k, a, x):
        import biogeme.expressions as ex

        kind = self.cfg['alpha_kind']
        if kind == 'float':
            return float(x)
        if kind == 'beta_fixed':
            return ex.Beta(f'ALPHA_{k}_{a}', float(x), 0.0, 1.0, 1)
        self.free[f'ALPHA_{k}_{a}'] = float(x)
        return ex.Beta(f'ALPHA_{k}_{a}', float(x), 0.0, 1.0, 0)

    def cnl_nests(self, syntax='object', spec=None):
        from biogeme.nests import OneNestForCrossNestedLogit, NestsForCrossNestedLogit

        items = []
        for k, n in enumerate(spec if spec is not None else self.cfg['cnl']):
            p = self._param(f'MU_C{k}', n['param'], n['kind'])
            alpha = {a: self._alpha(k, a, x) for a, x in self._shuffled(n['alpha'], f'alpha{k}')}
            if syntax == 'tuple':
                items.append((p, alpha))
            else:
                items.append(OneNestForCrossNestedLogit(nest_param=p, dict_of_alpha=alpha))
        items = self._shuffled(items, 'cnl_tuple')
        if syntax == 'tuple':
            return tuple(items)
        return NestsForCrossNestedLogit(choice_set=self._shuffled(self.alts, 'choice_cnl'), tuple_of_nests=tuple(items))

    def partition_as_cnl_spec(self, with_zeros=False):
        """the nested structure written as a cross-nested one: alpha in {0,1}"""
        spec = []
        for k, n in enumerate(self.cfg['nl']):
            alpha = [[a, 1.0] for a in n['alts']]
            if with_zeros:
                # members of the other nests listed with a zero allocation
                for k2, n2 in enumerate(self.cfg['nl']):
                    if k2 != k:
                        alpha += [[a, 0.0] for a in n2['alts'][:1]]
            spec.append({'param': n['param'], 'kind': n['kind'], 'alpha': alpha})
        return spec

    # -- ordered ------------------------------------------------------------------
    def ordered(self, which):
        import biogeme.expressions as ex
        from biogeme import models

        o = self.cfg['ordered']
        if self.row is not None:
            x = ex.Numeric(float(o['x'][self.row]))
        else:
            x = ex.Variable('XO')
        if o['bx'] is not None:
            self.free['B_O'] = o['bx']
            x = ex.Beta('B_O', o['bx'], None, None, 0) * x
        tau = ex.Beta('TAU1', o['tau'], None, None, 0)
        self.free['TAU1'] = o['tau']
        fn = models.ordered_logit if which == 'logit' else models.ordered_probit
        d = fn(continuous_value=x, list_of_discrete_values=list(o['cats']), tau_parameter=tau)
        incs = {}
        for item, inc in zip(o['cats'][1:-1], o['incs']):
            incs[f'TAU1_diff_{item}'] = inc if o['set_incs'] == 'betas' else 1.0
        return d, incs

    # -- user-supplied generating terms (hand-written the way a user would) ---
    def hand_terms(self, which, util, av):
        """ln dG/dy_i written directly with biogeme operators (NOT through
        models.nested / models.cnl): 'zero' (logit), 'nested', 'cross'."""
        import biogeme.expressions as ex

        alts = self.alts
        if which == 'zero':
            return {a: (0 if j % 2 else ex.Numeric(0)) for j, a in enumerate(alts)}

        def a_(i):
            return 1 if av is None else av[i]

        if which == 'nested':
            out = {a: ex.Numeric(0) for a in alts}
            for n in self.cfg['nl']:
                m = float(n['param'])
                s = ex.bioMultSum([a_(i) * ex.exp(m * util[i]) for i in n['alts']])
                for i in n['alts']:
                    out[i] = (m - 1.0) * util[i] + (1.0 / m - 1.0) * ex.log(s)
            return out
        if which == 'cross':
            members = {}
            sums = []
            for n in self.cfg['cnl']:
                m = float(n['param'])
                s = ex.bioMultSum([a_(i) * (float(x) ** m) * ex.exp(m * util[i]) for i, x in n['alpha'] if x > 0])
                sums.append((m, s))
                for i, x in n['alpha']:
                    if x > 0:
                        members.setdefault(i, []).append((float(x) ** m) * ex.exp((m - 1.0) * util[i]) * s ** (1.0 / m - 1.0))
            out = {}
            for a in alts:
                if a in members:
                    out[a] = ex.log(ex.bioMultSum(members[a]))
                else:
                    out[a] = ex.Numeric(0)
            return out
        raise ValueError(which)
