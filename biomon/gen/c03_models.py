"""C03 workload: seeded model specifications, bijective renamings, re-orderings.

A *model* is a plain JSON-able dict (AST in biomon.oracle.evalast format):

  kind        'logit' | 'regression'
  data        column -> list of floats (column order shuffled)
  betas       name -> [value, status]      (status 0 free, 1 fixed)
  bounds      name -> [lb|None, ub|None]   (free parameters only)
  alts        [[alt, style, [term, ...]], ...]   style in multsum|addchain|linutil
  av          None | [[alt, column], ...]
  choice      column name (logit) / dependent variable (regression)
  weight      None | column name
  extra       [[formula name, ast], ...]    additional formulas for simulate()
  true        name -> value used to draw the choices (estimation cases)

Everything that follows from it (log-likelihood AST, formulas) is *derived* by
functions of this module, so that a renaming / re-ordering is a transformation
of the specification, and the reference evaluator sees exactly what biogeme
is given.

Names are drawn from pools built so that order of appearance, alphabetical
order, case-insensitive order and "natural" (numeric suffix) order all differ.
"""
from __future__ import annotations

import copy
import random

import numpy as np

NAME_POOLS = [
    ['zeta', 'alpha', 'mu', 'kappa', 'theta', 'omega', 'delta', 'gamma', 'lambda_', 'eta'],
    ['b10', 'b2', 'b1', 'b11', 'b_2', 'b_10', 'b20', 'b3', 'b100', 'b_1'],
    ['B_TIME', 'b_time', 'ASC_CAR', 'asc_car', 'Beta', 'beta', 'ASC', 'asc', 'Zed', 'a_cost'],
    ['b', 'bb', 'b_', 'ba', 'bA', 'B', 'Bb', 'b0', '_b', 'b__'],
    ['asc_train', 'asc_sm', 'beta_time_car', 'beta_time', 'beta_cost', 'beta_he', 'scale_1', 'Scale', 'sigma_panel',
     'a_very_long_parameter_name_for_the_generic_travel_time_coefficient'],
]
VAR_POOL = ['x_time', 'Cost', 'a1', 'Z', 'dist_km', 'INC', 'v2', 'v10', 'w_', 'Age', 'q', 'TT', 'he', 'x_9', 'x_10',
            'GA', 'u1', 'U2', 'm3', 'n4']


def _distinct_values(r: random.Random, n: int, lo=-0.6, hi=0.6, avoid=()):
    """n pairwise distinct non-zero values, 3 decimals, pairwise >= 0.02 apart
    (a mix-up between two parameters must be visible)"""
    out = list(avoid)
    res = []
    guard = 0
    while len(res) < n:
        guard += 1
        v = round(r.uniform(lo, hi), 3)
        if abs(v) < 0.02:
            continue
        if all(abs(v - w) >= 0.02 for w in out) or guard > 2000:
            out.append(v)
            res.append(v)
    return res


def make_model(seed: int, i: int, estimation: bool, force_kind=None) -> dict:
    r = random.Random(f'c03-{seed}-{i}-{int(estimation)}')
    nrng = np.random.default_rng([seed & 0xFFFFFFFF, i, 77 + int(estimation)])
    kind = force_kind or ('regression' if r.random() < 0.22 else 'logit')
    J = 1 if kind == 'regression' else r.choice([2, 2, 3, 3, 4])
    alts = [1] if kind == 'regression' else r.sample([1, 2, 3, 4, 5, 7], J)
    n_rows = r.randint(50, 90) if estimation else r.randint(3, 12)

    # --- parameter names: mixture of pools, appearance order decided later
    pools = r.sample(NAME_POOLS, r.choice([1, 2, 2, 3]))
    cand = []
    for p in pools:
        cand += p
    cand = list(dict.fromkeys(cand))
    r.shuffle(cand)
    K = r.randint(2, 7)
    names = cand[:K]

    # --- roles -----------------------------------------------------------
    vars_ = VAR_POOL[:]
    r.shuffle(vars_)
    # never run dry: further columns get systematic names (met first by pop())
    vars_ = [f'{r.choice(["col", "X", "z_"])}{k}' for k in range(30, 0, -1)] + vars_
    data = {}
    terms = {a: [] for a in alts}
    pending = names[:]
    r.shuffle(pending)
    fixed = set()
    expo = set()
    nonlinear_used = False

    def newcol(scale=1.0):
        c = vars_.pop()
        data[c] = [round(float(v), 3) for v in nrng.normal(0.0, scale, n_rows)]
        return c

    # alternative specific constants (not for the first listed alternative)
    if kind == 'logit':
        for a in alts[1:]:
            if pending and r.random() < 0.6 and len(pending) > 1:
                terms[a].append(['beta', pending.pop()])
    else:
        if len(pending) > 1 and r.random() < 0.7:
            terms[1].append(['beta', pending.pop()])
    # the rest: coefficients of attributes
    while pending:
        b = pending.pop()
        role = r.random()
        if kind == 'logit' and role < 0.45 and J >= 2:
            # generic coefficient: one column per alternative, in >= 2 alternatives
            where = r.sample(alts, r.randint(2, J))
            for a in where:
                terms[a].append(['mul', ['beta', b], ['var', newcol()]])
        elif role < 0.85 or nonlinear_used or not pending:
            a = r.choice(alts)
            terms[a].append(['mul', ['beta', b], ['var', newcol()]])
        else:
            # non-linear in the parameters: product of two parameters (the second one fixed), or exp
            a = r.choice(alts)
            nonlinear_used = True
            if r.random() < 0.5 and pending:
                b2 = pending.pop()
                fixed.add(b2)
                terms[a].append(['mul', ['mul', ['beta', b], ['beta', b2]], ['var', newcol()]])
            else:
                expo.add(b)
                terms[a].append(['mul', ['exp', ['beta', b]], ['var', newcol()]])
    # every alternative needs a utility
    for a in alts:
        if not terms[a]:
            if kind == 'logit' and r.random() < 0.5:
                terms[a].append(['num', 0.0])
            else:
                terms[a].append(['mul', ['beta', r.choice(names)], ['var', newcol()]])
    # --- fixed parameters -------------------------------------------------
    free_cand = [n for n in names if n not in fixed]
    nfix = r.choice([0, 0, 1, 1, 2]) if len(free_cand) > 1 else 0
    nfix = min(nfix, len(free_cand) - 1)
    for n in r.sample(free_cand, nfix):
        fixed.add(n)
    free = [n for n in names if n not in fixed]

    # --- values ------------------------------------------------------------
    true_vals = _distinct_values(r, K, -1.2, 1.2)
    true = dict(zip(names, true_vals))
    for n in expo:
        # exp(beta) must stay well away from 0, or beta drifts to -infinity (flat direction: nothing to compare)
        true[n] = round(abs(true[n]) * 0.6 + 0.1, 3)
    init_vals = _distinct_values(r, K, -0.5, 0.5)
    betas = {}
    for n, v in zip(names, init_vals):
        if n in fixed:
            # a fixed parameter stays at the value used to generate the data (mostly), never 0
            fv = true[n] if r.random() < 0.7 else v
            true[n] = fv
            betas[n] = [fv, 1]
        else:
            betas[n] = [v, 0]
    # --- bounds --------------------------------------------------------------
    bounds = {}
    for n in free:
        u = r.random()
        v0 = betas[n][0]
        t = true[n]
        if u < 0.45:
            continue
        lo_ok, hi_ok = min(v0, t), max(v0, t)
        if u < 0.65:
            bounds[n] = [round(lo_ok - r.uniform(0.5, 3), 2), round(hi_ok + r.uniform(0.5, 3), 2)]
        elif u < 0.78:
            bounds[n] = [round(lo_ok - r.uniform(0.5, 3), 2), None]
        elif u < 0.90:
            bounds[n] = [None, round(hi_ok + r.uniform(0.5, 3), 2)]
        else:
            # a bound that excludes the data-generating value: active at the optimum
            if t > v0:
                bounds[n] = [None if r.random() < 0.5 else round(v0 - 1.0, 2), round(v0 + 0.4 * (t - v0), 3)]
            else:
                bounds[n] = [round(v0 - 0.4 * (v0 - t), 3), None if r.random() < 0.5 else round(v0 + 1.0, 2)]

    # --- availability, choice, weight ---------------------------------------
    av = None
    choice = vars_.pop()
    weight = None
    if kind == 'logit':
        if r.random() < 0.3:
            av = []
            for a in alts:
                c = vars_.pop()
                data[c] = [float(v) for v in (nrng.random(n_rows) < 0.8)]
                av.append([a, c])
        V = np.zeros((n_rows, J))
        for k, a in enumerate(alts):
            V[:, k] = _eval_terms(terms[a], data, true, n_rows)
        A = np.ones((n_rows, J), dtype=bool)
        if av:
            for k, (a, c) in enumerate(av):
                A[:, k] = np.array(data[c]) != 0
            # at least one available per row
            for row in range(n_rows):
                if not A[row].any():
                    k = int(nrng.integers(J))
                    A[row, k] = True
                    data[av[k][1]][row] = 1.0
        U = V + nrng.gumbel(size=(n_rows, J))
        U[~A] = -np.inf
        ch = U.argmax(axis=1)
        data[choice] = [float(alts[k]) for k in ch]
    else:
        mu = _eval_terms(terms[1], data, true, n_rows)
        data[choice] = [round(float(v), 3) for v in mu + nrng.normal(0, 0.7, n_rows)]
    if not estimation and r.random() < 0.25:
        weight = vars_.pop()
        w = nrng.uniform(0.5, 1.5, n_rows)
        w = w * n_rows / w.sum()
        data[weight] = [round(float(v), 4) for v in w]

    # utilities' surface syntax
    alts_spec = []
    for a in alts:
        tl = terms[a]
        r.shuffle(tl)
        lin = all(t[0] == 'mul' and t[1][0] == 'beta' and t[2][0] == 'var' for t in tl)
        style = r.choice(['multsum', 'addchain', 'linutil' if lin else 'addchain'])
        alts_spec.append([a, style, tl])
    r.shuffle(alts_spec)

    # column order in the frame is arbitrary too
    cols = list(data)
    r.shuffle(cols)
    data = {c: data[c] for c in cols}

    model = {
        'kind': kind, 'data': data, 'betas': betas, 'bounds': bounds, 'alts': alts_spec, 'av': av,
        'choice': choice, 'weight': weight, 'extra': [], 'true': true, 'estimation': bool(estimation),
    }
    # extra formulas for simulation (never in estimation cases: their parameters would not be identified)
    if not estimation:
        extra = []
        if kind == 'logit':
            a = r.choice(alts)
            if av is None:  # (the probability of an unavailable alternative is outside the regular domain)
                extra.append([f'prob_{a}', prob_ast(model, a)])
        a0 = r.choice(alts_spec)
        extra.append([f'V_{a0[0]}', utility_ast(a0)])
        if r.random() < 0.6:
            # a formula with a parameter of its own, met before/after the others depending on dict order
            own = [n for n in cand[K:K + 3]]
            if own:
                nm = own[0]
                model['betas'][nm] = [_distinct_values(r, 1, -0.5, 0.5, [v[0] for v in betas.values()])[0],
                                      r.choice([0, 0, 1])]
                model['true'][nm] = model['betas'][nm][0]
                col = r.choice([c for c in data if c != choice])
                other = r.choice(names)
                extra.append(['Own', ['add', ['mul', ['beta', nm], ['var', col]], ['beta', other]]])
        r.shuffle(extra)
        model['extra'] = extra
    return model


def _eval_terms(terms, data, values, n):
    tot = np.zeros(n)
    for t in terms:
        tot = tot + _ev(t, data, values, n)
    return tot


def _ev(t, data, values, n):
    op = t[0]
    if op == 'num':
        return np.full(n, float(t[1]))
    if op == 'beta':
        return np.full(n, float(values[t[1]]))
    if op == 'var':
        return np.asarray(data[t[1]], dtype=float)
    if op == 'mul':
        return _ev(t[1], data, values, n) * _ev(t[2], data, values, n)
    if op == 'exp':
        return np.exp(_ev(t[1], data, values, n))
    raise ValueError(op)


# ---------------------------------------------------------------------------
# derived ASTs


def utility_ast(alt_spec):
    a, style, tl = alt_spec
    if style == 'linutil':
        return ['linutil', [[t[1][1], t[2][1]] for t in tl]]
    if len(tl) == 1:
        return tl[0]
    if style == 'multsum':
        return ['multsum', list(tl), 'list']
    node = tl[0]
    for t in tl[1:]:
        node = ['add', node, t]
    return node


def _nonlinear(ast):
    if isinstance(ast, list):
        if ast and ast[0] == 'exp':
            return True
        if ast and ast[0] == 'mul' and ast[1] and ast[1][0] == 'mul':
            return True
        return any(_nonlinear(x) for x in ast if isinstance(x, list))
    return False


def loglike_ast(model):
    if model['kind'] == 'regression':
        mu = utility_ast(model['alts'][0])
        resid = ['sub', ['var', model['choice']], mu]
        if _nonlinear(mu):
            # (not '** 2': the pinned engine's second derivative of PowerConstant(.., 2) is wrong when the base is
            # non-linear in the parameters -- a C02 matter, reported there; kept out of this workload)
            return ['neg', ['mul', resid, copy.deepcopy(resid)]]
        return ['neg', ['powc', resid, 2]]
    utils = [[a[0], utility_ast(a)] for a in model['alts']]
    av = None
    if model['av']:
        d = dict((int(a), c) for a, c in model['av'])
        av = [[a[0], ['var', d[a[0]]]] for a in model['alts']]
    return ['loglogit', utils, av, ['var', model['choice']], 'log']


def prob_ast(model, alt):
    utils = [[a[0], utility_ast(a)] for a in model['alts']]
    av = None
    if model['av']:
        d = dict((int(a), c) for a, c in model['av'])
        av = [[a[0], ['var', d[a[0]]]] for a in model['alts']]
    return ['loglogit', utils, av, ['num', float(alt)], 'prob']


def formulas(model, order=None):
    """ordered dict formula name -> AST, as given to BIOGEME"""
    f = [['log_like', loglike_ast(model)]]
    if model['weight']:
        f.append(['weight', ['var', model['weight']]])
    f += [[k, a] for k, a in model['extra']]
    if order is not None:
        f = [f[k] for k in order]
    return dict((k, a) for k, a in f)


def betas_in(ast, acc=None):
    """parameter names in order of first appearance (depth-first, left to right)"""
    acc = [] if acc is None else acc
    if isinstance(ast, list):
        if ast and ast[0] == 'beta':
            if ast[1] not in acc:
                acc.append(ast[1])
            return acc
        if ast and ast[0] == 'linutil':
            for b, _ in ast[1]:
                if b not in acc:
                    acc.append(b)
            return acc
        for x in ast:
            betas_in(x, acc)
    return acc


def appearance_order(model, order=None):
    acc = []
    for a in formulas(model, order).values():
        betas_in(a, acc)
    return acc


# ---------------------------------------------------------------------------
# transformations


def _rename_ast(ast, rho):
    if isinstance(ast, list):
        if ast and ast[0] == 'beta':
            return ['beta', rho[ast[1]]]
        if ast and ast[0] == 'linutil':
            return ['linutil', [[rho[b], x] for b, x in ast[1]]]
        return [_rename_ast(x, rho) for x in ast]
    return ast


def rename(model, rho):
    m = copy.deepcopy(model)
    m['betas'] = {rho[k]: v for k, v in model['betas'].items()}
    m['bounds'] = {rho[k]: v for k, v in model['bounds'].items()}
    m['true'] = {rho[k]: v for k, v in model['true'].items()}
    m['alts'] = [[a, st, [_rename_ast(t, rho) for t in tl]] for a, st, tl in model['alts']]
    m['extra'] = [[k, _rename_ast(a, rho)] for k, a in model['extra']]
    return m


def shuffle_terms(model, r: random.Random):
    """same names, different order of appearance: terms inside utilities, order of
    alternatives, order of the name->(value,status) table, column order untouched"""
    m = copy.deepcopy(model)
    for a in m['alts']:
        r.shuffle(a[2])
        if a[1] != 'linutil' and len(a[2]) > 1:
            a[1] = r.choice(['multsum', 'addchain'])
    r.shuffle(m['alts'])
    if r.random() < 0.5:
        m['alts'].reverse()
    items = list(m['betas'].items())
    r.shuffle(items)
    m['betas'] = dict(items)
    return m


def reverse_terms(model):
    m = copy.deepcopy(model)
    for a in m['alts']:
        a[2].reverse()
    m['alts'].reverse()
    m['betas'] = dict(reversed(list(m['betas'].items())))
    m['extra'] = list(reversed(m['extra']))
    return m


RENAMINGS = ['reverse-sorted', 'rotate-sorted', 'scramble-same-set', 'prefix-reversing', 'prefix-scramble', 'fresh-pool',
             'case-flip', 'numeric-suffix']


def renaming(model, kind: str, r: random.Random) -> dict:
    """a bijection old name -> new name over ALL parameters of the model"""
    names = sorted(model['betas'])
    K = len(names)
    if kind == 'reverse-sorted':
        # the same set of names, sorted order reversed: i-th smallest <-> i-th largest
        return {n: names[K - 1 - k] for k, n in enumerate(names)}
    if kind == 'rotate-sorted':
        s = r.randint(1, max(1, K - 1))
        return {n: names[(k + s) % K] for k, n in enumerate(names)}
    if kind == 'scramble-same-set':
        perm = names[:]
        for _ in range(10):
            r.shuffle(perm)
            if perm != names:
                break
        return dict(zip(names, perm))
    if kind == 'prefix-reversing':
        # zz_<rank reversed>_<old>: sorted order of the new names is the reverse of the old one
        return {n: f'p{K - 1 - k:02d}_{n}' for k, n in enumerate(names)}
    if kind == 'prefix-scramble':
        ranks = list(range(K))
        r.shuffle(ranks)
        return {n: f'{"QZaz"[ranks[k] % 4]}{ranks[k]:02d}{n}' for k, n in enumerate(names)}
    if kind == 'fresh-pool':
        pool = []
        for p in NAME_POOLS:
            pool += p
        pool = [p for p in dict.fromkeys(pool) if p not in names]
        r.shuffle(pool)
        return dict(zip(names, pool[:K]))
    if kind == 'case-flip':
        out = {}
        used = set()
        for n in names:
            m = n.swapcase()
            if m == n or m in used or (m in names):
                m = 'X' + n + '_x'
            used.add(m)
            out[n] = m
        return out
    if kind == 'numeric-suffix':
        # b2 < b10 numerically but 'b10' < 'b2' alphabetically
        nums = r.sample([1, 2, 3, 10, 11, 20, 100, 21, 9, 19], K)
        return {n: f'c{nums[k]}' for k, n in enumerate(names)}
    raise ValueError(kind)


def spec_for_build(model, ast, one_beta_object=False):
    return {'ast': ast, 'shared': [], 'data': model['data'], 'betas': model['betas'],
            'bounds': {k: tuple(v) for k, v in model['bounds'].items()}, 'one_beta_object': one_beta_object}


def free_names(model):
    return sorted(n for n, v in model['betas'].items() if v[1] == 0)


def fixed_names(model):
    return sorted(n for n, v in model['betas'].items() if v[1] != 0)


def used_names(model, order=None):
    return set(appearance_order(model, order))
