"""Seeded workload for C17: JSON-able case specifications (no biogeme objects).

Every generator is a pure function of (seed, i); the worker regenerates the
specification from the small descriptor it receives.
"""
from __future__ import annotations

import itertools
import math
import random

import numpy as np

SWITCH = 1.0e-5  # documented switching point of the Box-Cox series expansion


def _rng(fam, seed, i):
    return random.Random(f'c17-{fam}-{seed}-{i}')


# --------------------------------------------------------------------------
# piecewise
# --------------------------------------------------------------------------
def gen_pw(seed, i):
    r = _rng('pw', seed, i)
    k = r.choice([2, 3, 3, 3, 4, 4, 5, 5, 6])
    integer = r.random() < 0.4
    if integer:
        gaps = [r.randint(1, 6) for _ in range(k - 1)]
    else:
        gaps = [round(r.uniform(0.05, 6.0), 3) for _ in range(k - 1)]
    start_mode = ('neg', 'zero', 'pos')[i % 3]
    if start_mode == 'zero':
        t0 = 0
    elif integer:
        t0 = r.randint(1, 9) * (-1 if start_mode == 'neg' else 1)
    else:
        t0 = round(r.uniform(0.1, 9.0), 3) * (-1 if start_mode == 'neg' else 1)
    th = [t0]
    for g in gaps:
        th.append(round(th[-1] + g, 3) if not integer else th[-1] + g)
    finite = list(th)
    open_first = r.random() < 0.25
    open_last = r.random() < 0.25
    if k == 2 and open_first and open_last:
        open_last = False
    if open_first:
        th[0] = None
    if open_last:
        th[-1] = None
    betas = [round(r.uniform(-2.5, 2.5), 3) for _ in range(k - 1)]
    if r.random() < 0.2:
        betas[r.randrange(k - 1)] = 0.0
    beta_kinds = [r.choice(['free', 'free', 'fixed', 'numeric', 'float']) for _ in range(k - 1)]
    name = r.choice(['x', 'TRAIN_TT', 'cost', 'dist_km'])
    return {
        'fam': 'pw',
        'thresholds': th,
        'finite': finite,
        'betas': betas,
        'beta_kinds': beta_kinds,
        'var': name,
        'var_as_string': r.random() < 0.5,
        'grid_seed': r.randrange(1 << 30),
        'npoints': 400,
    }


def pw_grid(spec):
    fin = [float(t) for t in spec['finite']]
    lo, hi = min(fin), max(fin)
    rs = np.random.default_rng(spec['grid_seed'])
    pts = [0.0, 1e-9, -1e-9]
    for t in fin:
        pts += [t, t + 1e-9, t - 1e-9, float(np.nextafter(t, np.inf)), float(np.nextafter(t, -np.inf))]
    n = spec.get('npoints', 400)
    nlin = max(2, (n - len(pts)) * 3 // 4)
    pts += list(np.linspace(lo - 3.3, hi + 3.7, nlin))
    rest = max(0, n - len(pts))
    pts += list(rs.uniform(lo - 10.0, hi + 10.0, rest))
    return np.array(pts, dtype=float)


# --------------------------------------------------------------------------
# Box-Cox
# --------------------------------------------------------------------------
def ell_grid(r):
    f = 10 ** r.uniform(0, 0.2)  # jitter: every case has its own grid
    pos = [f * v for v in np.logspace(-12, -4, 40)]
    pos = [v for v in pos if abs(v - SWITCH) > 1e-9]
    pos += [0.1, 0.25, 0.5, 1.0, 1.5, 2.0, 3.0, round(r.uniform(0.01, 3.0), 4)]
    below = float(np.nextafter(SWITCH, 0.0))
    above = float(np.nextafter(SWITCH, 1.0))
    pos += [below, SWITCH, above, 0.99e-5, 1.01e-5, 0.5e-5, 2e-5]
    pos = sorted(set(float(v) for v in pos))
    return [0.0] + pos + [-v for v in pos]


def gen_bc(seed, i):
    r = _rng('bc', seed, i)
    xs = [float(f'{10 ** r.uniform(-3, 4):.6g}') for _ in range(10)] + [1.0, round(math.e, 6)]
    kind = ('variable', 'beta_override', 'beta_init', 'float', 'numeric')[i % 5]
    ells = ell_grid(r)
    if kind != 'variable':
        # one expression / evaluation per parameter value: a subset, the switch neighbours always kept
        near = [v for v in ells if 0.4e-5 <= abs(v) <= 2.1e-5 or v == 0.0]
        others = [v for v in ells if v not in near]
        # keep +/- pairs together (symmetry monitor)
        mags = sorted({abs(v) for v in others})
        pick = r.sample(mags, 14)
        ells = near + [s * m for m in pick for s in (1, -1)]
    return {'fam': 'bc', 'xs': xs, 'ells': ells, 'kind': kind, 'x_col': r.choice(['x', 'TT', 'income'])}


# --------------------------------------------------------------------------
# distributions and regression likelihood
# --------------------------------------------------------------------------
DIST_HELPERS = ['normalpdf', 'lognormalpdf', 'uniformpdf', 'triangularpdf', 'logisticcdf', 'loglikelihoodregression', 'likelihoodregression']
PARAM_KINDS = ['float', 'numeric', 'beta_fixed', 'beta_free', 'variable']


def _sig(r, lo=-3, hi=3):
    return float(f'{10 ** r.uniform(lo, hi):.6g}')


def gen_dist(seed, i):
    r = _rng('dist', seed, i)
    helper = DIST_HELPERS[i % len(DIST_HELPERS)]

    def draw(h):
        if h in ('normalpdf', 'logisticcdf', 'loglikelihoodregression', 'likelihoodregression'):
            return {'mu': round(r.uniform(-50, 50), 4), 's': _sig(r)}
        if h == 'lognormalpdf':
            return {'mu': round(r.uniform(-3, 3), 4), 's': _sig(r, -3, 0.45)}
        a = round(r.uniform(-100, 100), 4)
        w = _sig(r)
        b = float(f'{a + w:.10g}')
        if h == 'uniformpdf':
            return {'a': a, 'b': b}
        c = float(f'{a + (b - a) * r.uniform(0.02, 0.98):.10g}')
        if not (a < c < b):
            c = 0.5 * (a + b)
        return {'a': a, 'b': b, 'c': c}

    params = draw(helper)
    mode = 'override' if r.random() < 0.15 else 'mixed'
    if r.random() < 0.08:
        mode = 'defaults'  # call the helper with its default parameters
        if helper in ('normalpdf', 'lognormalpdf', 'logisticcdf'):
            params = {'mu': 0.0, 's': 1.0}
        elif helper == 'uniformpdf':
            params = {'a': -1.0, 'b': 1.0}
        elif helper == 'triangularpdf':
            params = {'a': -1.0, 'b': 1.0, 'c': 0.0}
        else:
            mode = 'mixed'
    kinds = {p: r.choice(PARAM_KINDS) for p in params}
    spec = {'fam': 'dist', 'helper': helper, 'params': params, 'mode': mode, 'kinds': kinds}
    if mode == 'override':
        spec['inits'] = draw(helper)
    return spec


# --------------------------------------------------------------------------
# segmentation
# --------------------------------------------------------------------------
CATS = ['male', 'female', 'young', 'adult', 'senior', 'low', 'mid', 'high', 'urban', 'rural', 'GA', 'noGA',
        'first', 'second', 'commuter', 'leisure', 'business', 'c1', 'c2', 'c3', 'c4']
SEGVARS = ['MALE', 'AGE_CAT', 'INCOME', 'GA', 'PURPOSE', 'zone']


def gen_seg(seed, i):
    r = _rng('seg', seed, i)
    nvar = r.choice([1, 1, 2, 2, 3])
    if r.random() < 0.04:
        nvar = 0
    cats = r.sample(CATS, len(CATS))
    share_names = r.random() < 0.1
    segs = []
    for v in r.sample(SEGVARS, nvar):
        n = r.choice([2, 2, 3, 4])
        if r.random() < 0.04:
            n = 1
        keyspace = r.choice([list(range(0, 8)), list(range(1, 9)), [-2, -1, 0, 1, 3, 5, 10, 99]])
        keys = r.sample(keyspace, n)
        if share_names and segs:
            names = [segs[0]['mapping'][0][1]] + [cats.pop() for _ in range(n - 1)]
            r.shuffle(names)
        else:
            names = [cats.pop() for _ in range(n)]
        ref_mode = r.choice(['none', 'given', 'given'])
        reference = None if ref_mode == 'none' else r.choice(names)
        segs.append({'var': v, 'mapping': [[k, c] for k, c in zip(keys, names)], 'reference_arg': reference,
                     'reference': names[0] if reference is None else reference, 'var_as_string': r.random() < 0.5})
    status = 0 if r.random() < 0.8 else 1
    bounds = r.choice([[None, None], [None, None], [-10, 10], [None, 0], [0, None]])
    init = round(r.uniform(-3, 3), 3)
    if bounds[0] is not None:
        init = max(init, bounds[0])
    if bounds[1] is not None:
        init = min(init, bounds[1])
    return {
        'fam': 'seg',
        'beta': {'name': r.choice(['B_TIME', 'ASC_CAR', 'beta', 'b_cost']), 'init': init, 'lb': bounds[0], 'ub': bounds[1], 'status': status},
        'segs': segs,
        'prefix': r.choice(['segmented', 'segmented', 'seg', 'my_prefix']),
        'via_function': r.random() < 0.3,
        'value_seed': r.randrange(1 << 30),
    }


def seg_rows(spec):
    """every combination of segments, shuffled"""
    if not spec['segs']:
        return [{'dummy': 1.0}, {'dummy': 2.0}]
    combos = list(itertools.product(*[[m[0] for m in s['mapping']] for s in spec['segs']]))
    random.Random(spec['value_seed']).shuffle(combos)
    return [{s['var']: c for s, c in zip(spec['segs'], combo)} for combo in combos]


# --------------------------------------------------------------------------
# nested logit correlation
# --------------------------------------------------------------------------
def gen_nest(seed, i):
    r = _rng('nest', seed, i)
    n = r.randint(3, 8)
    choice_set = r.sample(list(range(0, 21)), n)
    pool = list(choice_set)
    r.shuffle(pool)
    n_alone = r.choice([0, 0, 1, 2]) if n > 3 else 0
    alone = [pool.pop() for _ in range(n_alone)]
    n_nests = r.randint(1, min(3, len(pool)))
    nests = [[pool.pop()] for _ in range(n_nests)]
    while pool:
        r.choice(nests).append(pool.pop())
    out = []
    for k, alts in enumerate(nests):
        kind = r.choice(['float', 'numeric', 'beta', 'beta_param', 'expr'])
        mu_m = round(r.uniform(1.0, 6.0), 3)
        d = {'alts': alts, 'kind': kind, 'mu_m': mu_m, 'name': r.choice([None, f'nest{k}'])}
        if kind == 'beta_param':
            d['init'] = round(r.uniform(1.0, 6.0), 3)
        if kind == 'expr':
            d['b'] = round(r.uniform(-2, 1.5), 3)  # nest parameter = 1 + exp(b)
            d['mu_m'] = 1.0 + math.exp(d['b'])
            d['via_param'] = r.random() < 0.5
            d['init'] = round(r.uniform(-2, 1.5), 3)
        out.append(d)
    names_mode = r.choice(['none', 'none', 'ordered', 'shuffled'])
    labels = ['car', 'bus', 'train', 'walk', 'bike', 'sm', 'air', 'boat']
    r.shuffle(labels)
    name_of = {a: labels[j] for j, a in enumerate(choice_set)}
    order = list(choice_set)
    if names_mode == 'shuffled':
        r.shuffle(order)
        if order == list(choice_set):
            order = order[1:] + order[:1]
    return {
        'fam': 'nest',
        'choice_set': choice_set,
        'alone': alone,
        'nests': out,
        'syntax': r.choice(['new', 'new', 'old']),
        'mu': 1.0 if r.random() < 0.7 else round(r.uniform(0.3, 1.0), 3),
        'names_mode': names_mode,
        'names': [[a, name_of[a]] for a in order] if names_mode != 'none' else None,
    }


# --------------------------------------------------------------------------
# directed cases: the shapes on which the unchanged tree breaks the property
# (run in both tiers so that every recorded finding is reproduced each run)
# plus their nearest healthy neighbours.
# --------------------------------------------------------------------------
def directed():
    below = float(np.nextafter(SWITCH, 0.0))
    pw = {'fam': 'pw', 'betas': [0.3, 0.6], 'beta_kinds': ['free', 'free'], 'var': 'x', 'var_as_string': True,
          'grid_seed': 1, 'npoints': 120}
    out = [
        dict(pw, thresholds=[1, 2, 5], finite=[1, 2, 5], directed='pw-nonzero-first-threshold'),
        dict(pw, thresholds=[0, 2, 5], finite=[0, 2, 5], directed='pw-zero-first-threshold'),
        dict(pw, thresholds=[1, 5], finite=[1, 5], betas=[0.3], beta_kinds=['free'], directed='pw-two-thresholds'),
        dict(pw, thresholds=[None, 5], finite=[5], betas=[0.3], beta_kinds=['free'], directed='pw-two-thresholds-open-start'),
        dict(pw, thresholds=[2, None], finite=[2], betas=[0.3], beta_kinds=['free'], directed='pw-two-thresholds-open-end'),
        dict(pw, thresholds=[None, 2, 5, None], finite=[2, 5], betas=[0.3, 0.6, -0.4], beta_kinds=['free', 'fixed', 'float'],
             directed='pw-both-ends-open'),
        {'fam': 'bc', 'xs': [0.01, 0.5, 1.0, 7.0, 100.0, 1e4], 'kind': 'beta_override', 'x_col': 'x',
         'ells': [0.0, 5e-6, -5e-6, 1e-7, -1e-7, below, -below, SWITCH, -SWITCH, 2e-5, -2e-5, 0.5, -0.5],
         'directed': 'boxcox-switch'},
        {'fam': 'dist', 'helper': 'normalpdf', 'params': {'mu': 1.0, 's': 2.0}, 'mode': 'mixed',
         'kinds': {'mu': 'float', 's': 'variable'}, 'directed': 'normalpdf-scale-from-data'},
        {'fam': 'dist', 'helper': 'uniformpdf', 'params': {'a': -1.0, 'b': 3.0}, 'mode': 'mixed',
         'kinds': {'a': 'variable', 'b': 'float'}, 'directed': 'uniformpdf-bound-from-data'},
        {'fam': 'dist', 'helper': 'lognormalpdf', 'params': {'mu': 0.5, 's': 0.7}, 'mode': 'mixed',
         'kinds': {'mu': 'variable', 's': 'variable'}, 'directed': 'lognormalpdf-parameters-from-data'},
        {'fam': 'nest', 'choice_set': [3, 1, 2, 4], 'alone': [],
         'nests': [{'alts': [1, 2], 'kind': 'beta', 'mu_m': 1.5, 'name': 'n1'}, {'alts': [3, 4], 'kind': 'float', 'mu_m': 2.0, 'name': None}],
         'syntax': 'new', 'mu': 1.0, 'names_mode': 'shuffled', 'names': [[1, 'car'], [2, 'bus'], [3, 'train'], [4, 'walk']],
         'directed': 'nest-names-in-another-order'},
        {'fam': 'nest', 'choice_set': [3, 1, 2, 4], 'alone': [],
         'nests': [{'alts': [1, 2], 'kind': 'beta', 'mu_m': 1.5, 'name': 'n1'}, {'alts': [3, 4], 'kind': 'float', 'mu_m': 2.0, 'name': None}],
         'syntax': 'new', 'mu': 1.0, 'names_mode': 'ordered', 'names': [[3, 'train'], [1, 'car'], [2, 'bus'], [4, 'walk']],
         'directed': 'nest-names-in-choice-set-order'},
    ]
    return out
