"""C07 workload: seeded concave estimation problems (multinomial logit with
linear-in-parameter utilities; normal linear regression with fixed scale),
bound configurations placed relative to the unconstrained optimum, starting
points, and the construction of the REAL biogeme objects from a spec.

make_problem() imports nothing from biogeme; build() does.
"""
from __future__ import annotations

import numpy as np

NAME_POOL = ['ASC_CAR', 'ASC_TRAIN', 'B_TIME', 'B_COST', 'B_HE', 'beta_inc', 'a_dist', 'Zeta', 'mu_x', 'B_TIME_2',
             'ASC_SM', 'gamma', 'B', 'b', 'theta_10', 'theta_9', 'Kappa', 'lambda_']

BOUND_CONFIGS = ['none', 'inactive', 'active', 'onesided_inactive', 'onesided_active', 'multi_active']
START_MODES = ['default', 'random', 'random', 'at_bound', 'at_optimum']


def util_is_asc(util, nm):
    return any(par == nm and col is None for terms in util.values() for par, col, _ in terms)


def make_problem(seed, i, K=None, family=None):
    rng = np.random.default_rng([int(seed), int(i), 707])
    family = family or ('logit' if rng.random() < 0.75 else 'normal')
    N = int(rng.integers(50, 501))
    K = int(K or rng.integers(1, 6))
    names = [str(x) for x in rng.permutation(NAME_POOL)]
    free = names[:K]
    params = {}
    data = {}
    weight = None
    if rng.random() < 0.4:
        w = rng.uniform(0.3, 2.0, N)
        data['W'] = np.round(w * N / w.sum(), 6)
        weight = 'W'
    truth = {}

    def new_col(name, s):
        data[name] = np.round(rng.normal(0, s, N), 4)
        return name

    if family == 'logit':
        J = int(rng.integers(2, 5))
        alts = [str(a) for a in range(1, J + 1)]
        util = {a: [] for a in alts}
        n_asc = 0
        for t, nm in enumerate(free):
            s = float(rng.choice([0.3, 1.0, 1.0, 3.0, 10.0]))
            scale = float(rng.choice([1.0, 1.0, 1.0, 0.1, 0.01]))  # the column is stored as x/scale and multiplied back in the formula
            kind = rng.choice(['generic', 'generic', 'specific', 'asc'])
            if kind == 'asc' and n_asc < J - 1:
                util[alts[n_asc]].append([nm, None, 1.0])
                n_asc += 1
                truth[nm] = float(rng.uniform(-1.0, 1.0))
            elif kind == 'specific':
                a = alts[int(rng.integers(0, J))]
                util[a].append([nm, new_col(f'z{t}', s / scale), scale])
                truth[nm] = float(rng.uniform(-1.5, 1.5) / s)
            else:
                for a in alts:
                    util[a].append([nm, new_col(f'x{t}_{a}', s / scale), scale])
                truth[nm] = float(rng.uniform(-1.5, 1.5) / s)
            params[nm] = {'status': 0, 'value': 0.0, 'start': 0.0, 'lb': None, 'ub': None, 'typ': 1.0 if util_is_asc(util, nm) else 1.0 / s}
        # fixed parameters: a normalised constant at 0 and/or a fixed coefficient with a non-zero value
        if rng.random() < 0.5:
            nm = names[K]
            params[nm] = {'status': 1, 'value': 0.0, 'start': 0.0, 'lb': None, 'ub': None}
            util[alts[-1]].append([nm, None, 1.0])
        if rng.random() < 0.5:
            nm = names[K + 1]
            v = float(np.round(rng.uniform(-1, 1), 3))
            params[nm] = {'status': 1, 'value': v, 'start': v, 'lb': None, 'ub': None}
            a = alts[int(rng.integers(0, J))]
            util[a].append([nm, new_col('zf', 1.0), 1.0])
            truth[nm] = v
        avail = {a: None for a in alts}
        av = np.ones((N, J), dtype=int)
        if J >= 3 and rng.random() < 0.35:
            av = (rng.random((N, J)) < 0.8).astype(int)
            av[np.arange(N), rng.integers(0, J, N)] = 1
            for k, a in enumerate(alts):
                data[f'AV{a}'] = av[:, k]
                avail[a] = f'AV{a}'
        V = np.zeros((N, J))
        for k, a in enumerate(alts):
            for par, col, scale in util[a]:
                c = 1.0 if col is None else data[col]
                V[:, k] += truth.get(par, 0.0) * c * scale
        V = np.where(av == 1, V, -np.inf)
        P = np.exp(V - V.max(axis=1, keepdims=True))
        P /= P.sum(axis=1, keepdims=True)
        u = rng.random(N)
        ch = (u[:, None] > np.cumsum(P, axis=1)).sum(axis=1)
        ch = np.minimum(ch, J - 1)
        # numerical edge: never choose an unavailable alternative
        bad = av[np.arange(N), ch] == 0
        ch[bad] = np.argmax(av[bad], axis=1)
        data['CHOICE'] = np.array([int(alts[c]) for c in ch])
        spec = {'family': 'logit', 'utilities': util, 'avail': avail}
    else:
        mean = []
        for t, nm in enumerate(free):
            s = float(rng.choice([0.3, 1.0, 1.0, 3.0]))
            scale = float(rng.choice([1.0, 1.0, 0.1]))
            if t == 0 and rng.random() < 0.5:
                mean.append([nm, None, 1.0])
            else:
                mean.append([nm, new_col(f'x{t}', s / scale), scale])
            truth[nm] = float(rng.uniform(-2, 2) / s)
            params[nm] = {'status': 0, 'value': 0.0, 'start': 0.0, 'lb': None, 'ub': None, 'typ': 1.0 if mean[-1][1] is None else 1.0 / s}
        if rng.random() < 0.4:
            nm = names[K + 1]
            v = float(np.round(rng.uniform(-1, 1), 3))
            params[nm] = {'status': 1, 'value': v, 'start': v, 'lb': None, 'ub': None}
            mean.append([nm, new_col('zf', 1.0), 1.0])
            truth[nm] = v
        sg = names[K]
        sv = float(rng.choice([0.5, 1.0, 2.0]))
        params[sg] = {'status': 1, 'value': sv, 'start': sv, 'lb': None, 'ub': None}
        mu = np.zeros(N)
        for par, col, scale in mean:
            mu += truth[par] * (1.0 if col is None else data[col]) * scale
        data['Y'] = np.round(mu + sv * rng.normal(0, 1, N), 4)
        spec = {'family': 'normal', 'mean': mean, 'sigma': sg}
    spec.update({'params': params, 'weight': weight, 'N': N, 'K': K,
                 'form': str(rng.choice(['library', 'library', 'library', 'handwritten'])),
                 'beta_objects': str(rng.choice(['shared', 'shared', 'shared', 'per_occurrence']))})
    return spec, data


def configure(spec, xu: dict, config: str, start_mode: str, rng):
    """Place the declared bounds relative to the unconstrained optimum xu (dict name->value)
    and choose starting values inside the bounds. Mutates spec['params']."""
    free = sorted(k for k, v in spec['params'].items() if v['status'] == 0)
    p = spec['params']

    def typ(k):
        return float(p[k].get('typ', 1.0))

    def width(k):
        return float(rng.uniform(1.0, 4.0)) * (abs(xu[k]) + 0.5 * typ(k))

    def cut(k):
        return float(rng.uniform(0.15, 0.8)) * (abs(xu[k]) + 0.3 * typ(k))

    for k in free:
        p[k]['lb'] = p[k]['ub'] = None
    if config == 'inactive':
        for k in free:
            if rng.random() < 0.8:
                p[k]['lb'] = round(xu[k] - width(k), 4)
                p[k]['ub'] = round(xu[k] + width(k), 4)
    elif config == 'onesided_inactive':
        for k in free:
            if rng.random() < 0.7:
                if rng.random() < 0.5:
                    p[k]['lb'] = round(xu[k] - width(k), 4)
                else:
                    p[k]['ub'] = round(xu[k] + width(k), 4)
    elif config in ('active', 'onesided_active', 'multi_active'):
        nact = 1 if config != 'multi_active' else min(len(free), 2 + int(rng.integers(0, 2)))
        act = [str(x) for x in rng.permutation(free)[:nact]]
        for k in free:
            if k in act:
                if rng.random() < 0.5:
                    p[k]['ub'] = round(xu[k] - cut(k), 4)
                    if config != 'onesided_active':
                        p[k]['lb'] = round(p[k]['ub'] - width(k), 4)
                else:
                    p[k]['lb'] = round(xu[k] + cut(k), 4)
                    if config != 'onesided_active':
                        p[k]['ub'] = round(p[k]['lb'] + width(k), 4)
            elif config != 'onesided_active' and rng.random() < 0.5:
                p[k]['lb'] = round(xu[k] - width(k), 4)
                p[k]['ub'] = round(xu[k] + width(k), 4)
    # sign constraints: a good share of the declared bounds sit at exactly 0 (the commonest bound in practice),
    # as int or float, active (contrary to the data) or inactive. Own generator, derived from the problem.
    import hashlib

    rz = np.random.default_rng(int.from_bytes(hashlib.sha1(repr((sorted(xu.items()), config)).encode()).digest()[:4], 'little'))
    for k in free:
        if abs(xu[k]) <= 0.05 * typ(k) or rz.random() >= 0.4:
            continue
        zero = 0 if rz.random() < 0.5 else 0.0
        lb, ub = p[k]['lb'], p[k]['ub']
        if xu[k] > 0:
            if ub is not None and ub < xu[k] and (lb is None or lb < 0):
                p[k]['ub'] = zero  # active upper bound at 0
            elif lb is not None and lb < 0 and (ub is None or ub > xu[k]):
                p[k]['lb'] = zero  # inactive lower bound at 0
        else:
            if lb is not None and lb > xu[k] and (ub is None or ub > 0):
                p[k]['lb'] = zero  # active lower bound at 0
            elif ub is not None and ub > 0 and (lb is None or lb < xu[k]):
                p[k]['ub'] = zero  # inactive upper bound at 0
    # starting values
    for k in free:
        lo = p[k]['lb'] if p[k]['lb'] is not None else xu[k] - 2.0 * (abs(xu[k]) + 0.5 * typ(k))
        hi = p[k]['ub'] if p[k]['ub'] is not None else xu[k] + 2.0 * (abs(xu[k]) + 0.5 * typ(k))
        if start_mode == 'default':
            s = min(max(0.0, lo), hi)
        elif start_mode == 'at_bound' and (p[k]['lb'] is not None or p[k]['ub'] is not None):
            s = p[k]['lb'] if p[k]['lb'] is not None and (p[k]['ub'] is None or rng.random() < 0.5) else p[k]['ub']
        elif start_mode == 'at_optimum':
            s = min(max(round(xu[k], 6), lo), hi)
        else:
            s = round(float(rng.uniform(lo, hi)), 4)
        p[k]['start'] = float(s)
        p[k]['value'] = float(s)
    return spec


def build(spec, data):
    """Real biogeme objects for a spec. Returns (database, formulas, betas) where betas is the
    list of every Beta OBJECT created (a parameter may be represented by several objects)."""
    import pandas as pd
    import biogeme.database as bdb
    from biogeme import models
    from biogeme.expressions import Beta, Variable, log, exp, Numeric, bioMultSum, Elem

    p = spec['params']
    made = []
    shared = {}

    def beta(nm):
        if spec['beta_objects'] == 'shared' and nm in shared:
            return shared[nm]
        d = p[nm]
        v = d['start'] if d['status'] == 0 else d['value']
        b = Beta(nm, v, d['lb'], d['ub'], d['status'])
        made.append(b)
        shared[nm] = b
        return b

    def linear(terms):
        e = None
        for par, col, scale in terms:
            t = beta(par)
            if col is not None:
                t = t * Variable(col)
                if scale != 1.0:
                    t = t * Numeric(scale)
            e = t if e is None else e + t
        return Numeric(0) if e is None else e

    df = pd.DataFrame({k: np.asarray(v) for k, v in data.items()})
    db = bdb.Database('c07', df)
    if spec['family'] == 'logit':
        alts = sorted(spec['utilities'], key=int)
        V = {int(a): linear(spec['utilities'][a]) for a in alts}
        av = {int(a): (Variable(spec['avail'][a]) if spec['avail'][a] else Numeric(1)) for a in alts}
        if spec['form'] == 'library':
            ll = models.loglogit(V, av, Variable('CHOICE'))
        else:
            den = bioMultSum([av[a] * exp(V[a]) for a in V])
            ll = Elem(V, Variable('CHOICE')) - log(den)
    else:
        mu = linear(spec['mean'])
        sg = beta(spec['sigma'])
        r = (Variable('Y') - mu) / sg
        ll = -(r * r) / 2 - log(sg) - 0.9189385332046727
    formulas = {'log_like': ll}
    if spec['weight']:
        formulas['weight'] = Variable(spec['weight'])
    return db, formulas, made


DIRECTED = {
    # name: (description, runs)
    'capped_at_start': ('binary logit, 20000 rows, one coefficient declared in [-1, 1] and started at 0 (true value -0.5)',
                        [['automatic', 'estimate'], ['simple_bounds', 'estimate'], ['simple_bounds_newton', 'estimate'],
                         ['simple_bounds_BFGS', 'estimate'], ['simple_bounds', 'quick_estimate'], ['scipy', 'estimate'],
                         ['TR-newton', 'estimate']]),
    'nan_linesearch': ('hand-written binary logit log(exp(V_c)/sum exp(V)), 200 rows, one coefficient on attributes of standard '
                       'deviation 10, started at 0',
                       [['LS-BFGS', 'estimate'], ['LS-BFGS', 'quick_estimate'], ['simple_bounds', 'estimate'], ['scipy', 'estimate'],
                        ['LS-newton', 'estimate'], ['TR-newton', 'estimate'], ['TR-BFGS', 'estimate']]),
    'hessian_fallback': ('binary logit, 300 rows; FAULT INJECTION: the analytical Hessian of the final evaluation of estimate() is '
                         'replaced by NaN, the documented reaction is the finite-difference Hessian',
                         [['simple_bounds', 'estimate'], ['TR-newton', 'estimate'], ['scipy', 'estimate']]),
}


def directed_problem(name):
    """hand-made problems that reproduce the recorded findings at every run (independent of VERIF_SEED and of make_problem)"""
    if name == 'capped_at_start':
        rng = np.random.default_rng(0)
        N = 20000
        x1, x2 = np.round(rng.normal(0, 1, N), 4), np.round(rng.normal(0, 1, N), 4)
        ch = np.where(rng.random(N) < 1 / (1 + np.exp(0.5 * (x1 - x2))), 1, 2)
        par = {'B': {'status': 0, 'value': 0.0, 'start': 0.0, 'lb': -1.0, 'ub': 1.0, 'typ': 1.0}}
        form = 'library'
    elif name == 'nan_linesearch':
        rng = np.random.default_rng(0)
        N = 200
        x1, x2 = np.round(rng.normal(0, 10, N), 4), np.round(rng.normal(0, 10, N), 4)
        ch = np.where(rng.random(N) < 1 / (1 + np.exp(-0.1 * (x1 - x2))), 1, 2)
        par = {'B': {'status': 0, 'value': 0.0, 'start': 0.0, 'lb': None, 'ub': None, 'typ': 0.1}}
        form = 'handwritten'
    elif name == 'hessian_fallback':
        rng = np.random.default_rng(0)
        N = 300
        x1, x2 = np.round(rng.normal(0, 1, N), 4), np.round(rng.normal(0, 1, N), 4)
        ch = np.where(rng.random(N) < 1 / (1 + np.exp(0.5 * (x1 - x2))), 1, 2)
        par = {'B': {'status': 0, 'value': 0.0, 'start': 0.0, 'lb': None, 'ub': None, 'typ': 1.0}}
        form = 'library'
    else:  # pragma: no cover
        raise ValueError(name)
    spec = {'family': 'logit', 'utilities': {'1': [['B', 'x_1', 1.0]], '2': [['B', 'x_2', 1.0]]}, 'avail': {'1': None, '2': None},
            'params': par, 'weight': None, 'N': N, 'K': 1, 'form': form, 'beta_objects': 'shared'}
    return spec, {'x_1': x1, 'x_2': x2, 'CHOICE': ch}
