"""Seeded workload for C14 (what is written to disk reads back unchanged and
never overwrites earlier output).

* synthetic raw estimation outcomes pushed through the REAL RawResults /
  bioResults classes (a stub model exposes exactly what RawResults.__init__
  reads) -- names long / with '_' / not alphabetical / sharing a 10-character
  prefix, values over many magnitudes, active bounds, optional bootstrap;
* adversarially pre-populated scratch directories;
* histories of output-producing calls;
* small real logit models estimated by the real BIOGEME (html / pickle on);
* parameter sets: every parameter set to a value admissible for its own check
  functions.

Everything is regenerated from (seed, i); nothing here looks at the code under
test except to enumerate the parameters and their check functions (that is the
*domain* of the property, not its oracle).
"""
from __future__ import annotations

import datetime
import math
import os
import pickle
import random
import types

import numpy as np

NAME_POOL = [
    'b_time', 'ASC_CAR', 'zeta', 'B_COST', 'lambda_1', 'mu', 'Beta10', 'beta2', 'asc_train', 'Z_scale',
    'sigma_panel', 'a', 'B', 'b_long_name_with_many_parts_01', 'b_long_name_with_many_parts_02', 'theta', 'ALPHA',
    'kappa_3', 'b_wait', 'coefficient_of_travel_time_car', 'coefficient_of_travel_time_pt', 'x', 'ASC_SLOW_MODES_NO_BIKE',
    'exactly10c', 'exactly10cX', 'sixteen_chars_nm',
]

REPORT_EXT = ('html', 'pickle', 'tex', 'F12', 'dat')

SYN_OPS = ['write_html', 'write_html_all', 'write_latex', 'write_f12', 'write_f12_rc', 'write_pickle', 'dump_on_file',
           'backup_rename', 'backup_copy', 'recycle', 'default_biogeme']
REAL_OPS = ['estimate', 'estimate', 'recycle', 'write_html', 'write_latex', 'write_f12', 'write_pickle', 'dump_on_file',
            'validate', 'default_biogeme']


# ----------------------------------------------------------------------------
# synthetic results
# ----------------------------------------------------------------------------
def _magnitude_value(pr: random.Random) -> float:
    u = pr.random()
    if u < 0.55:
        v = pr.uniform(-5, 5)
    elif u < 0.70:
        v = pr.choice([-1, 1]) * 10 ** pr.uniform(3, 7)  # exponent notation in '.3g'
    elif u < 0.85:
        v = pr.choice([-1, 1]) * 10 ** pr.uniform(-9, -4)
    elif u < 0.90:
        v = 0.0
    elif u < 0.95:
        v = float(pr.choice([1, -1, 2, 10, 100, 1000, -3000, 2e-5, 0.5, 1e-4]))
    else:
        v = pr.choice([-1, 1]) * 10 ** pr.uniform(-2, 2)
    return float(v)


def make_raw(seed: int, i: int, tag: str = 'syn', force: dict | None = None) -> dict:
    force = force or {}
    pr = random.Random(f'c14-{tag}-{seed}-{i}')
    rng = np.random.default_rng([seed, i, 1414])
    k = force.get('K') or pr.choice([1, 2, 2, 2, 3, 3, 3, 4, 4, 5, 6, 8])
    names = force.get('names') or pr.sample(NAME_POOL, k)
    k = len(names)
    beta = np.array(force.get('beta') or [_magnitude_value(pr) for _ in range(k)], dtype=float)
    g = rng.normal(size=(k, k + 3))
    a = g @ g.T / (k + 3) + rng.uniform(0.05, 1.0) * np.eye(k)
    a = (a + a.T) / 2 * 10 ** rng.uniform(-1, 3)
    if pr.random() < 0.08 and k >= 2 and not force.get('regular'):
        a[1, :] = a[0, :]
        a[:, 1] = a[:, 0]
        a[1, 1] = a[0, 0]
        a[0, 1] = a[1, 0] = a[0, 0]  # singular second-derivative matrix
    h = -a
    s = rng.normal(size=(k, k + 2))
    bh = s @ s.T * 10 ** rng.uniform(-1, 2)
    bh = (bh + bh.T) / 2
    bounds = {}
    for j, n in enumerate(names):
        u = pr.random()
        if u < 0.70:
            bounds[n] = [None, None]
        elif u < 0.80:
            bounds[n] = [float(beta[j]), None]  # active lower bound
        elif u < 0.86:
            bounds[n] = [None, float(beta[j]) + 1e-7]  # numerically active upper bound
        else:
            bounds[n] = [float(beta[j]) - 1.5, float(beta[j]) + 5.0]
    if force.get('active_bound'):
        bounds[names[-1]] = [float(beta[-1]), None]
    L = -(10 ** pr.uniform(0, 5))
    L0 = L * (1 + 10 ** pr.uniform(-3, 0.7))
    Lnull = L * (1 + 10 ** pr.uniform(-2, 0.7)) if pr.random() < 0.6 else None
    n = int(pr.choice([5, 50, 300, 4000, 123457]) if pr.random() < 0.5 else pr.randint(3, 20000))
    panel = pr.random() < 0.3
    nobs = n * pr.randint(2, 9) if panel else n
    b = force.get('B', pr.choice([None, None, None, 2, 10, 40]))
    boot = None
    if b and k >= 2:  # a one-parameter bootstrap makes bioResults raise (np.cov returns a 0-d array): statistics, not C14
        scale = np.abs(beta) * 10 ** rng.uniform(-2, 0, size=k) + 10 ** rng.uniform(-3, 0, size=k)
        boot = beta[None, :] + rng.normal(size=(b, k)) * scale[None, :]
    grad = rng.normal(size=k) * 10 ** pr.uniform(-8, -2)
    notes = pr.choice([None, None, 'user notes with_underscore & symbols', 'calibration run 7'])
    return {
        'names': list(names), 'beta': beta, 'bounds': bounds, 'L': float(L), 'L0': float(L0),
        'Lnull': None if Lnull is None else float(Lnull), 'N': n, 'nobs': int(nobs), 'H': h, 'BHHH': bh,
        'bootstrap': boot, 'gradient': grad, 'K': k, 'as_list': pr.random() < 0.5,
        'model_name': force.get('model_name') or pr.choice(['m', 'model', 'my_model_01', 'Logit-base', 'b01.spec', 'long_model_name_' + 'x' * 20]),
        'notes': notes, 'threshold': pr.choice([1e-5, 1e-5, 1e-2, 10.0, 1e6]),
        'convergence': pr.random() < 0.85,
    }


def stub_model(raw: dict):
    """Object exposing exactly the attributes ``RawResults.__init__`` reads."""
    n, nobs = raw['N'], raw['nobs']
    bounds = raw['bounds']
    db = types.SimpleNamespace(
        name='synthetic_data', get_sample_size=lambda: n, get_number_of_observations=lambda: nobs, typesOfDraws={},
        excludedData=0,
    )
    return types.SimpleNamespace(
        modelName=raw['model_name'], user_notes=raw.get('notes'),
        id_manager=types.SimpleNamespace(free_betas=types.SimpleNamespace(names=list(raw['names']))),
        initLogLike=raw['L0'], nullLogLike=raw['Lnull'],
        get_bounds_on_beta=lambda name: tuple(bounds[name]), database=db, monte_carlo=False, number_of_draws=0,
        drawsProcessingTime=datetime.timedelta(0),
        optimizationMessages={'Algorithm': 'synthetic outcome', 'Relative projected gradient': 1.0e-7,
                              'Number of iterations': 11},
        convergence=raw.get('convergence', True), number_of_threads=1, bootstrap_time=datetime.timedelta(seconds=1),
    )


def build_results(raw: dict):
    """Push the raw outcome through the REAL RawResults / bioResults classes."""
    import biogeme.results as res
    from biogeme.function_output import BiogemeFunctionOutput

    beta = [float(x) for x in raw['beta']] if raw.get('as_list', True) else np.array(raw['beta'], dtype=float)
    fo = BiogemeFunctionOutput(
        function=raw['L'], gradient=np.array(raw['gradient'], dtype=float), hessian=np.array(raw['H'], dtype=float),
        bhhh=np.array(raw['BHHH'], dtype=float),
    )
    boot = None if raw['bootstrap'] is None else np.array(raw['bootstrap'], dtype=float)
    rr = res.RawResults(stub_model(raw), beta, fo, bootstrap=boot)
    return res.bioResults(rr, identification_threshold=raw.get('threshold', 1e-5))


# ----------------------------------------------------------------------------
# scratch directories
# ----------------------------------------------------------------------------
PREPOP_KINDS = ['empty', 'empty', 'base', 'base_and_00', 'run_0_5', 'gap_01', 'gap_base', 'many_120', 'foreign', 'run_0_12']


def version_name(model: str, ext: str, v: int) -> str:
    """v = -1 -> model.ext ; v >= 0 -> model~vv.ext (the documented naming)"""
    return f'{model}.{ext}' if v < 0 else f'{model}~{v:02d}.{ext}'


def prepop_versions(kind: str) -> list[int]:
    return {
        'empty': [], 'base': [-1], 'base_and_00': [-1, 0], 'run_0_5': [-1, 0, 1, 2, 3, 4, 5],
        'run_0_12': list(range(-1, 13)), 'gap_01': [-1, 0, 2, 3], 'gap_base': [0, 1],
        'many_120': list(range(-1, 119)), 'foreign': [],
    }[kind]


def has_gap(versions: list[int]) -> bool:
    vs = sorted(versions)
    return vs != list(range(-1, len(vs) - 1))


def prepopulate(directory: str, model: str, kind: str, seed: int, i: int, exts=REPORT_EXT, stem_extra: list[str] | None = None):
    """Earlier output in the directory. Pickle files are genuine pickles of
    *other* raw results (so that a stale read is visible); the rest is text
    with a unique marker. Returns {file name: version}."""
    import biogeme.results as res

    import copy

    made = {}
    versions = prepop_versions(kind)
    stems = [model] + list(stem_extra or [])
    base = None
    for stem in stems:
        for ext in exts:
            vs = versions
            if kind == 'many_120' and ext not in ('pickle', 'html'):
                vs = prepop_versions('run_0_5')  # 120 versions only where they matter (keeps the snapshots cheap)
            for v in vs:
                fn = version_name(stem, ext, v)
                path = os.path.join(directory, fn)
                if ext == 'pickle' and stem == model:
                    # a genuine pickle of OTHER results: one real RawResults per directory, estimates shifted per version
                    if base is None:
                        raw = make_raw(seed, 100000 + 131 * i, tag='old', force={'model_name': model, 'regular': True})
                        base = build_results(raw)
                    d = copy.copy(base.data)
                    shift = float(v + 2)
                    d.betaValues = [float(b) + shift for b in base.data.betaValues]
                    d.betas = [res.Beta(b.name, float(b.value) + shift, (b.lb, b.ub)) for b in base.data.betas]
                    d.logLike = float(base.data.logLike) - shift
                    d.pickleFileName = fn
                    with open(path, 'wb') as f:
                        pickle.dump(d, f)
                else:
                    with open(path, 'w') as f:
                        f.write(f'EARLIER OUTPUT {fn} seed={seed} case={i}\n')
                made[fn] = v
    if kind == 'foreign':
        # files of other models whose names resemble this one
        for fn in (f'{model}_old.html', f'{model}2.html', f'x{model}.pickle.bak', f'{model}.html.txt', f'{model}~aa.txt'):
            with open(os.path.join(directory, fn), 'w') as f:
                f.write('FOREIGN ' + fn)
            made[fn] = None
    return made


def make_history(seed: int, i: int, real: bool = False, tier: str = 'quick') -> dict:
    pr = random.Random(f'c14-hist-{seed}-{i}-{int(real)}')
    kinds = PREPOP_KINDS if not real else ['empty', 'empty', 'base', 'base_and_00', 'run_0_5', 'gap_01']
    kind = pr.choice(kinds)
    if kind == 'many_120' and pr.random() < 0.5:
        kind = 'run_0_12'
    n = pr.randint(1, 12) if not real else pr.randint(2, 6)
    pool = REAL_OPS if real else SYN_OPS
    ops = [pr.choice(pool) for _ in range(n)]
    if real:
        ops[0] = 'estimate'
        # at most one validate (it is the expensive call)
        seen = False
        for j, o in enumerate(ops):
            if o == 'validate':
                if seen:
                    ops[j] = 'write_html'
                seen = True
    # a biogeme.toml written by the user before the history starts (must be read, never replaced)
    return {'prepop': kind, 'ops': ops, 'user_toml': pr.random() < 0.4}


def make_user_toml_values(seed: int, i: int) -> dict:
    """{(name, section): value} of a user-written biogeme.toml that a default BIOGEME construction can digest
    (the random seed and the thread count stay harmless; everything else varies)"""
    pr = random.Random(f'c14-usertoml-{seed}-{i}')
    import biogeme.optimization as opt

    v = {
        ('number_of_threads', 'MultiThreading'): 1,
        ('save_iterations', 'Estimation'): False,
        ('generate_html', 'Output'): pr.random() < 0.5,
        ('generate_pickle', 'Output'): pr.random() < 0.5,
        ('only_robust_stats', 'Output'): pr.random() < 0.5,
        ('dogleg', 'TrustRegion'): pr.random() < 0.5,
        ('infeasible_cg', 'SimpleBounds'): pr.random() < 0.5,
        ('identification_threshold', 'Output'): 10 ** pr.uniform(-8, 2),
        ('optimization_algorithm', 'Estimation'): pr.choice(['automatic'] + list(opt.algorithms.keys())),
        ('bootstrap_samples', 'Estimation'): pr.randint(0, 500),
        ('max_iterations', 'SimpleBounds'): pr.randint(50, 5000),
        ('tolerance', 'SimpleBounds'): 10 ** pr.uniform(-8, -3),
        ('steptol', 'SimpleBounds'): 10 ** pr.uniform(-9, -2),
        ('second_derivatives', 'SimpleBounds'): pr.choice([0, 1, 0.0, 1.0, pr.random()]),
        ('missing_data', 'Specification'): pr.choice([99999, -1, 0, 123456789, -99999.5]),
        ('number_of_draws', 'MonteCarlo'): pr.randint(1, 5000),
        ('seed', 'MonteCarlo'): pr.choice([0, 0, pr.randint(1, 2 ** 31 - 1)]),
    }
    if pr.random() < 0.5:  # a user file need not mention every parameter
        keep = [k for k in v if pr.random() < 0.6 or k[0] in ('number_of_threads', 'save_iterations')]
        v = {k: v[k] for k in keep}
    return v


# ----------------------------------------------------------------------------
# real models
# ----------------------------------------------------------------------------
def make_real(seed: int, i: int) -> dict:
    pr = random.Random(f'c14-real-{seed}-{i}')
    return {
        'kind': pr.choice(['mnl', 'mnl', 'mnl_bounds', 'one_parameter', 'long_names']),
        'n': pr.randint(40, 120), 'seed': pr.randrange(2 ** 31), 'bootstrap': pr.choice([0, 0, 0, 4]),  # ignored for one_parameter
        'model_name': pr.choice(['real_model', 'm', 'logit_A~b', 'spec.v2']),
        'only_robust': pr.random() < 0.6, 'threshold': pr.choice([1e-5, 1e-5, 1e3]),
    }


def real_dataframe(spec: dict):
    import pandas as pd

    rng = np.random.default_rng(spec['seed'])
    n = spec['n']
    x = rng.normal(size=(n, 3))
    c = rng.uniform(0.5, 3.0, size=(n, 3))
    u = -0.8 * x + -0.5 * c + np.array([0.0, 0.4, -0.3])[None, :] + rng.gumbel(size=(n, 3))
    ch = np.argmax(u, axis=1) + 1
    d = {'choice': ch.astype(float)}
    for a in range(3):
        d[f'x{a + 1}'] = x[:, a]
        d[f'c{a + 1}'] = c[:, a]
    return pd.DataFrame(d)


def build_real(spec: dict):
    """Returns (BIOGEME object, database)."""
    import biogeme.database as db
    from biogeme import models
    from biogeme.biogeme import BIOGEME
    from biogeme.expressions import Beta, Variable
    from biogeme.parameters import Parameters

    df = real_dataframe(spec)
    database = db.Database('c14_real_data', df)
    kind = spec['kind']
    if kind == 'one_parameter':
        spec['bootstrap'] = 0  # bootstrap statistics of a one-parameter model raise IndexError (np.cov 0-d): not C14's subject
    long = kind == 'long_names'
    b_time = Beta('coefficient_of_travel_time_car' if long else 'b_time', 0, None, None, 0)
    b_cost = Beta('coefficient_of_travel_cost' if long else 'B_COST', 0, -0.2 if kind == 'mnl_bounds' else None, None, 0)
    asc2 = Beta('zz_asc_2', 0, None, None, 0)
    asc3 = Beta('ASC_3', 0, None, None, 0)
    if kind == 'one_parameter':
        v = {a: b_time * Variable(f'x{a}') for a in (1, 2, 3)}
    else:
        v = {
            1: b_time * Variable('x1') + b_cost * Variable('c1'),
            2: asc2 + b_time * Variable('x2') + b_cost * Variable('c2'),
            3: asc3 + b_time * Variable('x3') + b_cost * Variable('c3'),
        }
    av = {1: 1, 2: 1, 3: 1}
    ll = models.loglogit(v, av, Variable('choice'))
    p = Parameters()
    p.set_value('bootstrap_samples', max(2, spec['bootstrap']), 'Estimation')
    p.set_value('generate_html', True, 'Output')
    p.set_value('generate_pickle', True, 'Output')
    p.set_value('only_robust_stats', bool(spec['only_robust']), 'Output')
    p.set_value('identification_threshold', float(spec['threshold']), 'Output')
    p.set_value('save_iterations', False, 'Estimation')
    p.set_value('number_of_threads', 1, 'MultiThreading')
    bg = BIOGEME(database, ll, parameters=p)
    bg.modelName = spec['model_name']
    return bg, database


def dump_dataframe(seed: int, i: int):
    import pandas as pd

    rng = np.random.default_rng([seed, i, 77])
    n = int(rng.integers(1, 9))
    return pd.DataFrame({
        'id': np.arange(1, n + 1), 'x': rng.normal(size=n) * 10 ** rng.uniform(-5, 5),
        'flag': rng.integers(0, 2, size=n), 'big': rng.integers(-2 ** 40, 2 ** 40, size=n),
    })


# ----------------------------------------------------------------------------
# parameter sets
# ----------------------------------------------------------------------------
FLOAT_SPECIALS = [0.0, -0.0, 1.0, 0.5, 1e-300, 5e-324, 1.7976931348623157e308, 1e22, 1e16, 1e15, 0.1 + 0.2, 1.0 / 3.0,
                  float('inf'), float('-inf'), float('nan'), -1.5, 123456789.12345679, 2.220446049250313e-16, 1e-7]
INT_SPECIALS = [0, 1, 2, 7, 100, 1000, 99999, -1, -99999, 2 ** 31 - 1, 2 ** 31, 2 ** 63 - 1, 2 ** 63, -2 ** 63, 10 ** 18, 10 ** 30]
STRINGS = ['3.2.14', '', 'x', 'a"b', 'back\\slash', 'hash # inside', "single'quote", 'unicode é ü 東', 'tab\there',
           'two\nlines', 'True', '0', '1e5', ' leading and trailing ', '[section]', 'key = "value"', "'''", '"""']


def _admissible(tuple_, value) -> bool:
    if tuple_.check is None:
        return True
    for chk in tuple_.check:
        try:
            ok, _ = chk(value)
        except Exception:
            return False
        if not ok:
            return False
    return True


def candidates(tuple_, pr: random.Random) -> list:
    """values of the parameter's declared type (ints also where floats are
    expected) that its own check functions admit"""
    t = tuple_.type
    if t is bool:
        c = [True, False]
    elif t is int:
        c = list(INT_SPECIALS) + [pr.randint(0, 10 ** 6), pr.randint(1, 50)]
        if tuple_.name == 'missing_data':  # documented as 'number'
            c += FLOAT_SPECIALS + [pr.uniform(-1e6, 1e6)]
    elif t is float:
        c = list(FLOAT_SPECIALS) + list(INT_SPECIALS) + [pr.random(), pr.uniform(0, 1), 10 ** pr.uniform(-12, 12),
                                                         -10 ** pr.uniform(-12, 12), float(np.finfo(np.float64).eps ** 0.25)]
    elif t is str:
        if tuple_.name == 'optimization_algorithm':
            import biogeme.optimization as opt

            c = ['automatic'] + list(opt.algorithms.keys())
        else:
            c = list(STRINGS)
    else:
        c = [tuple_.value]
    return [v for v in c if _admissible(tuple_, v)]


def make_parameter_values(seed: int, i: int, all_tuples) -> dict:
    """{(name, section): value}: every parameter gets an admissible value; a
    'sweep' index makes sure each special value of each parameter is used."""
    pr = random.Random(f'c14-par-{seed}-{i}')
    out = {}
    for t in all_tuples:
        c = candidates(t, pr)
        if not c:
            continue
        # deterministic sweep through the candidate list + random choice
        v = c[i % len(c)] if pr.random() < 0.5 else pr.choice(c)
        out[(t.name, t.section)] = v
    return out


def kind_of(v) -> str:
    if isinstance(v, bool):
        return 'bool'
    if isinstance(v, int):
        return 'int'
    if isinstance(v, float):
        return 'float'
    if isinstance(v, str):
        return 'str'
    return type(v).__name__


def same_value(a, b) -> bool:
    """same kind and same value (NaN equals NaN, the sign of zero counts)"""
    if kind_of(a) != kind_of(b):
        return False
    if isinstance(a, float):
        if math.isnan(a) or math.isnan(b):
            return math.isnan(a) and math.isnan(b)
        return float(a) == float(b) and math.copysign(1.0, a) == math.copysign(1.0, b)
    if isinstance(a, bool):
        return a is b or (bool(a) == bool(b) and type(b) is bool)
    if isinstance(a, int):
        return int(a) == int(b)
    return str(a) == str(b)
