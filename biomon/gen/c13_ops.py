"""C13 — seeded generator of tables and of operation sequences on a Database.

A table: 1-60 rows, real / positive / integer-coded / 0-1 columns with duplicated values
(and sometimes duplicated rows), a group column (individuals in consecutive blocks, blocks
not in ascending order; sometimes not consecutive at all), sometimes a column constant
inside each individual, integer or float dtypes, and an index that is not always 0..n-1
(offset, shuffled, with gaps, or with repeated labels as produced by pandas.concat).

Operations are produced one at a time from the state of the *shadow* table (the oracle's
model), so that every operation is meaningful on what the previous ones left; formulas and
conditions come from the C01 expression grammar (biomon.gen.exprs.Gen) over the columns that
exist at that moment, including columns added or scaled earlier in the sequence.
Every descriptor is a JSON-able dict; directed (scripted) sequences use the same format.
"""
from __future__ import annotations

import random

from . import exprs

_GROUP_NAMES = ['Person', 'hh_id', 'uid', 'Grp']
_CONST_NAMES = ['AgeOf', 'zone']
_NEW_NAMES = ['n_util', 'Xnew', 'a_new', 'zz9', 'K2', 'derived', 'm_1', 'B_col', 'w0', 'Ycol', 'e5', 'Qq']

SIZES = [1, 2, 2, 3, 3, 4, 5, 5, 6, 7, 8, 9, 10, 12, 14, 17, 20, 25, 33, 40, 50, 60]


class TableSpace:
    """duck-typed biomon.gen.exprs.Space over a table whose columns change"""

    def __init__(self, rng):
        self.rng = rng
        self.real, self.pos, self.key, self.av = [], [], [], []
        self.keysets = {}
        self.betas = {}
        self.group = None
        self.group2 = None
        self.const = []
        self.ints = []
        self.special = {}  # column name -> value class (see special_values); never used by the C01 grammar


# ---------------------------------------------------------------------------
# value classes that make "equal" and "close" different things

_SPECIAL_NAMES = ['code_L', 'near_f', 'tiny0', 'magn', 'seg_big', 'ZZ_id']
MAXMAG = 1e140  # the engine refuses operands beyond sqrt(DBL_MAX) ~ 1.3e154 in some operators
TWO53 = float(2 ** 53)


def special_values(r, kind):
    """the distinct values a column of that class draws from"""
    if kind in ('bigcode', 'bigcode_group'):
        base = r.choice([1e5, 1.2e6, 52000.0, 1e9, 1e12, 1e15, TWO53 - 4, TWO53, 1e17])
        offs = r.sample(range(0, 9), r.randint(2, 6))
        return [float(base + o) for o in offs]  # beyond 2**53 neighbours merge in float64: judged as stored
    if kind == 'nearfloat':
        return list(r.choice([[52000.0, 52000.4, 52000.5], [1.0, 1.0 + 1e-9, 1.0 + 2e-9, 1.0 - 1e-9], [0.1 + 0.2, 0.3, 0.30000001],
                              [-7.25, -7.25 - 1e-12, -7.25 + 1e-7], [1e8, 1e8 + 1e-3, 1e8 + 0.5]]))
    if kind == 'nearzero':
        return [0.0, -0.0, 1e-9, -1e-9, 3e-9, 1e-12, 1e-300][: r.randint(3, 7)]
    if kind == 'magnitude':
        return r.sample([1e120, -1e120, 1e-300, -2e-200, 1e100, 1.5, 3e-16, 6.02e23, -1e-9, 0.0], r.randint(3, 6))
    raise ValueError(kind)


def _close_to(r, v):
    """a number that is NOT v but within isclose-like tolerances of it"""
    import math

    c = r.random()
    if v == 0:
        return r.choice([1e-12, -1e-12, 1e-9, 1e-300])
    if c < 0.25:
        return v * (1 + 1e-9)
    if c < 0.45:
        return v + 1e-9
    if c < 0.65:
        return math.nextafter(v, math.inf)
    if c < 0.8:
        return math.nextafter(v, -math.inf)
    return v * (1 - 3e-6)


def literal_for(r, vals, which=None):
    """(number, 'present' | 'close' | 'far') relative to the values a column holds"""
    which = which or r.choices(['present', 'close', 'far'], [50, 35, 15])[0]
    v = r.choice(vals)
    if which == 'present':
        return v, which
    if which == 'close':
        x = _close_to(r, v)
        return (x, 'close') if x not in vals else (v, 'present')
    x = r.choice([v * 2 + 1, 99.0, -v - 3, 0.5])
    return (x, 'far') if x not in vals else (v, 'present')


def special_formula(r, sp, shadow, kind):
    """formulas made of table values, literals and single correctly rounded IEEE operations only: their value is
    determined bit for bit, so they are judged with exact equality (descriptor field 'exact')"""
    cols = [c for c in sp.special if c in shadow.cols]
    c = r.choice(cols)
    c2 = r.choice(cols)
    vals = shadow.col(c)
    lit = lambda: ['num', literal_for(r, vals)[0]]
    cmpop = lambda: r.choice(['eq', 'eq', 'ne', 'lt', 'le', 'gt', 'ge'])
    if kind == 'cond':
        k = r.random()
        if k < 0.6:
            ast = [cmpop(), ['var', c], lit()]
        elif k < 0.75 and c2 != c:
            ast = [cmpop(), ['var', c], ['var', c2]]
        elif k < 0.9:
            ast = ['mul', [cmpop(), ['var', c], lit()], ['var', c2]]  # zero, or the (tiny / huge / negative) value itself
        else:
            ast = ['sub', ['var', c], lit()]  # non-zero unless exactly equal
    else:
        k = r.random()
        if k < 0.2:
            ast = ['var', c]
        elif k < 0.45:
            ast = ['mul', ['var', c], ['num', r.choice([2.0, 0.5, -1.0, 1e-10, 1e10, 3.0, 0.1])]]
        elif k < 0.6:
            ast = ['add', ['var', c], lit()]
        elif k < 0.8:
            ast = ['sub', ['var', c], ['num', r.choice(vals)]]
        elif k < 0.9:
            ast = ['sub', ['var', c], ['var', c2]]
        else:
            ast = ['neg', ['var', c]]
    return {'ast': ast, 'shared': [], 'exact': True}


def make_table(seed, index, n=None):
    r = random.Random(f'c13/table/{seed}/{index}')
    sp = TableSpace(r)
    n = n or r.choice(SIZES)
    names = exprs._VAR_POOL[:]
    r.shuffle(names)
    data = {}
    coarse = r.random() < 0.5  # many duplicated values
    for _ in range(r.randint(1, 2)):
        c = names.pop()
        sp.real.append(c)
        data[c] = [round(r.uniform(-2, 2), 1 if coarse else 3) for _ in range(n)]
    c = names.pop()
    sp.pos.append(c)
    data[c] = [round(r.uniform(0.2, 3), 1 if coarse else 3) for _ in range(n)]
    for _ in range(r.randint(1, 2)):
        c = names.pop()
        ks = r.choice([[1, 2, 3], [0, 1], [-3, 0, 7, 12], [2, 5], [10, 20, 30, 40]])
        sp.key.append(c)
        sp.keysets[c] = list(ks)
        data[c] = [float(r.choice(ks)) for _ in range(n)]
    c = names.pop()
    sp.av.append(c)
    data[c] = [float(r.random() < 0.7) for _ in range(n)]
    # individuals: consecutive blocks, ids not ascending
    nind = r.randint(1, max(1, min(n, r.choice([2, 3, 5, 8, n]))))
    ids = r.sample([1, 2, 3, 4, 5, 6, 7, 8, 9, 11, 15, 20, 21, 33, 40, 57, 101, 250] + list(range(300, 300 + n)), nind)
    cuts = sorted(r.sample(range(1, n), nind - 1)) if nind > 1 else []
    sizes = [b - a for a, b in zip([0] + cuts, cuts + [n])]
    g = [float(i) for i, s in zip(ids, sizes) for _ in range(s)]
    sp.group = r.choice(_GROUP_NAMES)
    contiguous = True
    if r.random() < 0.15 and n > 2:
        r.shuffle(g)
        contiguous = None  # whatever comes out
    data[sp.group] = g
    if r.random() < 0.6:
        c = r.choice(_CONST_NAMES)
        per = {i: float(r.choice([18, 25, 40, 40, 63])) for i in ids}
        data[c] = [per[int(v)] for v in g]
        sp.const.append(c)
    # columns whose values are large neighbouring codes, nearly equal floats, (almost) zero, extreme magnitudes
    int_codes = []
    if r.random() < 0.45:
        snames = _SPECIAL_NAMES[:]
        r.shuffle(snames)
        for _ in range(r.randint(1, 2)):
            kind = r.choice(['bigcode', 'bigcode', 'bigcode_group', 'nearfloat', 'nearfloat', 'nearzero', 'magnitude'])
            c = snames.pop()
            vs = special_values(r, kind)
            if kind == 'bigcode_group':
                per = {i: r.choice(vs) for i in ids}
                if len(vs) >= len(ids) and r.random() < 0.7:  # one code per individual: can serve as panel column
                    per = dict(zip(ids, r.sample(vs, len(ids))))
                data[c] = [per[int(v)] for v in g]
            else:
                data[c] = [r.choice(vs) for _ in range(n)]
            sp.special[c] = kind
            if kind.startswith('bigcode') and max(vs) < TWO53 - 100 and r.random() < 0.5:
                int_codes.append(c)
    # duplicated full rows
    if n > 2 and r.random() < 0.3:
        for _ in range(r.randint(1, 2)):
            a, b = r.randrange(n), r.randrange(n)
            if data[sp.group][a] == data[sp.group][b]:
                for c in data:
                    data[c][b] = data[c][a]
    cols = list(data)
    r.shuffle(cols)
    data = {c: data[c] for c in cols}
    if r.random() < 0.5:
        sp.ints = [c for c in sp.key + sp.av + [sp.group] + sp.const if r.random() < 0.7]
    sp.ints = sp.ints + int_codes
    kind = r.choices(['range', 'offset', 'shuffled', 'gaps', 'dup'], [50, 10, 16, 15, 9])[0]
    if kind == 'range' or n == 1 and kind == 'dup':
        labels = list(range(n))
        kind = 'range'
    elif kind == 'offset':
        o = r.choice([1, 5, 100])
        labels = list(range(o, o + n))
    elif kind == 'shuffled':
        labels = list(range(n))
        r.shuffle(labels)
    elif kind == 'gaps':
        labels = sorted(r.sample(range(0, 3 * n + 2), n))
    else:  # what pd.concat([a, b, ...]) leaves: numbering restarts in each chunk
        nch = r.randint(2, min(4, n))
        cuts = sorted(r.sample(range(1, n), nch - 1))
        labels = [i for a, b in zip([0] + cuts, cuts + [n]) for i in range(b - a)]
    bn = exprs._BETA_POOL[:]
    r.shuffle(bn)
    used = set()
    for k in range(r.randint(1, 3)):
        while True:
            v = round(r.uniform(-1.5, 1.5), 3)
            if v != 0 and v not in used:
                used.add(v)
                break
        sp.betas[bn.pop()] = [v, 0 if k < 2 else 1]
    return {'cols': cols, 'data': data, 'labels': labels, 'index_kind': kind, 'ints': sp.ints}, sp


def frame(table):
    import numpy as np
    import pandas as pd

    df = pd.DataFrame({c: list(table['data'][c]) for c in table['cols']}, index=list(table['labels']))
    for c in table.get('ints', []):
        df[c] = df[c].astype(np.int64)
    return df


# ---------------------------------------------------------------------------
# formulas


def formula(r, sp, kind):
    """kind: 'real' | 'cond'.  returns {'ast', 'shared'}"""
    g = exprs.Gen(r, sp, max_depth=r.randint(1, 4), max_nodes=25, allow_logit=r.random() < 0.15)
    d = g.max_depth
    if kind == 'real':
        ast = g.real(d)
    else:
        c = r.random()
        if c < 0.5:
            ast = g.boolean(d)
        elif c < 0.72:  # zero or a (possibly negative) real number
            ast = ['mul', g.boolean(d - 1), r.choice([['var', r.choice(sp.real)], ['num', -1.0], ['neg', ['var', r.choice(sp.pos)]], ['num', 2.5]])]
        elif c < 0.8:
            ast = ['neg', g.boolean(d - 1)]
        elif c < 0.9:
            kc = r.choice(sp.key)
            ast = ['eq', ['var', kc], ['num', float(r.choice(sp.keysets[kc] + [99]))]]
        elif c < 0.97:
            ast = ['num', float(r.choice([0, 0, 0, 0, 0, 1])), 'raw']
        else:
            ast = g.real(d)
    return {'ast': ast, 'shared': g.shared}


# ---------------------------------------------------------------------------
# operations

WEIGHTS = {
    'remove': 16, 'add_column': 10, 'define_variable': 6, 'values': 3, 'scale_column': 9, 'panel': 9, 'split': 11,
    'sample': 6, 'sample_map': 7, 'extract_rows': 10, 'flat': 7, 'count': 7, 'dump': 2, 'segmentation': 5,
}


def next_op(r, sp, shadow, used_names, first=False, nframes=0, aliasing=False):
    """one operation descriptor for the current state; None when nothing applies.
    nframes: frames returned earlier that may become a Database; aliasing: several databases are alive
    (in-place operations are then preferred: they are the ones that would show shared memory)"""
    n = shadow.n()
    ops = dict(WEIGHTS)
    if nframes:
        ops['adopt'] = 6
    if aliasing:
        ops['scale_column'] = 30
        ops['remove'] = 18
        ops['add_column'] = 12
    if first and r.random() < 0.2:
        return {'op': 'panel', 'column': sp.group}
    if shadow.panel is None:
        ops['sample_map'] = 1  # refusal expected
        ops['flat'] = 1
    else:
        ops['panel'] = 3
        ops['sample_map'] = 14
        ops['flat'] = 12
    op = r.choices(list(ops), list(ops.values()))[0]
    if op == 'adopt':
        return {'op': 'adopt', 'which': r.randrange(nframes)}
    special = [c for c in sp.special if c in shadow.cols]
    use_special = bool(special) and r.random() < 0.45
    if op == 'remove':
        if use_special:
            return {'op': 'remove', **special_formula(r, sp, shadow, 'cond')}
        return {'op': 'remove', **formula(r, sp, 'cond')}
    if op == 'segmentation':
        c = r.choice(special * 2 + list(sp.key) + list(sp.const) + [sp.group])
        if c is None or c not in shadow.cols:
            return None
        vals = shadow.col(c)
        distinct = sorted(set(vals))
        if len(distinct) > 12:
            return None
        variant = r.choices(['exact', 'missing', 'extra_close', 'extra_far'], [65, 10, 18, 7])[0]
        keys = list(distinct)
        if variant == 'missing':
            if len(keys) < 2:
                variant = 'exact'
            else:
                keys.remove(r.choice(keys))
        elif variant in ('extra_close', 'extra_far'):
            x, what = literal_for(r, vals, 'close' if variant == 'extra_close' else 'far')
            if what == 'present':
                variant = 'exact'
            else:
                keys.append(x)
        r.shuffle(keys)
        return {'op': 'segmentation', 'column': c, 'keys': keys, 'variant': variant, 'int_keys': r.random() < 0.5}
    if use_special and op in ('add_column', 'define_variable', 'values'):
        d = {'op': op, **special_formula(r, sp, shadow, 'real')}
        if op != 'values':
            free = [x for x in _NEW_NAMES if x not in used_names and x not in shadow.cols]
            if not free:
                return None
            d['name'] = r.choice(free)
        return d
    if op in ('add_column', 'define_variable'):
        free = [x for x in _NEW_NAMES if x not in used_names and x not in shadow.cols]
        if not free:
            return None
        if r.random() < 0.05:
            return {'op': op, 'name': r.choice(shadow.cols), 'expect': 'ValueError', **formula(r, sp, 'real')}
        return {'op': op, 'name': r.choice(free), **formula(r, sp, 'real')}
    if op == 'values':
        return {'op': 'values', **formula(r, sp, 'real')}
    if op == 'scale_column':
        cands = sp.real + sp.pos + sp.key + sp.const + special * 2
        c = r.choice(cands)
        if c in sp.special:
            big = max(abs(v) for v in shadow.col(c))
            if c in sp.ints:
                s = r.choice([2, 3, 10, -1, 0.5, 1e-3])
            else:
                s = r.choice([2, 0.5, 3, 1e-10, 1e10, -1.0, 0.1, 7, 1e-3])
            if big * abs(s) > MAXMAG:
                s = 0.5
        elif c in sp.const:  # not used by formulas: any factor, also a float factor on an int64 column
            s = r.choice([0.5, 2, -1.0, 0.1, 3, 1 / 3])
        elif c in sp.key:
            s = r.choice([2, 3, 10])
        elif c in sp.pos:
            s = r.choice([0.5, 2.0, 10, 0.01, 3, 1 / 3, 100.0, 1.0, 2])
        else:
            s = r.choice([0.5, 2.0, -1.0, 10, 0.01, 3, 1 / 3, 1e-3, 100, -0.25, 2, -1])
        return {'op': 'scale_column', 'column': c, 'scale': s}
    if op == 'panel':
        cands = [sp.group] * 6 + list(sp.key) + list(sp.const) + [c for c in special if sp.special[c] == 'bigcode_group'] * 4 + special
        return {'op': 'panel', 'column': r.choice(cands)}
    if op == 'split':
        c = r.random()
        if c < 0.35:
            k = r.randint(2, max(2, n))
        elif c < 0.9:
            k = r.randint(2, max(2, min(n, 6)))
        else:
            k = r.choice([1, n + 1, n + 3])  # 1 is refused; more folds than rows leaves empty folds
        groups = None
        c = r.random()
        if shadow.panel is None:
            if c < 0.5:
                groups = r.choice([sp.group] * 3 + list(sp.key) + list(sp.const) + special * 2)
        elif c < 0.25:
            groups = shadow.panel
        elif c < 0.32:
            groups = r.choice([x for x in [sp.group] + sp.key + sp.const if x != shadow.panel] or [None])
        return {'op': 'split', 'k': k, 'groups': groups}
    if op == 'sample':
        return {'op': 'sample', 'size': r.choice([None, None, 1, n, 2 * n + 1, r.randint(1, 30)])}
    if op == 'sample_map':
        return {'op': 'sample_map', 'size': r.choice([None, None, 1, 3, r.randint(1, 30)])}
    if op == 'extract_rows':
        c = r.random()
        extra = {}
        seq = lambda: r.choice(['list', 'list', 'tuple', 'array'])
        if c < 0.3:
            a = r.randrange(n)
            b = r.randint(a + 1, n)
            pos = list(range(a, b))
            form = 'range'
        elif c < 0.42:
            a = r.randrange(n)
            rg = (a, r.randint(a + 1, n), r.choice([2, 3]))
            if r.random() < 0.3:
                rg = (n - 1, -1, -1)  # all rows, last first
            pos = list(range(*rg))
            form = 'srange'
            extra = {'range': list(rg)}
        elif c < 0.6:
            pos = sorted(r.sample(range(n), r.randint(1, n)))
            form = seq()
        elif c < 0.78:
            pos = [r.randrange(n) for _ in range(r.randint(1, min(2 * n, 30)))]  # repeats, any order
            form = seq()
        elif c < 0.9:
            pos = list(range(n))[::-1]
            form = seq()
        else:
            pos = [0, n]
            form = 'out'
        return {'op': 'extract_rows', 'positions': pos, 'form': form, 'switch': form != 'out' and r.random() < 0.4, **extra}
    if op == 'flat':
        ident = None
        if shadow.panel is not None and r.random() < 0.4:
            from ..oracle import c13_shadow as sh

            s = shadow.snapshot()
            groups = {}
            j = s['cols'].index(shadow.panel)
            for row in s['rows']:
                groups.setdefault(row[j], []).append(row)
            truly = [c for k, c in enumerate(s['cols']) if c != shadow.panel and all(all(x[k] == g[0][k] for x in g) for g in groups.values())]
            ident = r.sample(truly, r.randint(0, len(truly)))
        return {'op': 'flat', 'identical': ident}
    if op == 'count':
        c = r.choice(shadow.cols + special * 3)
        vals = shadow.col(c)
        v, what = literal_for(r, vals)  # a value the column holds / one very close to such a value / one far from all
        return {'op': 'count', 'column': c, 'value': v, 'asked': what}
    if op == 'dump':
        return {'op': 'dump'}
    return None


def after_add(sp, name, values, exact=False):
    """type a freshly added column so that later formulas can use it safely"""
    if not values:
        return
    if exact:  # derived from a special column: stays outside the C01 grammar
        if all(abs(v) <= MAXMAG for v in values):
            sp.special[name] = 'derived'
        return
    if all(0.2 <= v <= 30 for v in values):
        sp.pos.append(name)
    elif all(abs(v) <= 30 for v in values):
        sp.real.append(name)


def after_scale(sp, c, s, values):
    """keep the typing of the columns truthful after a scaling (formulas stay inside the regular domain)"""
    if c in sp.keysets:
        sp.keysets[c] = [k * s for k in sp.keysets[c]]
        return
    if c in sp.pos and not all(0.05 <= v <= 30 for v in values) and len(sp.pos) > 1:
        sp.pos.remove(c)
        if all(abs(v) <= 30 for v in values):
            sp.real.append(c)
    elif c in sp.real and not all(abs(v) <= 30 for v in values) and len(sp.real) > 1:
        sp.real.remove(c)
