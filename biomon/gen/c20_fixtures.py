"""C20 workload: seeded receivers and representative arguments.

The registry is keyed by the *replacement's* qualified name: one fixture serves
the old and the new name. A fixture is a function ``(W) -> [variant, ...]`` with
``variant = dict(label, recv=<receiver object or None>, args, kwargs, post=<callable|None>, state=[...])``.
``W`` is a seeded world (tables, formulas, an estimated model) built lazily.
"""
from __future__ import annotations

import random

from .. import env  # noqa: F401


def _np():
    import numpy as np

    return np


class World:
    def __init__(self, seed: int):
        self.seed = seed
        self.rng = random.Random(seed * 7919 + 13)
        self._cache = {}

    # -- tables -------------------------------------------------------------
    def frame(self):
        """small choice table, sorted panel ids (2-4 rows per individual)"""
        if 'frame' in self._cache:
            return self._cache['frame'].copy()
        import pandas as pd

        r = self.rng
        ids, k = [], 1
        n = r.randint(24, 36)
        while len(ids) < n:
            ids += [k] * r.randint(2, 4)
            k += 1
        ids = ids[:n]
        rows = []
        for i in range(n):
            av2 = 1 if r.random() < 0.8 else 0
            ch = r.choice([1, 2, 3] if av2 else [1, 3])
            rows.append({
                'id': ids[i],
                'x1': round(r.uniform(0.2, 3.0), 3),
                'x2': round(r.uniform(0.2, 3.0), 3),
                'big': round(r.uniform(100, 5000), 1),
                'seg': r.choice([1, 2, 3]),
                'av2': av2,
                'choice': ch,
                'w': round(r.uniform(0.5, 1.5), 2),
            })
        df = pd.DataFrame(rows)
        self._cache['frame'] = df
        return df.copy()

    def database(self, panel=False, name='c20db'):
        import biogeme.database as db

        d = db.Database(name, self.frame())
        if panel:
            d.panel('id')
        return d

    # -- formulas -----------------------------------------------------------
    def betas(self):
        from biogeme.expressions import Beta

        r = self.rng
        return {
            'b1': Beta('b1', round(r.uniform(-0.9, -0.1), 3), None, None, 0),
            'asc2': Beta('asc2', round(r.uniform(-0.5, 0.5), 3), -10, 10, 0),
            'asc3': Beta('asc3', round(r.uniform(-0.5, 0.5), 3), None, 5, 0),
            'fx': Beta('fx', round(r.uniform(0.5, 1.5), 3), None, None, 1),
        }

    def utilities(self):
        from biogeme.expressions import Variable

        b = self.betas()
        x1, x2, av2 = Variable('x1'), Variable('x2'), Variable('av2')
        V = {1: b['b1'] * x1, 2: b['asc2'] + b['b1'] * x2, 3: b['asc3'] + b['fx'] * 0.1}
        av = {1: 1, 2: av2, 3: 1}
        return V, av, Variable('choice'), b

    def logprob(self):
        from biogeme import models

        V, av, ch, b = self.utilities()
        return models.loglogit(V, av, ch), b

    def parameters(self, **over):
        from biogeme.parameters import Parameters

        p = Parameters()
        vals = {'number_of_threads': 1, 'generate_html': False, 'generate_pickle': False, 'save_iterations': False,
                'bootstrap_samples': 4, 'seed': 1, 'number_of_draws': 20}
        vals.update(over)
        sections = {'number_of_threads': 'MultiThreading', 'generate_html': 'Output', 'generate_pickle': 'Output',
                    'save_iterations': 'Estimation', 'bootstrap_samples': 'Estimation', 'seed': 'MonteCarlo',
                    'number_of_draws': 'MonteCarlo', 'missing_data': 'Specification'}
        for k, v in vals.items():
            p.set_value(k, v, sections[k])
        return p

    def biogeme(self, with_sim=False, weighted=False, **over):
        from biogeme.biogeme import BIOGEME
        from biogeme.expressions import exp, Variable

        lp, b = self.logprob()
        if with_sim:
            f = {'log_like': lp, 'prob': exp(lp), 'util': b['b1'] * Variable('x1')}
        elif weighted:
            f = {'log_like': lp, 'weight': Variable('w')}
        else:
            f = lp
        bg = BIOGEME(self.database(), f, parameters=self.parameters(**over))
        bg.modelName = 'c20model'
        return bg

    def results(self, bootstrap=True):
        key = ('results', bootstrap)
        if key not in self._cache:
            import warnings

            bg = self.biogeme()
            with warnings.catch_warnings():
                warnings.simplefilter('ignore')
                self._cache[key] = bg.estimate(run_bootstrap=bootstrap)
        return self._cache[key]

    def x0(self, bg):
        return [float(v) for v in bg.id_manager.free_betas_values]


# ---------------------------------------------------------------------------
# helpers used by post-processing
# ---------------------------------------------------------------------------

def eval_expr(W, panel=False):
    """post: evaluate a returned formula (or dict / list of formulas) on the world's table"""

    def post(res):
        from biogeme.expressions import Expression

        db = W.database(panel=panel)

        def one(e):
            if isinstance(e, Expression):
                return {'str': str(e), 'values': e.get_value_c(database=db, prepare_ids=True)}
            return e

        if isinstance(res, dict):
            return {k: one(v) for k, v in res.items()}
        if isinstance(res, (list, tuple)):
            return [one(v) for v in res]
        return one(res)

    return post


def V(label, recv=None, args=(), kwargs=None, post=None, state=None, files=None, on_class=False):
    return {'label': label, 'recv': recv, 'args': tuple(args), 'kwargs': dict(kwargs or {}), 'post': post,
            'state': state, 'files': files, 'on_class': on_class}


# ---------------------------------------------------------------------------
# function aliases
# ---------------------------------------------------------------------------

def _nests_nl(W):
    from biogeme.nests import OneNestForNestedLogit, NestsForNestedLogit
    from biogeme.expressions import Beta

    mu = Beta('mu_a', round(W.rng.uniform(1.1, 2.0), 3), 1, 10, 0)
    return NestsForNestedLogit(choice_set=[1, 2, 3], tuple_of_nests=(OneNestForNestedLogit(nest_param=mu, list_of_alternatives=[1, 2], name='a'),))


def _nests_cnl(W):
    from biogeme.nests import OneNestForCrossNestedLogit, NestsForCrossNestedLogit
    from biogeme.expressions import Beta

    r = W.rng
    mu_a = Beta('mu_a', round(r.uniform(1.1, 2.0), 3), 1, 10, 0)
    mu_b = Beta('mu_b', round(r.uniform(1.1, 2.0), 3), 1, 10, 0)
    al = round(r.uniform(0.2, 0.8), 2)
    na = OneNestForCrossNestedLogit(nest_param=mu_a, dict_of_alpha={1: 1.0, 2: al}, name='a')
    nb = OneNestForCrossNestedLogit(nest_param=mu_b, dict_of_alpha={2: 1 - al, 3: 1.0}, name='b')
    return NestsForCrossNestedLogit(choice_set=[1, 2, 3], tuple_of_nests=(na, nb))


def f_models_choice(with_mu=False, cross=False):
    def fx(W):
        from biogeme.expressions import Beta

        Vu, av, ch, _ = W.utilities()
        nests = _nests_cnl(W) if cross else _nests_nl(W)
        out = []
        for label, a, c in (('avail-dict_choice-variable', av, ch), ('avail-none_choice-1', None, 1)):
            args = [Vu, a, nests, c]
            if with_mu:
                args.append(Beta('mu', 1.0, 0.1, 10, 1) if label.startswith('avail-d') else 1.0)
            out.append(V(label, args=args, post=eval_expr(W)))
        return out

    return fx


def f_models_gi(with_mu=False, cross=False):
    def fx(W):
        Vu, av, _, _ = W.utilities()
        nests = _nests_cnl(W) if cross else _nests_nl(W)
        out = []
        for label, a in (('avail-dict', av), ('avail-none', None)):
            args = [Vu, a, nests]
            if with_mu:
                args.append(round(W.rng.uniform(0.5, 1.0), 2))
            out.append(V(label, args=args, post=eval_expr(W)))
        return out

    return fx


def f_mev_sampling(W):
    from biogeme.models import get_mev_for_nested

    Vu, av, ch, _ = W.utilities()
    log_gi = get_mev_for_nested(Vu, av, _nests_nl(W))
    corr = {1: round(W.rng.uniform(-0.3, 0.3), 2), 2: 0.0, 3: round(W.rng.uniform(-0.3, 0.3), 2)}
    return [V('avail-dict', args=[Vu, log_gi, av, corr, ch], post=eval_expr(W)),
            V('avail-none-keywords', kwargs=dict(util=Vu, log_gi=log_gi, av=None, correction=corr, choice=2), post=eval_expr(W))]


def f_piecewise_variables(W):
    from biogeme.expressions import Variable

    t = sorted(round(W.rng.uniform(0.3, 2.8), 2) for _ in range(2))
    return [V('name-open-ends', args=['x1', [None] + t + [None]], post=eval_expr(W)),
            V('variable-closed', args=[Variable('x2'), [0.0] + t + [3.5]], post=eval_expr(W))]


def f_piecewise_formula(W):
    from biogeme.expressions import Beta, Variable

    t = sorted(round(W.rng.uniform(0.3, 2.8), 2) for _ in range(2))
    bs = [Beta(f'pw{i}', round(W.rng.uniform(-1, 1), 2), None, None, 0) for i in range(3)]
    return [V('default-betas', args=['x1', [0.0] + t + [3.5]], post=eval_expr(W)),
            V('given-betas', kwargs=dict(variable=Variable('x2'), thresholds=[None] + t + [None], betas=bs), post=eval_expr(W))]


def f_piecewise_function(W):
    t = sorted(round(W.rng.uniform(0.3, 2.8), 2) for _ in range(2))
    b = [round(W.rng.uniform(-1, 1), 2) for _ in range(3)]
    return [V('inside', args=[round(W.rng.uniform(0.1, 3.4), 2), [0.0] + t + [3.5], b]),
            V('open-ends', args=[round(W.rng.uniform(-2, 6), 2), [None] + t + [None], b])]


def f_draws(which):
    def fx(W):
        np = _np()
        r = W.rng
        n, k = r.randint(2, 4), 2 * r.randint(2, 5)
        if which == 'uniform':
            return [V('plain', args=[n, k]), V('symmetric', args=[n, k], kwargs={'symmetric': True}), V('invalid-size', args=[0, k])]
        if which == 'lhs':
            u = np.random.RandomState(W.seed).uniform(size=n * k)
            return [V('plain', args=[n, k]), V('symmetric-own-uniform', args=[n, k, True, u]),
                    V('keyword-uniform', kwargs=dict(sample_size=n, number_of_draws=k, uniform_numbers=u))]
        if which == 'halton':
            return [V('base2', args=[n, k]), V('base3-skip-shuffled', args=[n, k], kwargs=dict(symmetric=True, base=3, skip=r.randint(1, 20), shuffled=True)),
                    V('base-not-prime', args=[n, k], kwargs=dict(base=4))]
        if which == 'antithetic':
            import biogeme.draws as dr

            def halton(a, b):
                return dr.get_halton_draws(a, b, base=3, skip=5)

            return [V('from-uniform', args=[dr.get_uniform, n, k]), V('from-halton', args=[halton, n, k])]
        if which == 'wichura':
            u = np.random.RandomState(W.seed + 1).uniform(size=n * k)
            return [V('plain', args=[n, k]), V('own-uniform-antithetic', args=[n, k], kwargs=dict(uniform_numbers=u, antithetic=True))]
        raise KeyError(which)

    return fx


def f_cnl_fun(W):
    np = _np()
    nests = _nests_cnl_numeric(W)

    def post(fct):
        y = np.array([round(W.rng.uniform(0.2, 2.0), 3) for _ in range(3)])
        return fct(y)

    return [V('three-alternatives', args=[[1, 2, 3], nests], post=post)]


def _nests_cnl_numeric(W):
    from biogeme.nests import OneNestForCrossNestedLogit, NestsForCrossNestedLogit

    r = W.rng
    al = round(r.uniform(0.2, 0.8), 2)
    na = OneNestForCrossNestedLogit(nest_param=round(r.uniform(1.1, 2.0), 2), dict_of_alpha={1: 1.0, 2: al}, name='a')
    nb = OneNestForCrossNestedLogit(nest_param=round(r.uniform(1.1, 2.0), 2), dict_of_alpha={2: 1 - al, 3: 1.0}, name='b')
    return NestsForCrossNestedLogit(choice_set=[1, 2, 3], tuple_of_nests=(na, nb))


def f_aic_bic(W):
    from biogeme.results import bioResults

    return [V('estimated', args=[W.results()]), V('empty-results', args=[bioResults()])]


def f_calc_p(W):
    return [V('positive', args=[round(W.rng.uniform(0.1, 3), 3)]), V('negative', args=[-round(W.rng.uniform(0.1, 3), 3)])]


def f_compile(W):
    r = W.results()
    W2 = World(W.seed + 1000)
    r2 = W2.results(bootstrap=False)
    return [V('two-models', args=[{'m1': r, 'm2': r2}]),
            V('raw-stderr', args=[{'m1': r}], kwargs=dict(include_robust_stderr=True, formatted=False, use_short_names=True))]


def f_segmented_beta(W):
    from biogeme.expressions import Beta
    from biogeme.segmentation import DiscreteSegmentationTuple

    b = Beta('bseg', round(W.rng.uniform(-1, 1), 2), None, None, 0)
    t1 = DiscreteSegmentationTuple('seg', {1: 'low', 2: 'mid', 3: 'high'})
    t2 = DiscreteSegmentationTuple('av2', {0: 'no', 1: 'yes'}, reference='yes')
    return [V('one-segmentation', args=[b, [t1]], post=eval_expr(W)),
            V('two-segmentations-prefix', args=[b, (t1, t2)], kwargs={'prefix': 'pre'}, post=eval_expr(W))]


def f_count_groups(W):
    df = W.frame()
    return [V('panel-id', args=[df, 'id'], state=[df]), V('choice-column', args=[df, 'choice'], state=[df])]


def _quad(W):
    np = _np()
    from biogeme.function_output import FunctionOutput

    r = W.rng
    a = np.array([[2.0 + r.random(), 0.3], [0.3, 1.0 + r.random()]])
    c = np.array([r.uniform(-1, 1), r.uniform(-1, 1)])

    def fct(x):
        x = np.asarray(x, dtype=float)
        return FunctionOutput(function=float(0.5 * x @ a @ x + c @ x + np.sin(x[0])), gradient=a @ x + c + np.array([np.cos(x[0]), 0.0]),
                              hessian=a + np.array([[-np.sin(x[0]), 0.0], [0.0, 0.0]]))

    return fct


def f_findiff_h(W):
    np = _np()
    return [V('quadratic-plus-sine', args=[_quad(W), np.array([W.rng.uniform(-2, 2), W.rng.uniform(-2, 2)])])]


def f_check_derivatives(W):
    np = _np()
    x = np.array([W.rng.uniform(-2, 2), W.rng.uniform(-2, 2)])
    return [V('silent', args=[_quad(W), x]), V('names-logged', args=[_quad(W), x], kwargs=dict(names=['p', 'q'], logg=True))]


def f_noargs(W):
    return [V('no-arguments')]


# ---------------------------------------------------------------------------
# Database
# ---------------------------------------------------------------------------

def _db(label, W, args=(), kwargs=None, panel=False, post=None, prep=None):
    d = W.database(panel=panel)
    if prep:
        prep(d)
    return V(label, recv=d, args=args, kwargs=kwargs, post=post)


def _prep_remove(d):
    from biogeme.expressions import Variable

    d.remove(Variable('x1') > 2.2)


def _prep_draws(d):
    d.generate_draws({'xi': 'NORMAL', 'u': 'UNIFORM'}, ['xi', 'u'], 6)


# receiver states of a Database: (label, panel?, preparation). The generated table gives every individual 2-4 rows,
# so that in panel mode the number of individuals differs from the number of rows.
DB_STATES = [('cross-section', False, None), ('panel-unequal-rows-per-individual', True, None), ('after-remove', False, _prep_remove),
             ('panel-after-remove', True, _prep_remove), ('with-draws-generated', False, _prep_draws)]


def _db_states(W, args=(), kwargs=None, states=DB_STATES, prefix=''):
    return [_db(prefix + lab, W, args, kwargs, panel=pan, prep=prep) for lab, pan, prep in states]


def f_db_expression(arity):
    def fx(W):
        from biogeme.expressions import Variable, Beta, exp

        e1 = Variable('x1') * 2 + exp(Beta('b', 0.3, None, None, 0) * Variable('x2'))
        e2 = Variable('x1') / Variable('nonexistent')
        if arity == 'values':
            return [_db('formula', W, [e1]), _db('unknown-column', W, [e2])]
        if arity == 'add':
            return [_db('new-column', W, [e1, 'newcol']), _db('existing-column', W, [e1, 'x1']), _db('keywords', W, kwargs=dict(expression=e1, column='kw'))]
        if arity == 'define':
            return [_db('new-variable', W, ['newvar', e1]), _db('existing-name', W, ['x2', e1])]
        raise KeyError(arity)

    return fx


def f_db_avail(W):
    from biogeme.expressions import Variable, Numeric

    av = {1: Numeric(1), 2: Variable('av2'), 3: Numeric(1)}
    av_missing = {1: Numeric(1), 2: Variable('av2')}
    return [_db('all-alternatives', W, [av, Variable('choice')]), _db('chosen-not-in-dict', W, [av_missing, Variable('choice')])]


def f_db_scale(W):
    return [_db('panel-scale-x2', W, ['x2', 10.0], panel=True), _db('scale-big', W, ['big', 0.001]), _db('unknown-column', W, ['zz', 2.0]), _db('keywords', W, kwargs=dict(column='x1', scale=round(W.rng.uniform(2, 9), 1)))]


def f_db_suggest(W):
    return [_db('default', W), _db('report-all-columns', W, kwargs=dict(columns=['big', 'x1'], report_all=True)), _db('unknown', W, [['zz']]),
            _db('panel-after-remove', W, panel=True, prep=_prep_remove)]


def f_db_sample(W):
    return [_db('default-size', W), _db('given-size', W, [W.rng.randint(3, 12)]), _db('after-remove', W, prep=_prep_remove),
            _db('panel-keyword-size', W, kwargs=dict(size=W.rng.randint(3, 12)), panel=True)]


def f_db_sample_ind(W):
    return [_db('panel-default', W, panel=True), _db('panel-size', W, kwargs=dict(size=W.rng.randint(2, 6)), panel=True), _db('not-panel', W),
            _db('panel-after-remove', W, panel=True, prep=_prep_remove)]


def f_db_noargs_both(W):
    return _db_states(W)


def f_db_build_panel_map(W):
    def shuffle(d):
        d.data = d.data.sample(frac=1.0, random_state=W.seed).reset_index(drop=True)

    return [_db('panel-shuffled', W, panel=True, prep=shuffle), _db('cross-section', W), _db('panel-after-remove', W, panel=True, prep=_prep_remove)]


def f_db_rng(W):
    np = _np()

    def gen(n, k):
        return np.random.lognormal(size=(n, k))

    from biogeme.native_draws import RandomNumberGeneratorTuple

    return [_db('tuple-old-style', W, [{'LOGN': (gen, 'lognormal draws')}]),
            _db('named-tuple', W, [{'LOGN': RandomNumberGeneratorTuple(generator=gen, description='lognormal')}]),
            _db('reserved-keyword', W, [{'NORMAL': (gen, 'clash')}])]


def f_db_generate_draws(W):
    k = W.rng.randint(3, 8)
    return [_db('native-two-variables', W, [{'xi1': 'NORMAL', 'xi2': 'UNIFORM_HALTON3'}, ['xi1', 'xi2'], k]),
            _db('panel-antithetic', W, [{'xi1': 'NORMAL_ANTI'}, ['xi1'], 2 * k], panel=True),
            _db('unknown-type', W, [{'xi1': 'NOSUCH'}, ['xi1'], k])]


def f_db_flat(W):
    return [_db('panel', W, panel=True), _db('panel-save-identical', W, kwargs=dict(save_on_file=True, identical_columns=['id']), panel=True),
            _db('not-panel', W)]


def f_db_native_description(W):
    d = W.database()
    return [V('on-instance', recv=d), V('on-class', recv=d, on_class=True)]


# ---------------------------------------------------------------------------
# IdManager
# ---------------------------------------------------------------------------

class CppSpy:
    """stands for the per-formula engine handle the two methods forward to"""

    def __init__(self):
        self.seen = []

    def set_data(self, sample):
        self.seen.append(('set_data', list(sample.shape)))

    def set_data_map(self, sample):
        self.seen.append(('set_data_map', list(sample.shape)))


def f_idmanager(W):
    from biogeme.expressions.idmanager import IdManager

    lp, _ = W.logprob()
    d = W.database(panel=True)
    m1 = IdManager([lp], d, 0)
    lp2, _ = W.logprob()
    lp2.cpp = CppSpy()
    m2 = IdManager([lp2], d, 0)
    return [V('formulas-without-handle', recv=m1, args=[d.individualMap]), V('formulas-with-handle', recv=m2, args=[d.data])]


# ---------------------------------------------------------------------------
# BIOGEME
# ---------------------------------------------------------------------------

def _bg(label, W, args=(), kwargs=None, post=None, with_sim=False, weighted=False, prep=None, **over):
    bg = W.biogeme(with_sim=with_sim, weighted=weighted, **over)
    if prep:
        import warnings

        with warnings.catch_warnings():
            warnings.simplefilter('ignore')
            prep(bg)
    a = args(bg) if callable(args) else args
    return V(label, recv=bg, args=a, kwargs=kwargs, post=post)


def _prep_init(bg):
    bg.calculate_init_likelihood()


def _prep_estimated(bg):
    bg.quick_estimate()


def _prep_moved(bg):
    bg.change_init_values({'b1': -0.2, 'asc2': 0.3})


def f_bg_bounds(W):
    return [_bg('bounded', W, ['asc2']), _bg('half-bounded', W, ['asc3']), _bg('unknown', W, ['nosuch']),
            _bg('after-estimation', W, ['b1'], prep=_prep_estimated)]


def f_bg_null(W):
    from biogeme.expressions import Variable

    return [_bg('mixed-availability', W, [{1: 1, 2: Variable('av2'), 3: 1}]),
            _bg('weighted-model-after-init-likelihood', W, [{1: 1, 2: Variable('av2'), 3: 1}], weighted=True, prep=_prep_init)]


def f_bg_noargs(W):
    return [_bg('fresh', W), _bg('weighted-model', W, weighted=True), _bg('initial-values-changed', W, prep=_prep_moved),
            _bg('after-estimation', W, prep=_prep_estimated)]


def f_bg_like(W):
    return [_bg('unscaled', W, lambda bg: [W.x0(bg), False]),
            _bg('scaled-keywords', W, kwargs=dict(x=[-0.3, 0.1, 0.2], scaled=True)),
            _bg('wrong-length', W, [[0.1], False]),
            _bg('weighted-model', W, lambda bg: [W.x0(bg), True], weighted=True),
            _bg('batch', W, lambda bg: [W.x0(bg), False, 0.5])]


def f_bg_like_deriv(W):
    # hessian / bhhh are always requested: when they are not, the function hands back uninitialised
    # (np.empty) matrices whose content is whatever the allocator left there -- nothing to compare
    return [_bg('unscaled-positional', W, lambda bg: [W.x0(bg), False, True, True]),
            _bg('scaled-hessian-bhhh', W, [[-0.3, 0.1, 0.2]], kwargs=dict(scaled=True, hessian=True, bhhh=True)),
            _bg('save-iterations', W, lambda bg: [W.x0(bg), False], kwargs=dict(hessian=True, bhhh=True), save_iterations=True)]


def f_bg_fdh(W):
    return [_bg('initial-point', W, lambda bg: [W.x0(bg)]), _bg('wrong-length', W, [[0.0, 0.0]])]


def f_bg_check(W):
    return [_bg('silent', W, lambda bg: [W.x0(bg)]), _bg('verbose', W, [[-0.3, 0.1, 0.2]], kwargs=dict(verbose=True))]


def f_bg_random_init(W):
    return [_bg('default-bound', W), _bg('given-bound', W, [round(W.rng.uniform(1, 5), 1)]),
            _bg('after-estimation-keyword', W, kwargs=dict(default_bound=2.0), prep=_prep_estimated)]


def f_bg_quick(W):
    return [_bg('fresh', W), _bg('weighted-model-initial-values-changed', W, weighted=True, prep=_prep_moved)]


def f_bg_ci(W):
    bv = [{'b1': -0.5 + 0.1 * i, 'asc2': 0.1 * i, 'asc3': -0.1 * i} for i in range(5)]
    return [_bg('five-draws', W, [bv], with_sim=True), _bg('interval-keyword', W, [bv], kwargs=dict(interval_size=0.5), with_sim=True)]


# ---------------------------------------------------------------------------
# bioResults
# ---------------------------------------------------------------------------

def _res(label, W, args=(), kwargs=None, bootstrap=True):
    import copy

    r = copy.deepcopy(W.results(bootstrap=bootstrap))
    return V(label, recv=r, args=args, kwargs=kwargs)


def _res_roundtrip(W):
    """results object rebuilt from what a pickle file gives back"""
    import pickle
    from biogeme.results import bioResults

    return bioResults(the_raw_results=pickle.loads(pickle.dumps(W.results().data)))


def _res_quick(W):
    """results of quick_estimate: no second derivatives, no variance-covariance matrix"""
    import warnings

    with warnings.catch_warnings():
        warnings.simplefilter('ignore')
        return W.biogeme().quick_estimate()


def f_res_noargs(W):
    return [_res('with-bootstrap', W), _res('without-bootstrap', W, bootstrap=False), V('read-back-from-pickle', recv=_res_roundtrip(W)),
            V('quick-estimate-without-second-derivatives', recv=_res_quick(W))]


def f_res_bool(name):
    def fx(W):
        return [_res('default', W), _res('false-positional', W, [False]), _res('false-keyword', W, kwargs={name: False}, bootstrap=False)]

    return fx


def f_res_beta_values(W):
    return [_res('all', W), _res('subset', W, [['asc2', 'b1']]), _res('unknown', W, kwargs=dict(my_betas=['zz']))]


def f_res_sensitivity(W):
    return [_res('bootstrap', W, [['b1', 'asc3']]), _res('normal-draws', W, [['b1', 'asc2']], kwargs=dict(size=W.rng.randint(3, 9), use_bootstrap=False)),
            _res('bootstrap-unavailable', W, [['b1']], bootstrap=False)]


def f_res_corr(W):
    return [_res('all', W), _res('subset', W, [['asc2', 'b1']]), _res('subset-unknown', W, kwargs=dict(subset=['b1', 'zz']))]


# ---------------------------------------------------------------------------
# registry
# ---------------------------------------------------------------------------

REGISTRY = {
    'biogeme.cnl.cnl_cdf': f_cnl_fun,
    'biogeme.cnl.cnl_g': f_cnl_fun,
    'biogeme.draws.get_uniform': f_draws('uniform'),
    'biogeme.draws.get_latin_hypercube_draws': f_draws('lhs'),
    'biogeme.draws.get_halton_draws': f_draws('halton'),
    'biogeme.draws.get_antithetic': f_draws('antithetic'),
    'biogeme.draws.get_normal_wichura_draws': f_draws('wichura'),
    'biogeme.models.cnl.cnl': f_models_choice(cross=True),
    'biogeme.models.cnl.logcnl': f_models_choice(cross=True),
    'biogeme.models.cnl.get_mev_for_cross_nested': f_models_gi(cross=True),
    'biogeme.models.cnl.get_mev_for_cross_nested_mu': f_models_gi(cross=True, with_mu=True),
    'biogeme.models.mev.logmev_endogenous_sampling': f_mev_sampling,
    'biogeme.models.mev.mev_endogenous_sampling': f_mev_sampling,
    'biogeme.models.nested.get_mev_generating_for_nested': f_models_gi(),
    'biogeme.models.nested.get_mev_for_nested': f_models_gi(),
    'biogeme.models.nested.get_mev_for_nested_mu': f_models_gi(with_mu=True),
    'biogeme.models.nested.nested_mev_mu': f_models_choice(with_mu=True),
    'biogeme.models.nested.lognested_mev_mu': f_models_choice(with_mu=True),
    'biogeme.models.piecewise.piecewise_variables': f_piecewise_variables,
    'biogeme.models.piecewise.piecewise_formula': f_piecewise_formula,
    'biogeme.models.piecewise.piecewise_function': f_piecewise_function,
    'biogeme.multiobjectives.aic_bic_dimension': f_aic_bic,
    'biogeme.results.calc_p_value': f_calc_p,
    'biogeme.results.compile_estimation_results': f_compile,
    'biogeme.segmentation.segmented_beta': f_segmented_beta,
    'biogeme.tools.database.count_number_of_groups': f_count_groups,
    'biogeme.tools.derivatives.findiff_h': f_findiff_h,
    'biogeme.tools.derivatives.check_derivatives': f_check_derivatives,
    'biogeme.version.get_version': f_noargs,
    'biogeme.version.get_html': f_noargs,
    'biogeme.version.get_text': f_noargs,
    'biogeme.version.get_latex': f_noargs,
    # Database
    'biogeme.database.Database.values_from_database': f_db_expression('values'),
    'biogeme.database.Database.add_column': f_db_expression('add'),
    'biogeme.database.Database.define_variable': f_db_expression('define'),
    'biogeme.database.Database.check_availability_of_chosen_alt': f_db_avail,
    'biogeme.database.Database.choice_availability_statistics': f_db_avail,
    'biogeme.database.Database.scale_column': f_db_scale,
    'biogeme.database.Database.suggest_scaling': f_db_suggest,
    'biogeme.database.Database.sample_with_replacement': f_db_sample,
    'biogeme.database.Database.sample_individual_map_with_replacement': f_db_sample_ind,
    'biogeme.database.Database.dump_on_file': f_db_noargs_both,
    'biogeme.database.Database.get_number_of_observations': f_db_noargs_both,
    'biogeme.database.Database.get_sample_size': f_db_noargs_both,
    'biogeme.database.Database.is_panel': f_db_noargs_both,
    'biogeme.database.Database.build_panel_map': f_db_build_panel_map,
    'biogeme.database.Database.set_random_number_generators': f_db_rng,
    'biogeme.database.Database.generate_draws': f_db_generate_draws,
    'biogeme.database.Database.generate_flat_panel_dataframe': f_db_flat,
    'biogeme.database.Database.description_of_native_draws': f_db_native_description,
    # IdManager
    'biogeme.expressions.idmanager.IdManager.set_data': f_idmanager,
    'biogeme.expressions.idmanager.IdManager.set_data_map': f_idmanager,
    # BIOGEME
    'biogeme.biogeme.BIOGEME.get_bounds_on_beta': f_bg_bounds,
    'biogeme.biogeme.BIOGEME.calculate_null_loglikelihood': f_bg_null,
    'biogeme.biogeme.BIOGEME.calculate_init_likelihood': f_bg_noargs,
    'biogeme.biogeme.BIOGEME.calculate_likelihood': f_bg_like,
    'biogeme.biogeme.BIOGEME.calculate_likelihood_and_derivatives': f_bg_like_deriv,
    'biogeme.biogeme.BIOGEME.likelihood_finite_difference_hessian': f_bg_fdh,
    'biogeme.biogeme.BIOGEME.check_derivatives': f_bg_check,
    'biogeme.biogeme.BIOGEME.set_random_init_values': f_bg_random_init,
    'biogeme.biogeme.BIOGEME.quick_estimate': f_bg_quick,
    'biogeme.biogeme.BIOGEME.confidence_intervals': f_bg_ci,
    # bioResults
    'biogeme.results.bioResults.write_pickle': f_res_noargs,
    'biogeme.results.bioResults.short_summary': f_res_noargs,
    'biogeme.results.bioResults.get_latex': f_res_bool('only_robust'),
    'biogeme.results.bioResults.get_general_statistics': f_res_noargs,
    'biogeme.results.bioResults.print_general_statistics': f_res_noargs,
    'biogeme.results.bioResults.number_of_free_parameters': f_res_noargs,
    'biogeme.results.bioResults.get_estimated_parameters': f_res_bool('only_robust'),
    'biogeme.results.bioResults.get_correlation_results': f_res_corr,
    'biogeme.results.bioResults.get_html': f_res_bool('only_robust'),
    'biogeme.results.bioResults.get_beta_values': f_res_beta_values,
    'biogeme.results.bioResults.get_var_covar': f_res_noargs,
    'biogeme.results.bioResults.get_robust_var_covar': f_res_noargs,
    'biogeme.results.bioResults.get_bootstrap_var_covar': f_res_noargs,
    'biogeme.results.bioResults.write_html': f_res_bool('only_robust'),
    'biogeme.results.bioResults.write_latex': f_res_noargs,
    'biogeme.results.bioResults.get_betas_for_sensitivity_analysis': f_res_sensitivity,
    'biogeme.results.bioResults.get_f12': f_res_bool('robust_std_err'),
    'biogeme.results.bioResults.write_f12': f_res_bool('robust_std_err'),
}


# ---------------------------------------------------------------------------
# Expression family: receiver classes x alias arguments
# ---------------------------------------------------------------------------

class ExprMaker:
    """seeded instances of every concrete class of the expression hierarchy"""

    def __init__(self, W: World):
        self.W = W
        self.r = W.rng
        self._betas = {}

    def num(self):
        from biogeme.expressions import Numeric

        return Numeric(round(self.r.uniform(0.2, 2.5), 3))

    STATUS = {'b1': 0, 'b2': 0, 'b3': 1}

    def beta(self, name=None, status=None):
        """one definition per name (b1, b2 free; b3 fixed): a formula must not define a parameter twice"""
        from biogeme.expressions import Beta

        if name is None:
            pool = [n for n, s in self.STATUS.items() if status is None or s == status]
            name = self.r.choice(pool)
        if name not in self._betas:
            self._betas[name] = Beta(name, round(self.r.uniform(0.2, 1.5), 3), None, None, self.STATUS[name])
        return self._betas[name]

    def var(self):
        from biogeme.expressions import Variable

        return Variable(self.r.choice(['x1', 'x2']))

    def leaf(self, datafree):
        k = self.r.random()
        if k < 0.4:
            return self.beta(status=0 if k < 0.25 else 1)
        if k < 0.6 or datafree:
            return self.num()
        return self.var()

    def sub(self, datafree=False, depth=2, positive=True):
        """small formula with positive values (so that log / power / divide stay regular)"""
        from biogeme.expressions import exp

        if depth <= 0 or self.r.random() < 0.25:
            return self.leaf(datafree)
        k = self.r.random()
        a, b = self.sub(datafree, depth - 1), self.sub(datafree, depth - 1)
        if k < 0.4:
            return a + b
        if k < 0.75:
            return a * b
        return exp(-a) + b

    def make(self, clsname: str, datafree=False):
        import biogeme.expressions as ex
        from biogeme.expressions import base_expressions, elementary_expressions, unary_expressions, binary_expressions, \
            comparison_expressions, nary_expressions, logit_expressions
        from biogeme.expressions.nary_expressions import ConditionalTermTuple, LinearTermTuple
        from biogeme.catalog import Catalog

        s = lambda: self.sub(datafree)  # noqa
        r = self.r
        n = clsname
        if n == 'Expression':
            return base_expressions.Expression()
        if n == 'Numeric':
            return self.num()
        if n == 'Elementary':
            return elementary_expressions.Elementary('b1')
        if n == 'Beta':
            return self.beta(status=0)
        if n == 'Variable':
            return self.var()
        if n == 'bioDraws':
            return ex.bioDraws('xi', 'NORMAL')
        if n == 'RandomVariable':
            return ex.RandomVariable('omega')
        if n == 'UnaryOperator':
            return unary_expressions.UnaryOperator(s())
        if n == 'BinaryOperator':
            return binary_expressions.BinaryOperator(s(), s())
        if n == 'ComparisonOperator':
            return comparison_expressions.ComparisonOperator(s(), s())
        if n in ('UnaryMinus', 'exp', 'sin', 'cos', 'log', 'logzero', 'bioNormalCdf'):
            return getattr(unary_expressions, n)(s())
        if n == 'MonteCarlo':
            return ex.MonteCarlo(s() * ex.exp(self.beta('b1', 0) * ex.bioDraws('xi', 'NORMAL')))
        if n == 'PanelLikelihoodTrajectory':
            return ex.PanelLikelihoodTrajectory(s())
        if n == 'PowerConstant':
            return unary_expressions.PowerConstant(s(), float(r.choice([2.0, 0.5, 3.0, -1.0])))
        if n == 'Derive':
            return ex.Derive(s() * self.beta('b1', 0) * self.beta('b1', 0), 'b1')
        if n == 'Integrate':
            om = ex.RandomVariable('omega')
            return ex.Integrate(s() * ex.exp(-om * om / 2.0), 'omega')
        if n == 'BelongsTo':
            return ex.BelongsTo(self.num() if datafree else ex.Variable('choice'), {1, 3, r.choice([2, 5])})
        if n in ('Plus', 'Minus', 'Times', 'Divide', 'Power', 'bioMin', 'bioMax', 'And', 'Or'):
            return getattr(binary_expressions, n)(s(), s())
        if n in ('Equal', 'NotEqual', 'LessOrEqual', 'GreaterOrEqual', 'Less', 'Greater'):
            return getattr(comparison_expressions, n)(s(), s())
        if n == 'ConditionalSum':
            return nary_expressions.ConditionalSum([ConditionalTermTuple(condition=(s() > 1.0), term=s()),
                                                    ConditionalTermTuple(condition=ex.Numeric(1), term=s())])
        if n == 'bioMultSum':
            return ex.bioMultSum([s() for _ in range(r.randint(2, 4))])
        if n == 'Elem':
            return ex.Elem({1: s(), 2: s(), 3: s()}, ex.Numeric(r.choice([1, 2, 3])) if datafree else ex.Variable('choice'))
        if n == 'bioLinearUtility':
            return ex.bioLinearUtility([LinearTermTuple(beta=self.beta('b1', 0), x=ex.Variable('x1')),
                                        LinearTermTuple(beta=self.beta('b2', 0), x=ex.Variable('x2'))])
        if n in ('LogLogit', '_bioLogLogit'):
            ch = ex.Numeric(r.choice([1, 3])) if datafree else ex.Variable('choice')
            av = None if r.random() < 0.3 else {1: ex.Numeric(1), 2: ex.Numeric(1) if datafree else ex.Variable('av2'), 3: ex.Numeric(1)}
            return getattr(logit_expressions, n)({1: s(), 2: s(), 3: s()}, av, ch)
        if n == '_bioLogLogitFullChoiceSet':
            ch = ex.Numeric(r.choice([1, 3])) if datafree else ex.Variable('choice')
            return logit_expressions._bioLogLogitFullChoiceSet({1: s(), 2: s(), 3: s()}, ch)
        if n == 'Catalog':
            return Catalog.from_dict(f'cat{r.randint(0, 999)}', {'first': s(), 'second': s() + 1})
        raise KeyError(n)


# classes the engine refuses to differentiate (an error on every row, on every worker thread at once, is also where the
# external engine is fragile): derivatives are not requested from them
NONDIFF = {'And', 'Or', 'Equal', 'NotEqual', 'LessOrEqual', 'GreaterOrEqual', 'Less', 'Greater', 'BelongsTo', 'ComparisonOperator'}


def expression_variants(alias: str, clsname: str, W: World):
    """argument variants for one alias of the Expression family on one receiver class"""
    from biogeme.expressions.idmanager import IdManager

    diff = clsname not in NONDIFF

    mk = ExprMaker(W)
    db = W.database()
    out = []
    nd = 12

    def inst(datafree=False, prepared=False):
        e = mk.make(clsname, datafree)
        if prepared:
            try:
                e.prepare(db, nd)
            except BaseException:  # noqa  (receivers that cannot be numbered still expose the alias)
                pass
        return e

    if alias == 'getValue':
        out = [V('data-free', recv=inst(True)), V('with-data-leaves', recv=inst(False))]
    elif alias == 'getValue_c':
        out = [V('rows', recv=inst(), kwargs=dict(database=db, prepare_ids=True, number_of_draws=nd)),
               V('aggregated-betas-positional-database', recv=inst(), args=[db, {'b1': 0.7, 'b2': 0.4}], kwargs=dict(aggregation=True, prepare_ids=True, number_of_draws=nd)),
               V('data-free', recv=inst(True), kwargs=dict(prepare_ids=True))]
    elif alias == 'getValueAndDerivatives':
        out = [V('aggregated-all', recv=inst(), kwargs=dict(database=db, prepare_ids=True, number_of_draws=nd, gradient=diff, hessian=diff, bhhh=diff)),
               V('rows-gradient-named', recv=inst(), args=[{'b1': 0.7}], kwargs=dict(database=db, aggregation=False, gradient=diff, hessian=False, bhhh=False,
                                                                                   prepare_ids=True, number_of_draws=nd, named_results=True))]
    elif alias == 'createFunction':
        def call(f):
            import numpy as np

            return f(np.array([0.31, 0.62, 0.93][: max(1, _nfree(f))]))

        def _nfree(f):
            try:
                return len(f.__closure__[[c for c in f.__code__.co_freevars].index('self')].cell_contents.id_manager.free_betas_values)
            except BaseException:  # noqa
                return 1

        out = [V('gradient-hessian', recv=inst(), kwargs=dict(database=db, number_of_draws=nd, gradient=diff, hessian=diff, bhhh=False), post=call),
               V('inconsistent-flags', recv=inst(), args=[db, nd, False, True, False])]
    elif alias == 'getSignature':
        out = [V('numbered', recv=inst(prepared=True)), V('not-numbered', recv=inst())]
    elif alias == 'getStatusIdManager':
        out = [V('numbered', recv=inst(prepared=True)), V('not-numbered', recv=inst())]
    elif alias == 'setIdManager':
        e = inst()
        try:
            m = IdManager([e], db, nd)
        except BaseException:  # noqa
            m = IdManager([mk.sub()], db, nd)
        out = [V('attach-manager', recv=e, args=[m]), V('reset-to-none', recv=inst(prepared=True), args=[None]),
               V('keyword', recv=inst(prepared=True), kwargs=dict(id_manager=None))]
    elif alias in ('requiresDraws', 'getClassName', 'countPanelTrajectoryExpressions'):
        out = [V('plain', recv=inst()), V('data-free', recv=inst(True)), V('numbered', recv=inst(prepared=True))]
    elif alias == 'embedExpression':
        out = [V('own-class', recv=inst(), args=[clsname]), V('beta', recv=inst(), args=['Beta']), V('montecarlo', recv=inst(), kwargs=dict(t='MonteCarlo'))]
    elif alias == 'getElementaryExpression':
        e0 = inst()
        own = getattr(e0, 'name', None) if isinstance(getattr(e0, 'name', None), str) and clsname != 'Catalog' else 'b1'
        out = [V('own-name-or-b1', recv=e0, args=[own]), V('x1', recv=inst(), args=['x1']), V('absent', recv=inst(), args=['nosuch']),
               V('keyword-b2', recv=inst(), kwargs=dict(name='b2'))]
    else:
        return None
    return out


# ---------------------------------------------------------------------------
# renamed keyword arguments: registry keyed by the decorated function
# ---------------------------------------------------------------------------

def param_variants(owner: str | None, module: str, func: str, old_kw: str, clsname: str | None, W: World):
    """-> list of dict(label, recv, args, kwargs (without the renamed keyword), value, post, ctor)"""
    np = _np()
    key = f'{owner or module}.{func}'
    if key in ('biogeme.draws.get_latin_hypercube_draws', 'biogeme.draws.get_normal_wichura_draws'):
        n, k = W.rng.randint(2, 4), W.rng.randint(3, 6)
        u = np.random.RandomState(W.seed).uniform(size=n * k)
        return [dict(label='own-uniform', recv=None, args=[n, k], kwargs={}, value=u)]
    if owner == 'biogeme.expressions.base_expressions.Expression':
        mk = ExprMaker(W)
        db = W.database()
        e = mk.make(clsname)
        diff = clsname not in NONDIFF
        nograd = {} if (diff or func != 'get_value_and_derivatives') else dict(gradient=False, hessian=False, bhhh=False)
        if old_kw == 'numberOfDraws':
            e = mk.make('MonteCarlo') if clsname in ('Expression',) else e
            val = W.rng.randint(5, 15)
            if func == 'prepare':
                return [dict(label='draws', recv=e, args=[db], kwargs={}, value=val)]
            if func in ('create_function', 'create_objective_function'):
                def call(f):
                    x = np.array([0.31, 0.62, 0.93])
                    n = len(e.id_manager.free_betas_values) if e.id_manager is not None else 1
                    if func == 'create_function':
                        return f(x[:n])
                    return f.dimension()

                return [dict(label='draws', recv=e, args=[], kwargs=dict(database=db, hessian=False, gradient=diff), value=val, post=call)]
            return [dict(label='draws', recv=e, args=[], kwargs=dict(dict(database=db, prepare_ids=True), **nograd), value=val)]
        if old_kw == 'prepareIds':
            return [dict(label='prepare', recv=e, args=[], kwargs=dict(dict(database=db, number_of_draws=8), **nograd), value=True)]
    if owner == 'biogeme.biogeme.BIOGEME':
        if func == '__init__':
            from biogeme.biogeme import BIOGEME

            lp, b = W.logprob()
            values = {'suggestScales': True, 'numberOfThreads': 2, 'numberOfDraws': W.rng.randint(21, 50), 'missingData': 88888,
                      'parameter_file': W.parameters(seed=7), 'userNotes': 'notes of the user', 'generateHtml': True,
                      'saveIterations': True, 'seed_param': W.rng.randint(2, 999)}  # all different from the defaults in use
            kw = {} if old_kw == 'parameter_file' else {'parameters': W.parameters()}
            return [dict(label='constructor', recv=None, ctor=BIOGEME, args=[W.database(), lp], kwargs=kw, value=values[old_kw])]
        if func == 'estimate':
            bg = W.biogeme()
            return [dict(label='bootstrap', recv=bg, args=[], kwargs={}, value=True)]
        if func == 'simulate':
            bg = W.biogeme(with_sim=True)
            return [dict(label='beta-values', recv=bg, args=[], kwargs={}, value={'b1': -0.4, 'asc2': 0.2, 'asc3': -0.1})]
    if owner == 'biogeme.results.bioResults':
        import copy

        if func == '__init__':
            import pickle
            from biogeme.results import bioResults

            r = W.results()
            if old_kw == 'theRawResults':
                return [dict(label='raw-results', recv=None, ctor=bioResults, args=[], kwargs={}, value=copy.deepcopy(r.data))]
            return [dict(label='pickle-file', recv=None, ctor=bioResults, args=[], kwargs={}, value='saved.pickle',
                         files={'saved.pickle': pickle.dumps(r.data)})]
        r = copy.deepcopy(W.results())
        values = {'onlyRobust': False, 'myBetas': ['asc2', 'b1'], 'useBootstrap': False, 'robustStdErr': False}
        kw = {}
        if func == 'get_betas_for_sensitivity_analysis':
            kw = {'size': 5}
            if old_kw == 'useBootstrap':
                kw['my_betas'] = ['b1', 'asc3']
        return [dict(label='value', recv=r, args=[], kwargs=kw, value=values[old_kw])]
    return None


# ---------------------------------------------------------------------------
# renamed keywords driven through the functions of the package that forward **kwargs to a keyword-renaming wrapper
# ---------------------------------------------------------------------------

def _mdcev(W: World, kind: str):
    """small MDCEV model (three goods, the first always consumed) and its table"""
    import pandas as pd
    from biogeme.database import Database
    from biogeme.expressions import Beta, Variable
    from biogeme.mdcev import Translated, GammaProfile

    np = _np()
    r = np.random.RandomState(W.seed % (2 ** 31))
    n = 30
    q = r.uniform(0.5, 5, size=(n, 3)) * (r.uniform(size=(n, 3)) < 0.7)
    q[:, 0] = np.maximum(q[:, 0], 0.5)
    df = pd.DataFrame({'q1': q[:, 0], 'q2': q[:, 1], 'q3': q[:, 2], 'x1': r.uniform(0, 2, n)})
    df['nch'] = (q > 0).sum(axis=1).astype(float)
    db = Database('c20mdcev', df)
    base = {1: Beta('bx', 0.1, None, None, 0) * Variable('x1'), 2: Beta('c2', -0.2, None, None, 0), 3: Beta('c3', 0.1, None, None, 0)}
    gamma = {i: Beta(f'g{i}', 1.0, 0.01, None, 0) for i in (1, 2, 3)}
    if kind == 'translated':
        alpha = {i: Beta('alpha', 0.5, None, None, 1) for i in (1, 2, 3)}
        m = Translated('c20mdcev', base, gamma, alpha_parameters=alpha)
    else:
        m = GammaProfile('c20mdcev', base, gamma)
    return m, db, [Variable('nch'), {1: Variable('q1'), 2: Variable('q2'), 3: Variable('q3')}]


def forward_variants(via: str, target: str, old_kw: str, W: World):
    """variants for the obsolete keyword ``old_kw`` of ``target`` given to the forwarding caller ``via``;
    None when no fixture is registered for that caller"""
    if via == 'biogeme.biogeme.BIOGEME.recycled_estimation' and target == 'biogeme.biogeme.BIOGEME.estimate':
        return [dict(label='no-pickle-to-recycle', recv=W.biogeme(), args=[], kwargs={}, value=True),
                dict(label='weighted-model', recv=W.biogeme(weighted=True), args=[], kwargs={}, value=True)]
    if via == 'biogeme.mdcev.mdcev.Mdcev.estimate_parameters' and target == 'biogeme.biogeme.BIOGEME.__init__':
        values = {'suggestScales': True, 'numberOfThreads': 2, 'numberOfDraws': W.rng.randint(21, 50), 'missingData': 88888,
                  'parameter_file': W.parameters(seed=7), 'userNotes': 'notes of the user', 'generateHtml': False,
                  'saveIterations': False, 'seed_param': W.rng.randint(2, 999)}  # generateHtml / saveIterations: the defaults are switched on below
        out = []
        for kind in ('translated', 'gamma_profile'):
            m, db, rest = _mdcev(W, kind)
            over = {'generate_html': True, 'save_iterations': True} if old_kw in ('generateHtml', 'saveIterations') else {}
            kw = {} if old_kw == 'parameter_file' else {'parameters': W.parameters(**over)}
            out.append(dict(label=kind, recv=m, args=[db] + rest, kwargs=kw, value=values[old_kw]))
        return out
    return None


# ---------------------------------------------------------------------------
# hand-written old attributes (properties): receiver states, values that change behaviour, follow-up history
# ---------------------------------------------------------------------------

def _bg_history(bg):
    """what a user goes on doing with the object after the assignment; every step records its result or its exception"""
    from ..oracle.c20_observe import engine_norm
    from ..oracle.c20_compare import scrub

    out = {}
    x = [-0.3, 0.1, 0.2]

    def step(name, f):
        try:
            out[name] = f()
        except BaseException as e:  # noqa
            out[name] = {'raised': type(e).__name__, 'msg': engine_norm(scrub(str(e)))[:300]}

    def est(quick):
        r = bg.quick_estimate() if quick else bg.estimate()
        return {'betas': r.get_beta_values(), 'loglike': r.data.logLike, 'threads': getattr(r.data, 'numberOfThreads', None),
                'draws': getattr(r.data, 'numberOfDraws', None)}

    step('values', lambda: {k: getattr(bg, k) for k in ('number_of_threads', 'number_of_draws', 'generate_pickle')})
    step('likelihood', lambda: bg.calculate_likelihood(x, scaled=False))
    step('simulate', lambda: bg.simulate({'b1': -0.4, 'asc2': 0.2, 'asc3': -0.1}))
    step('likelihood_after_simulate', lambda: bg.calculate_likelihood(x, scaled=False))
    step('likelihood_and_derivatives', lambda: bg.calculate_likelihood_and_derivatives(x, scaled=False, hessian=True, bhhh=True))
    step('quick_estimate', lambda: est(True))
    step('estimate', lambda: est(False))
    step('likelihood_after_estimation', lambda: bg.calculate_likelihood(x, scaled=False))
    return out


def attribute_variants(owner: str, old: str, W: World):
    """-> [dict(label, recv, value, history)] for an old attribute of ``owner``; value None = read only"""
    if owner != 'biogeme.biogeme.BIOGEME':
        return None

    def used(bg):
        bg.calculate_likelihood_and_derivatives(W.x0(bg), scaled=False, hessian=True, bhhh=True)
        return bg

    out = []
    if old == 'numberOfThreads':
        out = [dict(label='lowered-3-to-1-after-likelihood', recv=used(W.biogeme(number_of_threads=3)), value=1),
               dict(label='lowered-4-to-2-fresh-weighted', recv=W.biogeme(weighted=True, number_of_threads=4), value=2),
               dict(label='raised-1-to-3-after-likelihood', recv=used(W.biogeme(number_of_threads=1)), value=3),
               dict(label='unchanged-2-to-2', recv=used(W.biogeme(number_of_threads=2)), value=2)]
    elif old == 'numberOfDraws':
        out = [dict(label='changed-20-to-37', recv=used(W.biogeme()), value=37), dict(label='fresh-weighted-20-to-5', recv=W.biogeme(weighted=True), value=5)]
    elif old == 'generatePickle':
        out = [dict(label='switched-on', recv=W.biogeme(), value=True), dict(label='switched-off-after-likelihood', recv=used(W.biogeme(generate_pickle=True)), value=False)]
    else:
        out = [dict(label='fresh', recv=W.biogeme(), value=None), dict(label='after-likelihood-weighted', recv=used(W.biogeme(weighted=True)), value=None)]
    for v in out:
        v['history'] = _bg_history
    return out
