"""C04 standalone scheduling workload (run as a script: plain, under taskset, under the TSan launcher).

usage: c04_stress.py <seed> <profile> <out.json>
profiles: tsan_smoke | tsan_full | sched_quick | sched_full

For each (table, thread count) pair a fresh BIOGEME object is built on the real code and the
likelihood, gradient, Hessian and BHHH are evaluated `reps` times, followed by one simulate;
the script records, relative to the single-thread value of the same table, the largest deviation
(scaled by the sum of absolute per-observation contributions) and the largest run-to-run deviation.
The caller decides; this script only observes and writes JSON.
"""
from __future__ import annotations

import json
import os
import random
import sys
import time

for _k in ('OMP_NUM_THREADS', 'OPENBLAS_NUM_THREADS', 'MKL_NUM_THREADS'):
    os.environ.setdefault(_k, '1')


def _table(r: random.Random, n: int):
    return {
        'x1': [round(r.uniform(-2, 2), 3) for _ in range(n)],
        'x2': [round(r.uniform(-2, 2), 3) for _ in range(n)],
        't3': [round(r.uniform(0.2, 3), 3) for _ in range(n)],
        'CH': [float(r.choice([1, 2, 3])) for _ in range(n)],
        'W': [round(r.uniform(0.2, 3), 3) for _ in range(n)],
    }


def _model(table, threads, weighted, mc=False):
    import pandas as pd
    import biogeme.database as db
    from biogeme.biogeme import BIOGEME
    from biogeme.parameters import Parameters
    from biogeme.expressions import Beta, Variable, log, MonteCarlo, bioDraws
    from biogeme import models

    b1 = Beta('b1', 0.1, None, None, 0)
    b2 = Beta('b2', -0.2, None, None, 0)
    asc = Beta('asc2', 0.3, None, None, 0)
    p = Parameters()
    if mc:
        # random coefficient, Monte-Carlo integration over draws shared (read-only) by the engine threads;
        # seeded so that every object of the sweep integrates over the same draws
        rc = b1 + b2 * bioDraws('e_rc', 'NORMAL')
        V = {1: rc * Variable('x1'), 2: asc + rc * Variable('x2'), 3: asc * log(Variable('t3'))}
        f = {'log_like': log(MonteCarlo(models.logit(V, None, Variable('CH'))))}
        p.set_value('seed', 4321)
        p.set_value('number_of_draws', 12)
    else:
        V = {1: b1 * Variable('x1'), 2: asc + b1 * Variable('x2'), 3: b2 * log(Variable('t3'))}
        f = {'log_like': models.loglogit(V, None, Variable('CH'))}
    if weighted:
        f['weight'] = Variable('W')
    p.set_value('save_iterations', False)
    p.set_value('number_of_threads', threads, 'MultiThreading')
    bg = BIOGEME(db.Database('stress', pd.DataFrame(table)), f, parameters=p)
    bg.generate_html = False
    bg.generate_pickle = False
    bg.save_iterations = False
    return bg


def main():
    import logging

    import numpy as np

    logging.getLogger('biogeme').setLevel(logging.CRITICAL)
    seed = int(sys.argv[1])
    profile = sys.argv[2]
    out = sys.argv[3]
    r = random.Random(f'c04stress/{seed}/{profile}')
    if profile == 'tsan_smoke':
        sizes, reps, rounds = [3, 40], 2, 1
    elif profile == 'tsan_full':
        sizes, reps, rounds = [1, 2, 5, 17, 400], 3, 5
    elif profile == 'sched_quick':
        sizes, reps, rounds = [5, 64, 400], 10, 1
    else:
        sizes, reps, rounds = [1, 3, 16, 33, 100, 400], 10, 2
    x = [0.45, -0.35, 0.25]
    xd = None
    res = {'profile': profile, 'pairs': 0, 'evaluations': 0, 'threads_seen': set(), 'max_dev_vs_single': 0.0,
           'max_run_to_run': 0.0, 'max_dev_simulate_sum': 0.0, 'worst': None, 'errors': []}
    t0 = time.time()
    try:
        for rnd in range(rounds):
            for n in sizes:
                table = _table(r, n)
                weighted = r.random() < 0.6
                mc = (res.get('tables', 0) % 2) == 1  # every other table integrates over draws
                res['tables'] = res.get('tables', 0) + 1
                res['monte_carlo_tables'] = res.get('monte_carlo_tables', 0) + int(mc)
                base = _model(table, 1, weighted, mc)
                xd = dict(zip(base.free_beta_names, x))
                sim = base.simulate(xd)
                ll = sim['log_like'].to_numpy()
                w = sim['weight'].to_numpy() if weighted else np.ones(n)
                scale = float(np.abs(w * ll).sum()) + 1e-300
                fo = base.calculate_likelihood_and_derivatives(x, scaled=False, hessian=True, bhhh=True)
                ref = [float(fo.function), np.array(fo.gradient), np.array(fo.hessian), np.array(fo.bhhh)]
                dsim = abs(float((w * ll).sum()) - ref[0]) / scale
                res['max_dev_simulate_sum'] = max(res['max_dev_simulate_sum'], dsim)
                dscale = [scale, np.abs(ref[1]).max() + scale, np.abs(ref[2]).max() + scale, np.abs(ref[3]).max() + scale]
                tlist = sorted({1, 2, 3, 5, 7, 8, 16, max(1, n - 1), n, n + 1, 4 * n, 64})
                if profile.startswith('tsan') and n > 100:
                    tlist = [2, 7, 16, 64]
                for t in tlist:
                    bg = _model(table, t, weighted, mc)
                    res['pairs'] += 1
                    res['threads_seen'].add(t)
                    first = None
                    for k in range(reps):
                        fo = bg.calculate_likelihood_and_derivatives(x, scaled=False, hessian=True, bhhh=True)
                        f0 = bg.calculate_likelihood(x, scaled=False)
                        cur = [float(fo.function), np.array(fo.gradient), np.array(fo.hessian), np.array(fo.bhhh)]
                        res['evaluations'] += 2
                        dev = max(float(np.max(np.abs(np.asarray(a) - np.asarray(b)))) / s for a, b, s in zip(cur, ref, dscale))
                        dev = max(dev, abs(f0 - ref[0]) / scale)
                        if dev > res['max_dev_vs_single']:
                            res['max_dev_vs_single'] = dev
                            res['worst'] = {'rows': n, 'threads': t, 'weighted': weighted, 'value': cur[0], 'single_thread_value': ref[0]}
                        if first is None:
                            first = cur
                        else:
                            rr = max(float(np.max(np.abs(np.asarray(a) - np.asarray(b)))) / s for a, b, s in zip(cur, first, dscale))
                            res['max_run_to_run'] = max(res['max_run_to_run'], rr)
                    s2 = bg.simulate(xd)
                    d2 = float(np.max(np.abs(s2['log_like'].to_numpy() - ll))) / (float(np.max(np.abs(ll))) + 1e-300)
                    res['max_dev_simulate_sum'] = max(res['max_dev_simulate_sum'], d2)
    except BaseException as e:  # recorded, the caller classifies
        res['errors'].append(f'{type(e).__name__}: {str(e)[:400]}')
    res['threads_seen'] = sorted(res['threads_seen'])
    res['wall_s'] = round(time.time() - t0, 2)
    res['cpus_allowed'] = len(os.sched_getaffinity(0)) if hasattr(os, 'sched_getaffinity') else None
    with open(out, 'w') as f:
        json.dump(res, f)


if __name__ == '__main__':
    main()
