"""AST (biomon.oracle.evalast format) -> real biogeme expression objects.

Built the way a user writes formulas: operator overloading wherever the
language offers it, raw Python numbers / bools where the AST marks them 'raw'.
Shared sub-trees ('share') become the *same object* under several parents.
"""
from __future__ import annotations

from .. import env  # noqa: F401  (sys.path)


def build(spec: dict, tree_copy=False):
    """returns (expression, dict name->Beta objects used)

    tree_copy=True: every 'share' reference is rebuilt as a fresh structurally
    equal copy (metamorphic partner of the DAG form)."""
    import biogeme.expressions as ex
    from biogeme import models

    shared = spec.get('shared', [])
    betas = spec['betas']
    memo = {}
    beta_objs = {}
    one_beta_object = spec.get('one_beta_object', False)

    def mk_beta(name):
        v, status = betas[name]
        lb, ub = (spec.get('bounds', {}).get(name) or (None, None))
        if one_beta_object:
            if name not in beta_objs:
                beta_objs[name] = ex.Beta(name, v, lb, ub, status)
            return beta_objs[name]
        b = ex.Beta(name, v, lb, ub, status)
        beta_objs[name] = b
        return b

    def raw_or_expr(node):
        """for operands: a raw python number when marked, else an Expression"""
        if node[0] == 'num' and len(node) > 2 and node[2] == 'raw':
            v = node[1]
            import numpy as np

            # numpy integer scalars are refused by the library ("This is not a valid expression"): a clean refusal,
            # not C01's subject; numpy floats are floats
            pick = hash(str(v)) % 5
            if float(v).is_integer() and abs(v) < 1e6 and pick in (0, 1):
                return int(v)
            return np.float64(v) if pick == 2 else float(v)
        if node[0] == 'bool':
            return bool(node[1])
        return B(node)

    def is_rawish(node):
        return (node[0] == 'num' and len(node) > 2) or node[0] == 'bool'

    def binop(node):
        op, a, b = node
        # at most one raw operand, the other must be an Expression for overloading to kick in
        if is_rawish(a) and is_rawish(b):
            x, y = B(a), raw_or_expr(b)
        else:
            x, y = raw_or_expr(a), raw_or_expr(b)
        if op == 'add':
            return x + y
        if op == 'sub':
            return x - y
        if op == 'mul':
            return x * y
        if op == 'div':
            return x / y
        if op == 'pow':
            return x ** y
        if op == 'min':
            return ex.bioMin(x, y)
        if op == 'max':
            return ex.bioMax(x, y)
        if op == 'and':
            return x & y
        if op == 'or':
            return x | y
        if op == 'eq':
            return x == y
        if op == 'ne':
            return x != y
        if op == 'le':
            return x <= y
        if op == 'ge':
            return x >= y
        if op == 'lt':
            return x < y
        if op == 'gt':
            return x > y
        raise ValueError(op)

    def B(node):
        op = node[0]
        if op == 'share':
            if tree_copy:
                return B(shared[node[1]])
            if node[1] not in memo:
                memo[node[1]] = B(shared[node[1]])
            return memo[node[1]]
        if op == 'num':
            return ex.Numeric(node[1])
        if op == 'bool':
            return ex.validate_and_convert(bool(node[1]))
        if op == 'beta':
            return mk_beta(node[1])
        if op == 'var':
            return ex.Variable(node[1])
        if op == 'draws':
            return ex.bioDraws(node[1], node[2])
        if op == 'rv':
            return ex.RandomVariable(node[1])
        if op == 'neg':
            return -B(node[1])
        if op in ('exp', 'log', 'logzero', 'sin', 'cos'):
            return getattr(ex, op)(raw_or_expr(node[1]) if is_rawish(node[1]) else B(node[1]))
        if op == 'ncdf':
            return ex.bioNormalCdf(B(node[1]))
        if op == 'powc':
            c = node[2]
            return B(node[1]) ** (int(c) if float(c).is_integer() else float(c))
        if op == 'belongs':
            return ex.BelongsTo(B(node[1]), set(node[2]))
        if op in ('add', 'sub', 'mul', 'div', 'pow', 'min', 'max', 'and', 'or', 'eq', 'ne', 'le', 'ge', 'lt', 'gt'):
            return binop(node)
        if op == 'multsum':
            items = [raw_or_expr(a) for a in node[1]]
            if node[2] == 'dict':
                return ex.bioMultSum({10 * i + 3: it for i, it in enumerate(items)})
            return ex.bioMultSum(items)
        if op == 'elem':
            return ex.Elem({int(k): raw_or_expr(a) for k, a in node[2]}, B(node[1]))
        if op == 'condsum':
            return ex.ConditionalSum([ex.ConditionalTermTuple(condition=raw_or_expr(c), term=raw_or_expr(t))
                                      for c, t in node[1]])
        if op == 'linutil':
            return ex.bioLinearUtility([ex.LinearTermTuple(beta=mk_beta(b), x=ex.Variable(x)) for b, x in node[1]])
        if op == 'loglogit':
            util = {int(k): raw_or_expr(a) for k, a in node[1]}
            av = None if node[2] is None else {int(k): raw_or_expr(a) for k, a in node[2]}
            ch = raw_or_expr(node[3])
            if node[4] == 'prob':
                return models.logit(util, av, ch)
            return models.loglogit(util, av, ch)
        if op == 'mc':
            return ex.MonteCarlo(B(node[1]))
        if op == 'panel':
            return ex.PanelLikelihoodTrajectory(B(node[1]))
        if op == 'integrate':
            return ex.Integrate(B(node[1]), node[2])
        if op == 'derive':
            return ex.Derive(B(node[1]), node[2])
        raise ValueError(f'unknown op {op}')

    top = B(spec['ast'])
    import biogeme.expressions as ex2

    if not isinstance(top, ex2.Expression):
        top = ex2.validate_and_convert(top)
    return top, beta_objs


def database(spec: dict, name='gen'):
    import pandas as pd
    import biogeme.database as db

    return db.Database(name, pd.DataFrame({k: list(v) for k, v in spec['data'].items()}))
