"""Seeded workload for C08: synthetic raw estimation outcomes, a stub model that
exposes exactly what ``RawResults.__init__`` reads, and small real choice
models to be estimated by the real BIOGEME.
"""
from __future__ import annotations

import datetime
import random
import types

import numpy as np

NAME_POOL = [
    'b_time', 'ASC_CAR', 'zeta', 'B_COST', 'lambda_1', 'mu', 'Beta10', 'beta2', 'asc_train', 'Z_scale',
    'sigma_panel', 'a', 'B', 'b_long_name_with_many_parts_01', 'theta', 'ALPHA', 'kappa_3', 'b_wait',
]

HESSIAN_KINDS = [
    'negdef', 'negdef', 'negdef', 'scaled', 'scaled', 'wellscaled_diag', 'singular_zero_param', 'singular_duplicate',
    'singular_lowrank_int', 'indefinite', 'zero',
    # regular (negative definite) Hessians whose curvature is small in ABSOLUTE terms: nothing singular about them
    'tiny_scale', 'tiny_scale', 'small_curvature', 'small_curvature', 'tiny_unit', 'tiny_unit',
]
BHHH_KINDS = ['psd_full', 'psd_full', 'info_equality', 'psd_lowrank', 'psd_scaled']


def _hessian(kind, k, rng):
    """minus-Hessian is built first (PSD), H = -A. Exactly singular kinds use
    exactly representable constructions (zero row/column, bit-identical
    duplicated row/column, small-integer low-rank factors)."""
    g = rng.normal(size=(k, k + 3))
    a = g @ g.T / (k + 3) + rng.uniform(0.05, 1.0) * np.eye(k)
    a = (a + a.T) / 2
    if kind == 'negdef':
        a = a * 10 ** rng.uniform(-1, 3)
    elif kind == 'scaled':
        d = 2.0 ** rng.integers(-5, 6, size=k)  # powers of two: parameters in very different units
        a = a * d[:, None] * d[None, :]
    elif kind == 'wellscaled_diag':
        a = np.diag(rng.uniform(0.5, 50.0, size=k))
    elif kind == 'singular_zero_param':
        z = int(rng.integers(0, k))
        a[z, :] = 0.0
        a[:, z] = 0.0
    elif kind == 'singular_duplicate':
        if k == 1:
            a[:] = 0.0
        else:
            i, j = (int(x) for x in rng.choice(k, size=2, replace=False))
            a[j, :] = a[i, :]
            a[:, j] = a[:, i]
            a[j, j] = a[i, i]
            a[i, j] = a[j, i] = a[i, i]
    elif kind == 'singular_lowrank_int':
        r = int(rng.integers(1, max(2, k)))
        f = rng.integers(-3, 4, size=(k, r)).astype(float)
        a = f @ f.T * 2.0 ** int(rng.integers(-3, 6))
    elif kind == 'indefinite':
        w, q = np.linalg.eigh(a)
        w[int(rng.integers(0, k))] *= -1.0
        a = (q * w) @ q.T
        a = (a + a.T) / 2
    elif kind == 'zero':
        a = np.zeros((k, k))
    elif kind == 'tiny_scale':
        # the whole likelihood is flat in absolute terms (few observations / tiny weights): well conditioned, scale 1e-3..1e-9
        a = a * 10 ** rng.uniform(-9, -3)
    elif kind == 'small_curvature':
        # one or two directions of small curvature (eigenvalues 1e-5..1e-8), the others O(1)
        w, q = np.linalg.eigh(a)
        w = rng.uniform(0.3, 3.0, size=k)
        for j in rng.choice(k, size=min(k, int(rng.integers(1, 3))), replace=False):
            w[int(j)] = 10 ** rng.uniform(-8, -5)
        a = (q * w) @ q.T
        a = (a + a.T) / 2
    elif kind == 'tiny_unit':
        # one or two attributes expressed in a tiny unit: their coefficients are huge, their curvature d^2 * O(1)
        d = np.ones(k)
        for j in rng.choice(k, size=min(k, int(rng.integers(1, 3))), replace=False):
            d[int(j)] = 10 ** rng.uniform(-4.2, -2.6)
        a = a * d[:, None] * d[None, :]
    return -a


def _bhhh(kind, k, h, rng):
    if kind == 'info_equality':
        s = rng.normal(size=(k, 4 * k + 4)) * 0.15
        b = -h + s @ s.T
        w = np.linalg.eigvalsh((b + b.T) / 2)
        if w.min() < 0:
            b = b + (1e-9 - w.min()) * np.eye(k)
    elif kind == 'psd_lowrank':
        s = rng.normal(size=(k, max(1, k - 1 - int(rng.integers(0, 2)))))
        b = s @ s.T
    elif kind == 'psd_scaled':
        s = rng.normal(size=(k, k + 2))
        d = 10 ** rng.uniform(-1.5, 1.5, size=k)
        b = (s @ s.T) * d[:, None] * d[None, :]
    else:
        s = rng.normal(size=(k, k + 2))
        b = s @ s.T * 10 ** rng.uniform(-1, 2)
    return (b + b.T) / 2


def make_raw(seed: int, i: int, tier: str = 'quick', force: dict | None = None) -> dict:
    """One synthetic raw outcome (JSON-able apart from numpy arrays)."""
    force = force or {}
    pr = random.Random(f'c08-{seed}-{i}')
    rng = np.random.default_rng([seed, i, 808])
    pool = force.get('pool') or NAME_POOL
    k = min(force.get('K') or pr.choice([1, 1, 2, 2, 3, 3, 4, 5, 6, 7, 8]), len(pool))
    names = pr.sample(pool, k)  # deliberately not alphabetical
    hkind = force.get('hessian') or pr.choice(HESSIAN_KINDS)
    bkind = force.get('bhhh') or pr.choice(BHHH_KINDS)
    h = _hessian(hkind, k, rng)
    bh = _bhhh(bkind, k, h, rng)
    beta = rng.normal(size=k) * 10 ** rng.uniform(-2, 1.5, size=k)
    if pr.random() < 0.15:
        beta[int(rng.integers(0, k))] = 0.0
    if k >= 2 and pr.random() < 0.1:
        beta[1] = beta[0]
    # bounds: mostly none; some active, some nearly active, some far
    bounds = {}
    for j, n in enumerate(names):
        u = pr.random()
        if u < 0.72:
            bounds[n] = [None, None]
        elif u < 0.80:
            bounds[n] = [float(beta[j]), None]  # exactly at lower bound
        elif u < 0.86:
            bounds[n] = [None, float(beta[j]) + 1e-7]  # numerically active
        elif u < 0.93:
            bounds[n] = [float(beta[j]) - 1e-3, float(beta[j]) + 5.0]  # not active
        else:
            bounds[n] = [float(beta[j]) - 2.0, None]
    L = -(10 ** pr.uniform(0, 5))
    if force.get('L') is not None:
        L = float(force['L'])
    L0 = L * (1 + 10 ** pr.uniform(-3, 0.7)) if pr.random() < 0.9 else L * (1 - 0.3 * pr.random())
    has_null = force.get('null', pr.random() < 0.6)
    Lnull = (L * (1 + 10 ** pr.uniform(-2, 0.7))) if has_null else None
    has_init = force.get('init', True)  # an absent initial likelihood is outside the property's quantifier
    if not has_init:
        L0 = None
    n = force.get('N') or int(pr.choice([1, 2, 7, 50, 300, 4000, 123457, 10 ** 6]) if pr.random() < 0.5 else pr.randint(3, 20000))
    panel = pr.random() < 0.35
    nobs = n * pr.randint(2, 9) if panel else n
    bsizes = [2, 10, 200] if tier == 'quick' else [2, 3, 10, 50, 200]
    b = force.get('B', pr.choice([None, None] + bsizes))
    boot = None
    if b:
        scale = np.abs(beta) * 10 ** rng.uniform(-2, 0, size=k) + 10 ** rng.uniform(-3, 0, size=k)
        mix = rng.normal(size=(k, k)) * 0.4 + np.eye(k)
        boot = beta[None, :] + (rng.normal(size=(b, k)) @ mix.T) * scale[None, :]
        if pr.random() < 0.04:
            boot[:, int(rng.integers(0, k))] = 1.0  # a replication that never moves
    grad = rng.normal(size=k) * 10 ** pr.uniform(-8, -2)
    return {
        'names': names, 'beta': beta, 'bounds': bounds, 'L': float(L), 'L0': None if L0 is None else float(L0),
        'Lnull': None if Lnull is None else float(Lnull), 'N': int(n), 'nobs': int(nobs), 'H': h, 'BHHH': bh,
        'bootstrap': boot, 'gradient': grad, 'hessian_kind': hkind, 'bhhh_kind': bkind, 'K': k,
        'as_list': pr.random() < 0.5, 'model_name': f'synthetic_{seed}_{i}',
    }


def stub_model(raw: dict):
    """Object exposing exactly the attributes ``RawResults.__init__`` reads."""
    n, nobs = raw['N'], raw['nobs']
    bounds = raw['bounds']
    db = types.SimpleNamespace(
        name='synthetic_data', get_sample_size=lambda: n, get_number_of_observations=lambda: nobs, typesOfDraws={},
        excludedData=0,
    )
    return types.SimpleNamespace(
        modelName=raw.get('model_name', 'synthetic'), user_notes=None,
        id_manager=types.SimpleNamespace(free_betas=types.SimpleNamespace(names=list(raw['names']))),
        initLogLike=raw['L0'], nullLogLike=raw['Lnull'],
        get_bounds_on_beta=lambda name: tuple(bounds[name]), database=db, monte_carlo=False, number_of_draws=0,
        drawsProcessingTime=datetime.timedelta(0),
        optimizationMessages={'Algorithm': 'synthetic outcome', 'Relative projected gradient': 1.0e-7},
        convergence=True, number_of_threads=1, bootstrap_time=datetime.timedelta(seconds=1),
    )


def build_results(raw: dict):
    """Push the raw outcome through the REAL RawResults / bioResults classes."""
    import biogeme.results as res
    from biogeme.function_output import BiogemeFunctionOutput

    beta = [float(x) for x in raw['beta']] if raw.get('as_list', True) else np.array(raw['beta'], dtype=float)
    fo = BiogemeFunctionOutput(
        function=raw['L'], gradient=np.array(raw['gradient'], dtype=float), hessian=np.array(raw['H'], dtype=float),
        bhhh=np.array(raw['BHHH'], dtype=float),
    )
    boot = None if raw['bootstrap'] is None else np.array(raw['bootstrap'], dtype=float)
    rr = res.RawResults(stub_model(raw), beta, fo, bootstrap=boot)
    return res.bioResults(rr)


# ----------------------------------------------------------------------------
# real models
# ----------------------------------------------------------------------------
REAL_KINDS = ['mnl', 'tiny_unit', 'panel', 'mnl_bounds', 'one_parameter', 'panel', 'unidentified', 'tiny_unit_one_parameter']


def make_real(seed: int, i: int) -> dict:
    """Specification of a small multinomial logit (optionally panel, optionally
    with an unidentified constant) with simulated choices."""
    pr = random.Random(f'c08-real-{seed}-{i}')
    # the kinds rotate with the case index so that every kind is exercised in every run
    kind = REAL_KINDS[(i + seed) % len(REAL_KINDS)]
    n_ind = pr.randint(40, 160)
    t = pr.randint(2, 4) if kind == 'panel' else 1
    return {
        'kind': kind, 'n_ind': n_ind, 'T': t, 'seed': pr.randrange(2 ** 31), 'bootstrap': pr.choice([0, 0, 5, 12]),
        'null': pr.random() < 0.6, 'nalt': 3, 'model_name': f'real_{seed}_{i}',
    }


TINY_UNIT = 2.0e-4


def real_dataframe(spec: dict):
    import pandas as pd

    rng = np.random.default_rng(spec['seed'])
    n = spec['n_ind'] * spec['T']
    x = rng.normal(size=(n, 3))
    c = rng.uniform(0.5, 3.0, size=(n, 3))
    u = -0.8 * x + -0.5 * c + np.array([0.0, 0.4, -0.3])[None, :] + rng.gumbel(size=(n, 3))
    ch = np.argmax(u, axis=1) + 1
    ids = np.repeat(np.arange(100, 100 + spec['n_ind']), spec['T'])
    d = {'pid': ids.astype(float), 'choice': ch.astype(float)}
    # 'tiny_unit': the cost attribute is expressed in a tiny unit (its coefficient is ~ -0.5 / unit, its curvature ~ unit^2)
    unit = TINY_UNIT if spec['kind'].startswith('tiny_unit') else 1.0
    for a in range(3):
        d[f'x{a + 1}'] = x[:, a]
        d[f'c{a + 1}'] = c[:, a] * unit
    return pd.DataFrame(d)


def build_real(spec: dict, workdir_outputs: bool):
    """Returns (biogeme object, availability dict, number of individuals, number of rows)."""
    import biogeme.database as db
    from biogeme import models
    from biogeme.biogeme import BIOGEME
    from biogeme.expressions import Beta, Variable, PanelLikelihoodTrajectory, log
    from biogeme.parameters import Parameters

    df = real_dataframe(spec)
    database = db.Database('c08_real', df)
    kind = spec['kind']
    if kind == 'panel':
        database.panel('pid')
    b_time = Beta('b_time', 0, None, None, 0)
    b_cost = Beta('B_COST', 0, -0.2 if kind == 'mnl_bounds' else None, None, 0)
    asc2 = Beta('asc_2', 0, None, None, 0)
    asc3 = Beta('ASC_3', 0, None, None, 0)
    asc1 = Beta('asc_1', 0, None, None, 0)
    if kind == 'one_parameter':
        v = {a: b_time * Variable(f'x{a}') for a in (1, 2, 3)}
    elif kind == 'tiny_unit_one_parameter':
        v = {a: b_cost * Variable(f'c{a}') for a in (1, 2, 3)}
    else:
        v = {
            1: b_time * Variable('x1') + b_cost * Variable('c1') + (asc1 if kind == 'unidentified' else 0),
            2: asc2 + b_time * Variable('x2') + b_cost * Variable('c2'),
            3: asc3 + b_time * Variable('x3') + b_cost * Variable('c3'),
        }
    av = {1: 1, 2: 1, 3: 1}
    if kind == 'panel':
        ll = log(PanelLikelihoodTrajectory(models.logit(v, av, Variable('choice'))))
    else:
        ll = models.loglogit(v, av, Variable('choice'))
    p = Parameters()
    p.set_value('bootstrap_samples', max(2, spec['bootstrap']), 'Estimation')
    p.set_value('generate_html', bool(workdir_outputs), 'Output')
    p.set_value('generate_pickle', bool(workdir_outputs), 'Output')
    p.set_value('save_iterations', False, 'Estimation')
    p.set_value('number_of_threads', 1, 'MultiThreading')
    bg = BIOGEME(database, ll, parameters=p)
    bg.modelName = spec['model_name']
    return bg, av, spec['n_ind'] if kind == 'panel' else len(df), len(df)
