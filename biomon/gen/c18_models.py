"""C18 workload: seeded MDCEV model specifications and their realisation as
real biogeme objects.

A specification is a small JSON-able dict (numbers only); `build(spec)` turns
it into a real `biogeme.mdcev` model + `Database`; `relabel(spec, sigma)` gives
the same consumer problem under other integer labels.  The oracle
(biomon/oracle/c18_kkt.py) reads the same dict and nothing else.
"""
from __future__ import annotations

import math
import random

VARIANTS = ('translated', 'generalized', 'gamma_profile', 'non_monotonic')
HAS_PRICE = {'translated': False, 'generalized': True, 'gamma_profile': True, 'non_monotonic': False}
HAS_ALPHA = {'translated': True, 'generalized': True, 'gamma_profile': False, 'non_monotonic': True}
LABELINGS = ('one_to_n', 'zero_based', 'random', 'shuffled_small', 'small_subset', 'wide')
COLS = ('x1', 'x2', 'x3')


def _r(v, nd=4):
    return round(v, nd)


def labels_for(rnd: random.Random, n: int, scheme: str) -> list[int]:
    if scheme == 'one_to_n':
        return list(range(1, n + 1))
    if scheme == 'zero_based':
        return list(range(n))
    if scheme == 'shuffled_small':
        lab = list(range(1, n + 1))
        rnd.shuffle(lab)
        return lab
    if scheme == 'small_subset':
        # distinct small integers, unsorted: labels and positions overlap without coinciding
        lab = rnd.sample(range(0, n + 3), n)
        return lab
    if scheme == 'wide':
        # large / negative labels: set iteration order is not the sorted order
        pool = rnd.sample(range(-50, 100000), n)
        return pool
    lab = rnd.sample(range(0, 400), n)
    return lab


def _linear(rnd: random.Random, lo: float, hi: float, ncols: int, with_prod: bool):
    cols = rnd.sample(COLS, rnd.randint(0, ncols))
    d = {'cte': _r(rnd.uniform(lo, hi)), 'coef': [[c, _r(rnd.uniform(-0.6, 0.6))] for c in cols]}
    if with_prod and rnd.random() < 0.25:
        d['prod'] = [['x1', 'x2', _r(rnd.uniform(-0.2, 0.2))]]
    return d


def gumbel(rnd: random.Random) -> float:
    u = rnd.uniform(1e-9, 1 - 1e-9)
    return -math.log(-math.log(u))


def make_spec(seed: int, i: int, *, variant=None, outside=None, labeling=None, n=None, budget=None,
              rows=None, draws=4, price=None, scale=None) -> dict:
    """case i of stream `seed`.  Keyword arguments pin a dimension (used by the
    stratified part of the workload); everything else is drawn."""
    rnd = random.Random(f'c18-{seed}-{i}')
    variant = variant or rnd.choice(VARIANTS)
    n = n or rnd.choice([2, 3, 3, 4, 4, 5, 6, 8])
    labeling = labeling or rnd.choice(LABELINGS)
    labels = labels_for(rnd, n, labeling)
    if outside is None:
        outside = rnd.random() < 0.5
    out_label = rnd.choice(labels) if outside else None
    if price is None:
        price = rnd.random() < 0.6
    price = bool(price) and HAS_PRICE[variant]
    if scale is None:
        scale = rnd.random() < 0.6
    nrows = rows or rnd.choice([1, 1, 2, 3])
    data = {c: [_r(rnd.uniform(-2, 2), 3) for _ in range(nrows)] for c in COLS}
    spec = {
        'variant': variant,
        'labeling': labeling,
        'labels': labels,
        'outside': out_label,
        'V': {str(l): _linear(rnd, -2.0, 2.0, 2, True) for l in labels},
        'mu': ({str(l): _linear(rnd, -1.5, 1.5, 1, False) for l in labels} if variant == 'non_monotonic' else None),
        'alpha': ({str(l): _r(rnd.uniform(0.05, 0.95)) for l in labels} if HAS_ALPHA[variant] else None),
        'gamma': {str(l): (None if l == out_label else _r(10 ** rnd.uniform(-1.3, 1.3), 5)) for l in labels},
        'price': ({str(l): _r(10 ** rnd.uniform(-0.7, 0.7)) for l in labels} if price else None),
        'scale': (_r(10 ** rnd.uniform(-0.5, 0.7)) if scale else None),
        # how each number is handed to biogeme: free Beta / fixed Beta / Numeric / expression of a Beta
        'kind': {
            'alpha': rnd.choice(['beta', 'beta', 'numeric', 'fixed', 'logistic']),
            'gamma': rnd.choice(['beta', 'beta', 'numeric', 'fixed', 'exp']),
            'price': rnd.choice(['numeric', 'numeric', 'beta', 'fixed']),
            'scale': rnd.choice(['beta', 'beta', 'numeric', 'fixed']),
        },
        'data': data,
        'budget': budget if budget is not None else float('%.4g' % (10 ** rnd.uniform(-2, 3.3))),
    }
    # expression kinds change the value in the last bits: store the value biogeme will actually see
    if spec['kind']['alpha'] == 'logistic' and spec['alpha']:
        for k, a in spec['alpha'].items():
            b = math.log(a / (1 - a))
            spec['alpha'][k] = 1.0 / (1.0 + math.exp(-b))
    if spec['kind']['gamma'] == 'exp':
        for k, g in spec['gamma'].items():
            if g is not None:
                spec['gamma'][k] = math.exp(math.log(g))
    spec['eps'] = [[{str(l): _r(gumbel(rnd), 6) for l in labels} for _ in range(draws)] for _ in range(nrows)]
    return spec


def relabel(spec: dict, sigma: dict[int, int], order: list[int] | None = None) -> dict:
    """the same problem under labels sigma[label]; `order` = new insertion order (old labels)"""
    order = order or spec['labels']

    def m(d):
        return None if d is None else {str(sigma[int(k)]): v for k, v in ((str(l), d[str(l)]) for l in order)}

    out = dict(spec)
    out['labels'] = [sigma[l] for l in order]
    out['outside'] = None if spec['outside'] is None else sigma[spec['outside']]
    for key in ('V', 'mu', 'alpha', 'gamma', 'price'):
        out[key] = m(spec.get(key))
    out['eps'] = [[m(e) for e in row] for row in spec['eps']]
    return out


def random_bijection(rnd: random.Random, labels: list[int]) -> tuple[dict[int, int], list[int]]:
    n = len(labels)
    scheme = rnd.choice(['random', 'wide', 'shuffled_small', 'zero_based', 'small_subset', 'permute_same'])
    if scheme == 'permute_same':
        new = list(labels)
        rnd.shuffle(new)
        if new == labels and n > 1:
            new = new[1:] + new[:1]
    else:
        new = labels_for(rnd, n, scheme)
        rnd.shuffle(new)
    sigma = dict(zip(labels, new))
    order = list(labels)
    rnd.shuffle(order)
    return sigma, order


# ---------------------------------------------------------------------------
def _param(name: str, value: float, kind: str, what: str):
    from biogeme.expressions import Beta, Numeric, exp

    if kind == 'numeric':
        return Numeric(value)
    if kind == 'fixed':
        return Beta(name, value, None, None, 1)
    if kind == 'exp' and what == 'gamma':
        return exp(Beta(name + '_log', math.log(value), None, None, 0))
    if kind == 'logistic' and what == 'alpha':
        b = math.log(value / (1 - value))
        return Numeric(1.0) / (Numeric(1.0) + exp(-Beta(name + '_logit', b, None, None, 0)))
    return Beta(name, value, None, None, 0)


def _linear_expr(prefix: str, lin: dict):
    from biogeme.expressions import Beta, Variable

    e = Beta(f'{prefix}_cte', lin['cte'], None, None, 0)
    for col, b in lin['coef']:
        e = e + Beta(f'{prefix}_{col}', b, None, None, 0) * Variable(col)
    for c1, c2, b in lin.get('prod', []):
        e = e + Beta(f'{prefix}_{c1}{c2}', b, None, None, 0) * Variable(c1) * Variable(c2)
    return e


def build(spec: dict, tag: str = 'm'):
    """real biogeme model + Database for a specification"""
    import pandas as pd
    from biogeme.database import Database
    from biogeme.mdcev import Translated, Generalized, GammaProfile, NonMonotonic

    labels = spec['labels']
    kind = spec['kind']

    def nm(l):
        return f'n{abs(l)}' + ('m' if l < 0 else '')

    base = {l: _linear_expr(f'v_{nm(l)}', spec['V'][str(l)]) for l in labels}
    gamma = {
        l: (None if spec['gamma'][str(l)] is None else _param(f'gamma_{nm(l)}', spec['gamma'][str(l)], kind['gamma'], 'gamma'))
        for l in labels
    }
    alpha = None
    if spec.get('alpha'):
        alpha = {l: _param(f'alpha_{nm(l)}', spec['alpha'][str(l)], kind['alpha'], 'alpha') for l in labels}
    prices = None
    if spec.get('price'):
        prices = {l: _param(f'price_{nm(l)}', spec['price'][str(l)], kind['price'], 'price') for l in labels}
    scale = None
    if spec.get('scale') is not None:
        scale = _param('scale', spec['scale'], kind['scale'], 'scale')
    v = spec['variant']
    name = f'c18_{tag}_{v}'
    if v == 'translated':
        model = Translated(model_name=name, baseline_utilities=base, gamma_parameters=gamma, alpha_parameters=alpha,
                           scale_parameter=scale)
    elif v == 'generalized':
        model = Generalized(model_name=name, baseline_utilities=base, gamma_parameters=gamma, alpha_parameters=alpha,
                            scale_parameter=scale, prices=prices)
    elif v == 'gamma_profile':
        model = GammaProfile(model_name=name, baseline_utilities=base, gamma_parameters=gamma, scale_parameter=scale,
                             prices=prices)
    elif v == 'non_monotonic':
        mu = {l: _linear_expr(f'mu_{nm(l)}', spec['mu'][str(l)]) for l in labels}
        model = NonMonotonic(model_name=name, baseline_utilities=base, gamma_parameters=gamma, mu_utilities=mu,
                             alpha_parameters=alpha, scale_parameter=scale)
    else:
        raise ValueError(v)
    db = Database(f'c18_{tag}', pd.DataFrame({c: [float(x) for x in spec['data'][c]] for c in COLS}))
    return model, db


def eps_matrix(model, eps_rows: list[dict]):
    """draws of one observation as the (draws x alternatives) array `forecast`
    wants: column j belongs to the alternative the model publishes as
    index_to_key[j]"""
    import numpy as np

    return np.array([[float(e[str(model.index_to_key[j])]) for j in range(len(model.index_to_key))] for e in eps_rows], dtype=float)


# ---------------------------------------------------------------------------
def directed() -> list[dict]:
    """fixed shapes run by every tier.  k=0..: the label of an inside good equals
    the *position* of the outside good (1..n labelling with the outside good not
    first), for each variant; then label = position shapes as controls."""
    out = []
    for v in VARIANTS:
        # labels 1..4, outside good 2 (DESIGN section 7 probe)
        s = make_spec(424242, len(out), variant=v, outside=True, labeling='one_to_n', n=4, budget=50.0, rows=1, draws=6,
                      price=False, scale=False)
        s = _force_outside(s, 2)
        s['directed'] = 'one_to_n-outside-2'
        out.append(s)
    for v in VARIANTS:
        s = make_spec(424243, len(out), variant=v, outside=True, labeling='zero_based', n=4, budget=50.0, rows=1, draws=6)
        s['directed'] = 'zero_based'
        out.append(s)
    for v in VARIANTS:
        s = make_spec(424244, len(out), variant=v, outside=True, labeling='one_to_n', n=5, budget=8.0, rows=2, draws=6)
        s = _force_outside(s, 1)
        s['directed'] = 'one_to_n-outside-first'
        out.append(s)
    # the caller asks for |sum - budget| <= 1e-7 * budget (tolerance_dual 1e-15): draws on which the bisection loop is
    # left on the budget criterion while its bracket is still wide (found by search, reproduced deterministically)
    for i in (0, 77, 109, 74):
        s = make_spec(777, i, labeling='zero_based', rows=1, draws=8)
        s['directed'] = 'budget-criterion-1e-7'
        s['force_tol'] = 'budget1e-7'
        out.append(s)
    return out


def _force_outside(spec: dict, lab: int) -> dict:
    old = spec['outside']
    if old == lab:
        return spec
    g = spec['gamma']
    g[str(old)], g[str(lab)] = g[str(lab)], None
    spec['outside'] = lab
    return spec


# ---------------------------------------------------------------------------
# histories on one model object: other data sets, estimation results attached between calls
def _nm(l: int) -> str:
    return f'n{abs(l)}' + ('m' if l < 0 else '')


def free_betas(spec: dict) -> dict[str, float]:
    """names and values of the free Beta parameters `build(spec)` creates (mirror of build)"""
    out = {}
    kind = spec['kind']
    for what, prefix in (('V', 'v'), ('mu', 'mu')):
        if not spec.get(what):
            continue
        for l in spec['labels']:
            lin = spec[what][str(l)]
            out[f'{prefix}_{_nm(l)}_cte'] = lin['cte']
            for col, b in lin['coef']:
                out[f'{prefix}_{_nm(l)}_{col}'] = b
            for c1, c2, b in lin.get('prod', []):
                out[f'{prefix}_{_nm(l)}_{c1}{c2}'] = b
    for l in spec['labels']:
        g = spec['gamma'][str(l)]
        if g is not None:
            if kind['gamma'] == 'beta':
                out[f'gamma_{_nm(l)}'] = g
            elif kind['gamma'] == 'exp':
                out[f'gamma_{_nm(l)}_log'] = math.log(g)
        if spec.get('alpha'):
            a = spec['alpha'][str(l)]
            if kind['alpha'] == 'beta':
                out[f'alpha_{_nm(l)}'] = a
            elif kind['alpha'] == 'logistic':
                out[f'alpha_{_nm(l)}_logit'] = math.log(a / (1 - a))
        if spec.get('price') and kind['price'] == 'beta':
            out[f'price_{_nm(l)}'] = spec['price'][str(l)]
    if spec.get('scale') is not None and kind['scale'] == 'beta':
        out['scale'] = spec['scale']
    return out


def spec_with_betas(spec: dict, betas: dict[str, float]) -> dict:
    """the specification whose free parameters carry the values `betas` (what the model must use once estimation
    results with these values are attached); fixed Betas / Numerics keep their values"""
    import copy

    out = copy.deepcopy(spec)
    kind = spec['kind']
    for what, prefix in (('V', 'v'), ('mu', 'mu')):
        if not spec.get(what):
            continue
        for l in spec['labels']:
            lin = out[what][str(l)]
            lin['cte'] = float(betas[f'{prefix}_{_nm(l)}_cte'])
            lin['coef'] = [[col, float(betas[f'{prefix}_{_nm(l)}_{col}'])] for col, _ in lin['coef']]
            if lin.get('prod'):
                lin['prod'] = [[c1, c2, float(betas[f'{prefix}_{_nm(l)}_{c1}{c2}'])] for c1, c2, _ in lin['prod']]
    for l in spec['labels']:
        if spec['gamma'][str(l)] is not None:
            if kind['gamma'] == 'beta':
                out['gamma'][str(l)] = float(betas[f'gamma_{_nm(l)}'])
            elif kind['gamma'] == 'exp':
                out['gamma'][str(l)] = math.exp(float(betas[f'gamma_{_nm(l)}_log']))
        if spec.get('alpha'):
            if kind['alpha'] == 'beta':
                out['alpha'][str(l)] = float(betas[f'alpha_{_nm(l)}'])
            elif kind['alpha'] == 'logistic':
                out['alpha'][str(l)] = 1.0 / (1.0 + math.exp(-float(betas[f'alpha_{_nm(l)}_logit'])))
        if spec.get('price') and kind['price'] == 'beta':
            out['price'][str(l)] = float(betas[f'price_{_nm(l)}'])
    if spec.get('scale') is not None and kind['scale'] == 'beta':
        out['scale'] = float(betas['scale'])
    return out


def perturbed_betas(rnd: random.Random, spec: dict) -> dict[str, float]:
    """other admissible values for every free parameter of the specification"""
    out = {}
    for name, v in free_betas(spec).items():
        if name.startswith(('v_', 'mu_')):
            out[name] = _r(v + rnd.uniform(-0.8, 0.8))
        elif name.endswith('_logit'):
            a = rnd.uniform(0.08, 0.92)
            out[name] = _r(math.log(a / (1 - a)), 6)
        elif name.startswith('alpha_'):
            out[name] = _r(rnd.uniform(0.08, 0.92))
        elif name.endswith('_log'):
            out[name] = _r(v + rnd.uniform(-0.7, 0.7), 6)
        else:  # gamma, price, scale: positive
            out[name] = _r(v * 10 ** rnd.uniform(-0.3, 0.3), 5)
    return out


def history_spec(seed: int, i: int, *, variant: str, outside: bool, draws: int) -> dict:
    """a specification for the history family: >= 2 observations, labels that are not 0..J-1, every baseline (and mu)
    utility depends on the data"""
    rnd = random.Random(f'c18-hist-{seed}-{i}')
    spec = make_spec(seed, 300000 + i, variant=variant, outside=outside, rows=rnd.choice([2, 3]), draws=draws,
                     labeling=rnd.choice(['one_to_n', 'random', 'shuffled_small', 'small_subset', 'wide']),
                     n=rnd.choice([2, 3, 4, 5]))
    for what in ('V', 'mu'):
        if spec.get(what):
            for l in spec['labels']:
                lin = spec[what][str(l)]
                if not lin['coef']:
                    lin['coef'] = [[rnd.choice(COLS), _r(rnd.choice([-1, 1]) * rnd.uniform(0.25, 0.6))]]
    return spec


def other_data(rnd: random.Random, spec: dict) -> dict:
    """another data set with the same columns and number of rows, other values"""
    n = len(spec['eps'])
    return {c: [_r(rnd.uniform(-2, 2), 3) for _ in range(n)] for c in COLS}


def permuted_data(spec: dict) -> dict:
    """the same observations in another order (rotation by one)"""
    return {c: v[1:] + v[:1] for c, v in spec['data'].items()}


# ---------------------------------------------------------------------------
# frame index styles, produced through the routes a user has
INDEX_STYLES = ('default', 'sorted', 'shuffled', 'remove', 'extract_reordered', 'offset', 'strings', 'duplicated')


def routed_database(spec_data: dict, style: str, rnd: random.Random, name: str = 'c18idx'):
    """a Database holding the observations of `spec_data` (possibly in another order) whose frame index has the given
    style, built the way a user gets such a frame.  Returns (Database, data by POSITION as {col: [values]}, index labels).
    Observation i of the result is, by definition, the i-th row of the frame (position)."""
    import pandas as pd
    from biogeme.database import Database

    n = len(next(iter(spec_data.values())))
    base = pd.DataFrame({c: [float(x) for x in spec_data[c]] for c in spec_data})
    if style == 'default':
        db = Database(name, base)
    elif style == 'sorted':
        # a frame sorted on one of its variables keeps the labels of the unsorted frame
        col = rnd.choice(list(spec_data))
        db = Database(name, base.sort_values(col, ascending=bool(rnd.getrandbits(1))))
    elif style == 'shuffled':
        f = base.sample(frac=1.0, random_state=rnd.randrange(10**6))
        for _ in range(20):
            if n < 2 or list(f.index) != list(range(n)):
                break
            f = base.sample(frac=1.0, random_state=rnd.randrange(10**6))
        db = Database(name, f)
    elif style == 'remove':
        # extra observations flagged for exclusion, interleaved, then Database.remove: labels with gaps
        k = rnd.randint(1, 3)
        extra = pd.DataFrame({c: [round(rnd.uniform(-2, 2), 3) for _ in range(k)] for c in spec_data})
        base2 = base.copy()
        base2['excluded'] = 0.0
        extra['excluded'] = 1.0
        pos = sorted(rnd.sample(range(n + k), k))
        rows, bi, ei = [], 0, 0
        for j in range(n + k):
            if j in pos:
                rows.append(extra.iloc[ei]); ei += 1
            else:
                rows.append(base2.iloc[bi]); bi += 1
        full = pd.DataFrame(rows).reset_index(drop=True)
        db = Database(name, full)
        from biogeme.expressions import Variable

        db.remove(Variable('excluded'))
    elif style == 'extract_reordered':
        # Database.extract_rows with positions in another order (and one observation more than needed left out)
        extra = pd.DataFrame({c: [round(rnd.uniform(-2, 2), 3)] for c in spec_data})
        full = pd.concat([base, extra], ignore_index=True)
        order = list(range(n))
        rnd.shuffle(order)
        if order == list(range(n)) and n > 1:
            order = order[1:] + order[:1]
        db = Database(name, full).extract_rows(order)
    elif style == 'offset':
        f = base.copy()
        f.index = range(100, 100 + n)
        db = Database(name, f)
    elif style == 'strings':
        f = base.copy()
        f.index = [f'obs_{chr(97 + (7 * j) % 26)}{j}' for j in range(n)]
        db = Database(name, f)
    elif style == 'duplicated':
        # two samples stacked with pd.concat: labels 0..k-1 then 0..n-k-1
        k = max(1, n // 2)
        db = Database(name, pd.concat([base.iloc[:k], base.iloc[k:].reset_index(drop=True)]))
    else:
        raise ValueError(style)
    frame = db.data
    data = {c: [float(v) for v in frame[c].to_numpy()] for c in spec_data}
    return db, data, [str(x) for x in frame.index]
