"""C10 workload generators: Monte-Carlo, Integrate and Derive formulas as ASTs.

Everything is a pure function of (seed, index): the worker regenerates the
case from its small descriptor. ASTs are in biomon.oracle.evalast format plus
  ['draws', name, type]  ['mc', a]  ['rv', name]  ['integrate', a, rv]  ['derive', a, name]
"""
from __future__ import annotations

import copy
import math
import random

from . import exprs
from ..oracle import c10_oracle as co

NATIVE_ANY = ['UNIFORM', 'UNIFORM_HALTON2', 'UNIFORM_HALTON3', 'UNIFORM_HALTON5', 'UNIFORM_MLHS',
              'UNIFORMSYM', 'UNIFORMSYM_HALTON2', 'UNIFORMSYM_HALTON3', 'UNIFORMSYM_HALTON5', 'UNIFORMSYM_MLHS',
              'NORMAL', 'NORMAL_HALTON2', 'NORMAL_HALTON3', 'NORMAL_HALTON5', 'NORMAL_MLHS']
NATIVE_EVEN = ['UNIFORM_ANTI', 'UNIFORM_MLHS_ANTI', 'UNIFORMSYM_ANTI', 'UNIFORMSYM_MLHS_ANTI', 'NORMAL_ANTI',
               'NORMAL_MLHS_ANTI']
# native types whose series depend on numpy's global random state
RANDOM_NATIVE = {'UNIFORM', 'UNIFORM_ANTI', 'UNIFORM_MLHS', 'UNIFORM_MLHS_ANTI', 'UNIFORMSYM', 'UNIFORMSYM_ANTI',
                 'UNIFORMSYM_MLHS', 'UNIFORMSYM_MLHS_ANTI', 'NORMAL', 'NORMAL_ANTI', 'NORMAL_MLHS', 'NORMAL_MLHS_ANTI'}
USER = list(co.USER_TYPES)

# alphabetical order != order of appearance != order of the types
DRAW_NAMES = ['xi', 'B_draw', 'eta_2', 'Alpha', 'z1', 'omega_d', '_e', 'draw10', 'draw9', 'Zd', 'a_draw', 'mu_r']
RV_NAMES = ['omega', 'w1', 'Zeta', 'e_rv', 'A_rv', 'nu']

R_SET = {'quick': [1, 2, 7, 50], 'thorough': [1, 2, 7, 50, 3, 4, 16, 100]}


# ---------------------------------------------------------------------------
# tree helpers


def expand_shares(node, shared):
    if not isinstance(node, list):
        return node
    if node and node[0] == 'share':
        return expand_shares(copy.deepcopy(shared[node[1]]), shared)
    return [expand_shares(x, shared) for x in node]


def _is_op(node):
    return isinstance(node, list) and node and isinstance(node[0], str)


def var_leaf_sites(ast, shared, smooth_only=False):
    """list of (container, index) of ['var', name] leaves reachable from ast
    (through shares, each shared sub-tree visited once). smooth_only: skip
    leaves under branching operators (comparisons, min/max, keys, conditions)."""
    sites = []
    seen = set()
    branching = {'min', 'max', 'and', 'or', 'belongs', 'eq', 'ne', 'le', 'ge', 'lt', 'gt'}

    def walk(node, smooth):
        if not isinstance(node, list):
            return
        if _is_op(node):
            op = node[0]
            if op == 'share':
                if node[1] not in seen:
                    seen.add(node[1])
                    holder = shared
                    if _is_op(shared[node[1]]) and shared[node[1]][0] == 'var':
                        if smooth or not smooth_only:
                            sites.append((holder, node[1]))
                    else:
                        walk(shared[node[1]], smooth)
                return
            if op in ('linutil', 'num', 'bool', 'beta', 'var', 'draws', 'rv'):
                return
            s2 = smooth and op not in branching
            if op == 'elem':
                visit(node, 1, False)
                for ent in node[2]:
                    visit(ent, 1, s2)
                return
            if op == 'condsum':
                for ent in node[1]:
                    visit(ent, 0, False)
                    visit(ent, 1, s2)
                return
            if op == 'loglogit':
                for ent in node[1]:
                    visit(ent, 1, s2)
                if node[2]:
                    for ent in node[2]:
                        visit(ent, 1, False)
                visit(node, 3, False)
                return
            if op == 'multsum':
                for k in range(len(node[1])):
                    visit(node[1], k, s2)
                return
            for k in range(1, len(node)):
                if isinstance(node[k], list):
                    visit(node, k, s2)
            return
        for k in range(len(node)):
            visit(node, k, smooth)

    def visit(container, k, smooth):
        ch = container[k]
        if _is_op(ch) and ch[0] == 'var':
            if smooth or not smooth_only:
                sites.append((container, k))
        else:
            walk(ch, smooth)

    top = [ast]
    visit(top, 0, True)
    return sites, top


def column_kind(col):
    vals = [float(v) for v in col]
    if all(v == int(v) for v in vals):
        return 'int'
    if all(v > 0 for v in vals):
        return 'pos'
    return 'real'


def ops_in(ast, shared):
    return exprs.ops_in(ast, shared)


# ---------------------------------------------------------------------------
# Monte-Carlo cases


def pick_draw_vars(rng, R, kmax=4, force_k=None):
    k = force_k or rng.choice([1, 2, 2, 3, 3, 4][: max(1, kmax + 2)])
    k = min(k, kmax)
    names = rng.sample(DRAW_NAMES, k)
    natives = NATIVE_ANY + (NATIVE_EVEN if R % 2 == 0 else [])
    types = []
    for j in range(k):
        c = rng.random()
        if c < 0.45:
            t = rng.choice(USER)
        else:
            t = rng.choice(natives)
        # mostly different types in one formula; sometimes two variables of the same type
        if t in types and rng.random() < 0.8:
            pool = [x for x in USER + natives if x not in types]
            t = rng.choice(pool)
        types.append(t)
    if k >= 2 and rng.random() < 0.7:
        # make sure native and user-defined types meet in one formula
        if all(t in USER for t in types):
            types[rng.randrange(k)] = rng.choice([x for x in natives if x not in types])
        elif all(t not in USER for t in types):
            types[rng.randrange(k)] = rng.choice([x for x in USER if x not in types])
    return [[n, t] for n, t in zip(names, types)]


def _draw_expr(rng, name, typ, kind, col):
    d = ['draws', name, typ]
    if kind == 'pos':
        return ['exp', ['mul', ['num', rng.choice([0.4, 0.25, -0.3])], d]]
    c = rng.random()
    if c < 0.4:
        return d
    if c < 0.6:
        return ['mul', ['num', rng.choice([0.8, -0.5, 1.5])], d]
    if c < 0.85:
        return ['add', ['var', col], d]
    return ['mul', ['var', col], d]


def plant_draws(rng, ast, shared, data, dvars, min_each=1):
    """Replace some real-valued variable leaves of ast by draw variables; every
    draw variable is used at least once (appended if there is no room)."""
    sites, top = var_leaf_sites(ast, shared)
    sites = [(c, k) for c, k in sites if column_kind(data[c[k][1]]) != 'int']
    rng.shuffle(sites)
    used = []
    want = list(dvars)
    rng.shuffle(want)
    extra = [rng.choice(dvars) for _ in range(rng.randint(0, 3))]
    for (c, k), (nm, ty) in zip(sites, want + extra):
        col = c[k][1]
        c[k] = _draw_expr(rng, nm, ty, column_kind(data[col]), col)
        used.append(nm)
    ast = top[0]
    for nm, ty in dvars:
        if nm not in used:
            term = ['mul', ['num', rng.choice([0.5, -0.7, 1.0, 0.3])], ['draws', nm, ty]]
            if rng.random() < 0.5:
                term = ['sin', term]
            ast = [rng.choice(['add', 'sub']), ast, term]
    return ast


def appearance_order(ast, shared):
    out = []
    seen = set()

    def walk(n):
        if not isinstance(n, list):
            return
        if _is_op(n):
            if n[0] == 'draws':
                if n[1] not in out:
                    out.append(n[1])
                return
            if n[0] == 'share':
                if n[1] not in seen:
                    seen.add(n[1])
                    walk(shared[n[1]])
                return
        for x in n:
            walk(x)

    walk(ast)
    return out


def make_mc(seed, i, tier='quick', directed=None):
    rng = random.Random(f'c10/mc/{seed}/{i}')
    R = rng.choice(R_SET[tier])
    N = rng.randint(1, 12)
    K = None
    if directed == 'square':
        # table whose three extents coincide: a transposed table has the right shape
        R = N = K = rng.choice([2, 3, 4])
    spec = exprs.make_case(seed * 7919 + 11, i, max_depth=rng.randint(1, 4), nrows=N, extra=2,
                           allow_ncdf=rng.random() < 0.5)
    shared_before = copy.deepcopy(spec['shared'])
    dvars = pick_draw_vars(rng, R, force_k=K)
    mode = rng.choice(['top', 'top', 'top', 'nested', 'nested', 'two'])
    main = plant_draws(rng, spec['ast'], spec['shared'], spec['data'], dvars)
    if mode == 'top':
        ast = ['mc', main]
    elif mode == 'nested':
        other = expand_shares(spec['extra_asts'][0], shared_before)
        comb = rng.choice(['add', 'mul', 'sub', 'log', 'elem'])
        if comb == 'log':
            ast = ['add', ['log', ['mc', ['exp', ['sin', main]]]], other]
        elif comb == 'elem':
            ast = ['elem', ['bool', True], [[0, other], [1, ['mc', main]]]]
        else:
            ast = [comb, other, ['mc', main]] if rng.random() < 0.5 else [comb, ['mc', main], other]
    else:
        second = expand_shares(spec['extra_asts'][1], shared_before)
        sub = rng.sample(dvars, rng.randint(1, len(dvars)))
        second = plant_draws(rng, second, [], spec['data'], sub)
        ast = [rng.choice(['add', 'sub', 'mul']), ['mc', main], ['mc', second]]
    out = {
        'ast': ast, 'shared': spec['shared'], 'data': spec['data'], 'betas': spec['betas'],
        'dvars': dvars, 'R': R, 'N': N, 'mode': mode,
    }
    # a second formula for the side-by-side BIOGEME run: uses one more draw variable
    extra_name = [n for n in DRAW_NAMES if n not in [d[0] for d in dvars]][rng.randrange(3)]
    extra_type = rng.choice(USER + NATIVE_ANY)
    out['side'] = {'ast': ['mc', ['add', ['draws', extra_name, extra_type],
                                  ['mul', ['num', 0.5], ['draws', dvars[0][0], dvars[0][1]]]]],
                   'dvars': [[extra_name, extra_type], dvars[0]]}
    return out


# ---------------------------------------------------------------------------
# Integrate cases


def _coef(rng, sp, small=True):
    """row/parameter dependent coefficient of moderate size"""
    c = rng.random()
    s = rng.choice([0.3, 0.5, 0.8, 1.0, -0.6, -1.0, 1.2, 2.0, -1.6])
    if c < 0.25:
        return ['num', s]
    if c < 0.5 and sp.betas:
        return ['mul', ['num', round(s * 0.6, 3)], ['beta', rng.choice(list(sp.betas))]]
    if c < 0.75:
        return ['mul', ['num', round(s * 0.4, 3)], ['var', rng.choice(sp.real + sp.pos)]]
    if sp.betas:
        return ['mul', ['mul', ['num', round(s * 0.3, 3)], ['beta', rng.choice(list(sp.betas))]],
                ['var', rng.choice(sp.real + sp.pos)]]
    return ['num', s]


def _factor(rng, sp, rv, allow_ncdf):
    w = ['rv', rv]
    lin = lambda: ['add', _coef(rng, sp), ['mul', _coef(rng, sp), w]]
    kinds = ['exp', 'sin', 'cos', 'pow', 'logistic', 'logit2', 'affine', 'elem']
    if allow_ncdf:
        kinds.append('ncdf')
    k = rng.choice(kinds)
    if k == 'exp':
        return ['exp', lin()], k
    if k in ('sin', 'cos'):
        return ['add', ['num', 1.5], [k, lin()]], k
    if k == 'pow':
        return ['powc', w, rng.choice([1, 2, 2, 3, 4, 6])], k
    if k == 'logistic':
        return ['div', ['num', 1.0], ['add', ['num', 1.0], ['exp', ['neg', lin()]]]], k
    if k == 'logit2':
        # binary/ternary logit probability with the random term in the utilities
        kc = rng.choice(sp.key)
        alts = list(sp.keysets[kc])
        utils = [[a, lin() if rng.random() < 0.7 else _coef(rng, sp)] for a in alts]
        if not any(co_has_rv(u[1]) for u in utils):
            utils[0][1] = lin()
        return ['loglogit', utils, None, ['var', kc], 'prob'], k
    if k == 'affine':
        return ['add', ['num', 2.0], ['mul', _coef(rng, sp), w]], k
    if k == 'elem':
        kc = rng.choice(sp.key)
        return ['elem', ['var', kc], [[a, ['exp', lin()] if j % 2 else ['add', ['num', 1.5], ['cos', lin()]]]
                                      for j, a in enumerate(sp.keysets[kc])]], k
    return ['ncdf', lin()], k


def co_has_rv(node):
    if not isinstance(node, list):
        return False
    if node and node[0] == 'rv':
        return True
    return any(co_has_rv(x) for x in node if isinstance(x, list))


def make_integrand(rng, sp, rv, allow_ncdf=False):
    nf = rng.choice([1, 1, 2, 2, 3])
    fs, kinds = [], []
    for _ in range(nf):
        f, k = _factor(rng, sp, rv, allow_ncdf)
        fs.append(f)
        kinds.append(k)
    g = fs[0]
    for f in fs[1:]:
        g = [rng.choice(['mul', 'mul', 'add']), g, f]
    # density factor written the way users write it
    dens = co.phi_ast(rv)
    if rng.random() < 0.5:
        return ['mul', dens, g], kinds
    return ['mul', g, dens], kinds


def make_integrate(seed, i, tier='quick'):
    rng = random.Random(f'c10/int/{seed}/{i}')
    N = rng.randint(1, 8)
    sp = exprs.Space(rng, nrows=N)
    g = exprs.Gen(rng, sp, max_depth=2, allow_logit=False, allow_ncdf=False)
    rvs = rng.sample(RV_NAMES, 2)
    allow_ncdf = rng.random() < 0.15
    mode = rng.choice(['plain', 'plain', 'nested', 'nested', 'two', 'two_same_rv'])
    f1, k1 = make_integrand(rng, sp, rvs[0], allow_ncdf)
    I1 = ['integrate', f1, rvs[0]]
    kinds = list(k1)
    if mode == 'plain':
        ast = I1
    elif mode == 'nested':
        other = g.real(2)
        other = expand_shares(other, g.shared)
        comb = rng.choice(['add', 'mul', 'log', 'elem', 'neg', 'div'])
        if comb == 'log':
            ast = ['log', ['add', ['powc', I1, 2], ['num', 0.5]]]
        elif comb == 'elem':
            kc = rng.choice(sp.key)
            ast = ['elem', ['var', kc], [[a, I1 if j == 0 else other] for j, a in enumerate(sp.keysets[kc])]]
        elif comb == 'neg':
            ast = ['neg', ['sin', I1]]
        elif comb == 'div':
            ast = ['div', other, ['add', ['powc', I1, 2], ['num', 1.0]]]
        else:
            ast = [comb, other, I1] if rng.random() < 0.5 else [comb, I1, other]
    else:
        rv2 = rvs[1] if mode == 'two' else rvs[0]
        f2, k2 = make_integrand(rng, sp, rv2, allow_ncdf)
        kinds += k2
        ast = [rng.choice(['add', 'sub', 'mul']), I1, ['integrate', f2, rv2]]
    return {'ast': ast, 'shared': [], 'data': sp.data, 'betas': sp.betas, 'mode': mode, 'kinds': kinds,
            'ncdf': allow_ncdf, 'N': N}


def closed_form_cases():
    """(a, k): integral of phi(w) w^k exp(a w) = exp(a^2/2) E[(w+a)^k]"""
    out = []
    for k in range(0, 7):
        for a in (0.0, 0.3, -0.8, 1.5, 2.5):
            out.append([a, k])
    return out


# ---------------------------------------------------------------------------
# Derive cases


def names_in(ast, shared):
    """(betas, vars) named anywhere in the tree, in order of appearance"""
    bs, vs = [], []
    seen = set()

    def walk(n):
        if not isinstance(n, list):
            return
        if _is_op(n):
            if n[0] == 'beta':
                if n[1] not in bs:
                    bs.append(n[1])
                return
            if n[0] == 'var':
                if n[1] not in vs:
                    vs.append(n[1])
                return
            if n[0] == 'linutil':
                for b, x in n[1]:
                    if b not in bs:
                        bs.append(b)
                    if x not in vs:
                        vs.append(x)
                return
            if n[0] == 'share':
                if n[1] not in seen:
                    seen.add(n[1])
                    walk(shared[n[1]])
                return
        for x in n:
            walk(x)

    walk(ast)
    return bs, vs


def make_derive(seed, i, tier='quick', allow_linutil=None):
    rng = random.Random(f'c10/der/{seed}/{i}')
    allow = (i % 6 == 0) if allow_linutil is None else allow_linutil
    for attempt in range(30):
        spec = exprs.make_case(seed * 104729 + 13, i * 30 + attempt, differentiable=True,
                               max_depth=rng.randint(2, 4), nrows=rng.randint(1, 8), extra=1,
                               allow_ncdf=rng.random() < 0.4)
        ops = exprs.ops_in(spec['ast'], spec['shared'])
        bs, vs = names_in(spec['ast'], spec['shared'])
        vs_real = [v for v in vs if column_kind(spec['data'][v]) != 'int']
        if not (bs or vs_real):
            continue
        if ('linutil' in ops) == allow:
            break
    c = rng.random()
    free = [b for b in bs if spec['betas'][b][1] == 0]
    fixed = [b for b in bs if spec['betas'][b][1] == 1]
    target = None
    kind = None
    for _ in range(10):
        c = rng.random()
        if c < 0.4 and free:
            target, kind = rng.choice(free), 'free'
        elif c < 0.6 and fixed:
            target, kind = rng.choice(fixed), 'fixed'
        elif vs_real:
            target, kind = rng.choice(vs_real), 'var'
        if target:
            break
    if target is None:
        target, kind = (bs[0], 'free' if spec['betas'][bs[0]][1] == 0 else 'fixed') if bs else (list(spec['data'])[0], 'var')
    d = ['derive', spec['ast'], target]
    mode = rng.choice(['plain', 'plain', 'nested'])
    if mode == 'nested':
        other = expand_shares(spec['extra_asts'][0], spec['shared'])
        comb = rng.choice(['add', 'mul', 'sin', 'sub'])
        if comb == 'sin':
            ast = ['sin', d]
        else:
            ast = [comb, other, d] if rng.random() < 0.5 else [comb, d, other]
    else:
        ast = d
    return {'ast': ast, 'child': spec['ast'], 'shared': spec['shared'], 'data': spec['data'], 'betas': spec['betas'],
            'target': target, 'target_kind': kind, 'mode': mode, 'linutil': 'linutil' in ops}
