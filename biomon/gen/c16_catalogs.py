"""C16 workload: seeded generator of formulas that contain catalogs.

The AST is the one of biomon.oracle.evalast / biomon.gen.exprs extended with
*choice nodes* (never seen by the reference evaluator: biomon.oracle.c16_model
resolves them away for one configuration, which yields the formula "written out
by hand"):

  ['catalog', catalog_name, controller_name, explicit, [[member_name, ast], ...]]
        explicit=False: the catalog creates its own controller (named like the catalog)
        explicit=True : a Controller object named controller_name is shared by every
                        catalog that names it
  ['segcat', h, k]        k-th catalog returned by segmentation_catalogs(**helpers[h])
  ['gencat', h, k, alt]   generic_alt_specific_catalogs(**helpers[h])[k][alt]

Nothing in this module imports biogeme.
"""
from __future__ import annotations

import random

from . import exprs

_CAT_POOL = ['zcat', 'Model', 'a_spec', 'k9', 'time_spec', 'B_nl', '_c', 'mix', 'k10', 'Cost spec', 'tt-form', 'u.v']
_CTRL_POOL = ['ctrl_b', 'Zc', 'alpha', 'k_10', 'k_9', 'Sync', '_ct', 'beta ctrl']
_SPEC_POOL = ['lin', 'log', 'sq', 'boxcox', 'a', 'B', '_z', 'm10', 'm9', 'no', 'Yes', 'x-y', 'p q', 'generic', 'alt.spec', '0']
_SEG_NAMES = ['lo', 'mid', 'hi', 'top', 'rest', 'urban', 'Rural', 'm', 'f', 'other']
_ALT_NAMES = ['car', 'bus', 'rail', 'walk']


def plan_controllers(r: random.Random, max_space: int, want_shared=False):
    """-> list of slots (one per catalog to be placed), in placement order."""
    cats = _CAT_POOL[:]
    ctrls = _CTRL_POOL[:]
    r.shuffle(cats)
    r.shuffle(ctrls)
    big = max_space >= 200
    nctrl = r.choice([3, 4, 4]) if big else r.choice([1, 2, 2, 3, 3, 4])
    sizes = []
    space = 1
    for _ in range(nctrl):
        if big:
            s = r.choice([3, 4, 4, 2])
        else:
            s = r.choice([2, 2, 3, 3, 4, 1] if r.random() < 0.15 else [2, 2, 3, 3, 4])
        if space * s > max_space:
            s = 2
        if space * s > max_space:
            break
        sizes.append(s)
        space *= s
    slots = []
    for ci, s in enumerate(sizes):
        specs = r.sample(_SPEC_POOL, s)
        explicit = r.random() < 0.45 or (want_shared and ci == 0)
        if explicit:
            cname = ctrls.pop()
            ncat = r.choice([1, 2, 2, 3]) if not (want_shared and ci == 0) else r.choice([2, 3])
            for _ in range(ncat):
                if cats:
                    slots.append({'cat': cats.pop(), 'ctrl': cname, 'explicit': True, 'specs': specs})
        else:
            if cats:
                nm = cats.pop()
                slots.append({'cat': nm, 'ctrl': nm, 'explicit': False, 'specs': specs})
    r.shuffle(slots)
    return slots


class CGen(exprs.Gen):
    """exprs.Gen that now and then puts a catalog where a (typed) sub-formula is expected.
    Members are produced by the same typed method, so each member respects the domain of
    its position; members recurse through the overridden methods (nested catalogs)."""

    def __init__(self, rng, sp, plan, cat_prob=0.2, **kw):
        super().__init__(rng, sp, **kw)
        self.plan = list(plan)
        self.cat_prob = cat_prob
        self.placed = []

    def _maybe(self, make_member):
        if not self.plan or self.r.random() >= self.cat_prob:
            return None
        slot = self.plan.pop(0)
        members = []
        for s in slot['specs']:
            m = make_member()
            for _ in range(6):
                if all(m != other for _, other in members):
                    break
                m = make_member()
            members.append([s, m])
        self.placed.append(slot['cat'])
        return ['catalog', slot['cat'], slot['ctrl'], slot['explicit'], members]

    def real(self, d, data_only=False, force=None):
        if force is None:
            dd = max(d - 1, 0)
            n = self._maybe(lambda: (self.real(dd, data_only) if self.r.random() < 0.3
                                     else exprs.Gen.real(self, dd, data_only)))
            if n is not None:
                return n
        return super().real(d, data_only, force)

    def pos(self, d, data_only=False):
        dd = max(d - 1, 0)
        n = self._maybe(lambda: exprs.Gen.pos(self, dd, data_only))
        if n is not None:
            return n
        return super().pos(d, data_only)

    def small(self, d, data_only=False):
        dd = max(d - 1, 0)
        n = self._maybe(lambda: exprs.Gen.small(self, dd, data_only))
        if n is not None:
            return n
        return super().small(d, data_only)

    def boolean(self, d, data_only=False):
        dd = max(d - 1, 0)
        n = self._maybe(lambda: exprs.Gen.boolean(self, dd, data_only))
        if n is not None:
            return n
        return super().boolean(d, data_only)


def walk(node, shared, fn, seen=None):
    """pre-order walk over every operator node reachable from node (through shares, into every member)."""
    seen = set() if seen is None else seen
    if not isinstance(node, list) or not node:
        return
    if isinstance(node[0], str):
        if node[0] == 'share':
            if node[1] not in seen:
                seen.add(node[1])
                walk(shared[node[1]], shared, fn, seen)
            return
        fn(node)
        if node[0] == 'linutil':
            return
        if node[0] == 'catalog':
            for _, m in node[4]:
                walk(m, shared, fn, seen)
            return
        rest = node[1:]
    else:
        rest = node
    for x in rest:
        if isinstance(x, list):
            walk(x, shared, fn, seen)


def catalogs_in(spec):
    out = []
    walk(spec['ast'], spec.get('shared', []), lambda n: out.append(n) if n[0] == 'catalog' else None)
    return out


def make_case(seed: int, index: int, mode='random', max_space=256) -> dict:
    rng = random.Random(f'c16/{seed}/{index}/{mode}')
    differentiable = rng.random() < 0.5
    sp = exprs.Space(rng)
    plan = plan_controllers(rng, max_space, want_shared=(mode == 'shared'))
    cat_prob = rng.choice([0.12, 0.25, 0.5]) if mode != 'nested' else 0.6
    g = CGen(rng, sp, plan, cat_prob=cat_prob, max_depth=rng.randint(2, 5), differentiable=differentiable,
             allow_ncdf=True, allow_logit=True)
    if mode == 'toplevel':
        # the formula itself is a catalog
        g.cat_prob = 1.0
        ast = g.real(g.max_depth)
        g.cat_prob = cat_prob
    else:
        # the root is an ordinary operator (or leaf); catalogs appear from the first level of operands on
        ast = exprs.Gen.real(g, g.max_depth)
    # every planned catalog that did not find a place is attached at the top, so that the
    # planned controller structure (sharing!) is really present
    rest, g.plan = g.plan, []
    for slot in rest:
        members = []
        for s in slot['specs']:
            m = exprs.Gen.real(g, 1)
            for _ in range(6):
                if all(m != o for _, o in members):
                    break
                m = exprs.Gen.real(g, 1)
            members.append([s, m])
        node = ['catalog', slot['cat'], slot['ctrl'], slot['explicit'], members]
        ast = [rng.choice(['add', 'sub', 'mul']), ast, node] if rng.random() < 0.7 else ['add', node, ast]
    return {
        'mode': mode,
        'ast': ast,
        'shared': g.shared,
        'data': sp.data,
        'betas': sp.betas,
        'helpers': [],
        'derived_betas': {},
        'differentiable': differentiable,
    }


# ---------------------------------------------------------------------------
# helper-generated catalogs


def _segs(rng, sp, n):
    """n potential segmentations over the key columns of the space"""
    out = []
    cols = list(sp.key)
    rng.shuffle(cols)
    pool = _SEG_NAMES[:]
    rng.shuffle(pool)
    for c in cols[:n]:
        ks = list(sp.keysets[c])
        names = [pool.pop() for _ in ks]
        if rng.random() < 0.3 and len(ks) > 2:
            ks, names = ks[:-1], names[:-1]  # one value of the column without a category
        order = list(range(len(ks)))
        rng.shuffle(order)
        mapping = [[int(ks[i]), names[i]] for i in order]
        ref = rng.choice([None, None, rng.choice(names)])
        out.append({'var': c, 'mapping': mapping, 'reference': ref})
    return out


def make_helper_case(seed: int, index: int, kind: str) -> dict:
    """kind: 'seg' (segmentation_catalogs), 'gen' (generic_alt_specific_catalogs without segmentation),
    'genseg' (with segmentation), 'mixed' (helper catalogs next to ordinary catalogs in a random context)"""
    rng = random.Random(f'c16h/{seed}/{index}/{kind}')
    sp = exprs.Space(rng, nkey=2, nfree=rng.randint(2, 3), nfixed=0)
    # distinct key columns with >= 2 values are needed for the segmentations
    base = list(sp.betas)
    rng.shuffle(base)
    nb = rng.randint(1, min(2, len(base)))
    bnames = base[:nb]
    helpers = []
    nseg = rng.randint(1, 2)
    vars_ = sp.real + sp.pos
    g = exprs.Gen(rng, sp, max_depth=2, differentiable=True, allow_logit=False)

    def term(coef):
        return ['mul', coef, ['var', rng.choice(vars_)]]

    def add_all(ts):
        node = ts[0]
        for t in ts[1:]:
            node = ['add', node, t]
        return node

    if kind in ('seg', 'mixed'):
        segs = _segs(rng, sp, nseg)
        h = {'kind': 'seg', 'generic': rng.choice(['segx', 'B_TIME', 'asc seg']), 'betas': bnames, 'segs': segs,
             'max': rng.choice([len(segs), len(segs), 1, 0] if len(segs) > 1 else [1, 1, 1, 0])}
        helpers.append(h)
        ast = add_all([term(['segcat', 0, k]) for k in range(nb)])
        if rng.random() < 0.5:
            # the same catalog object in two places
            ast = ['add', ast, ['mul', ['segcat', 0, 0], ['num', 0.5]]]
    else:
        nalt = rng.randint(2, 3)
        alts = rng.sample(_ALT_NAMES, nalt)
        segs = _segs(rng, sp, nseg) if kind == 'genseg' else None
        h = {'kind': 'gen', 'generic': rng.choice(['gen', 'B_COST', 'coef']), 'betas': bnames, 'alts': alts, 'segs': segs,
             'max': rng.choice([1, 2, 5])}
        helpers.append(h)
        utils = []
        for a in alts:
            utils.append(add_all([term(['gencat', 0, k, a]) for k in range(nb)]))
        form = rng.choice(['sum', 'logit'])
        if form == 'logit':
            # a choice column over the alternatives
            ids = list(range(1, nalt + 1))
            sp.data['CHOICE__'] = [float(rng.choice(ids)) for _ in range(sp.n)]
            ast = ['loglogit', [[i, u] for i, u in zip(ids, utils)], None, ['var', 'CHOICE__'], 'log']
        else:
            ast = add_all([['mul', u, ['num', float(i + 1)]] for i, u in enumerate(utils)])
    if rng.random() < 0.5:
        ast = ['add', ast, g.real(2)]
    spec = {
        'mode': 'helper-' + kind,
        'ast': ast,
        'shared': g.shared,
        'data': sp.data,
        'betas': sp.betas,
        'helpers': helpers,
        'differentiable': True,
    }
    if kind == 'mixed':
        # an ordinary catalog context around the helper formula
        plan = plan_controllers(rng, 8)
        cg = CGen(rng, sp, plan, cat_prob=0.6, max_depth=2, differentiable=True, allow_logit=False)
        other = cg.real(2)
        if cg.placed:
            off = len(spec['shared'])
            spec['ast'] = [rng.choice(['add', 'sub']), spec['ast'], _shift_shares(other, off)]
            spec['shared'] = spec['shared'] + [_shift_shares(x, off) for x in cg.shared]
    spec['derived_betas'] = derived_betas(spec, rng)
    return spec


def _shift_shares(node, off):
    if isinstance(node, list):
        if node and node[0] == 'share':
            return ['share', node[1] + off]
        return [_shift_shares(x, off) for x in node]
    return node


def derived_betas(spec, rng):
    """every parameter name the helpers may create, with a distinct value (override by name)"""
    out = {}
    used = {v[0] for v in spec['betas'].values()}

    def val():
        while True:
            v = round(rng.uniform(-1.5, 1.5), 3)
            if v != 0 and v not in used:
                used.add(v)
                return v

    for h in spec['helpers']:
        names = [(b, b) for b in h['betas']]
        if h['kind'] == 'gen':
            names += [(f'{b}_{a}', b) for a in h['alts'] for b in h['betas']]
        allnames = list(names)
        for sg in (h.get('segs') or []):
            for _, cat in sg['mapping']:
                allnames += [(f'{n}_{cat}', b) for n, b in names]
        for n, b in allnames:
            if n not in spec['betas'] and n not in out:
                # [value used when overriding by name, status, parameter it is derived from]
                out[n] = [val(), 0, b]
    return out
