"""Recording proxy at the Python <-> C++ engine boundary.

install() replaces the module attributes through which biogeme reaches
cythonbiogeme (biogeme.expressions.calculator.ee, biogeme.biogeme.cb) by a
namespace whose pyEvaluateOneExpression / pyBiogeme return recording wrappers
around the real engine objects. Every call is appended to LOG.
"""
from __future__ import annotations

import numpy as np

LOG: list[dict] = []
_installed = False


def _summ(a):
    import pandas as pd

    if isinstance(a, pd.DataFrame):
        return {'frame': True, 'columns': list(a.columns), 'shape': list(a.shape), 'obj': a}
    if isinstance(a, np.ndarray):
        return {'array': True, 'shape': list(a.shape), 'obj': a}
    return a


class _Rec:
    def __init__(self, real, kind):
        object.__setattr__(self, '_real', real)
        object.__setattr__(self, '_kind', kind)
        object.__setattr__(self, 'calls', [])
        LOG.append({'kind': kind, 'op': 'new', 'obj': self})

    def __getattr__(self, name):
        real_attr = getattr(self._real, name)
        if not callable(real_attr):
            return real_attr

        def wrapper(*a, **k):
            entry = {'kind': self._kind, 'op': name, 'args': [_summ(x) for x in a],
                     'kwargs': {kk: _summ(v) for kk, v in k.items()}, 'owner': self}
            LOG.append(entry)
            self.calls.append(entry)
            try:
                res = real_attr(*a, **k)
            except BaseException as e:
                entry['raised'] = f'{type(e).__name__}: {str(e)[:300]}'
                raise
            entry['done'] = True
            return res

        return wrapper


class _NS:
    def __init__(self, real_module):
        self._m = real_module

    def pyEvaluateOneExpression(self, *a, **k):
        return _Rec(self._m.pyEvaluateOneExpression(*a, **k), 'one')

    def pyBiogeme(self, *a, **k):
        r = _Rec(self._m.pyBiogeme(*a, **k), 'biogeme')
        LOG[-1]['args'] = list(a)
        return r

    def __getattr__(self, name):
        return getattr(self._m, name)


def install():
    global _installed
    if _installed:
        return
    import cythonbiogeme.cythonbiogeme as real
    import biogeme.expressions.calculator as calc
    import biogeme.biogeme as bb

    ns = _NS(real)
    calc.ee = ns
    bb.cb = ns
    _installed = True


def reset():
    LOG.clear()


def last_expression_handover():
    """For the most recent pyEvaluateOneExpression: dict with signature, free, fixed, columns, calculate kwargs."""
    owner = None
    for e in reversed(LOG):
        if e['kind'] == 'one' and e['op'] == 'new':
            owner = e['obj']
            break
    if owner is None:
        return None
    out = {'signature': None, 'free': None, 'fixed': None, 'columns': None, 'calculate': None, 'missing': None,
           'completed': False}
    for c in owner.calls:
        if c['op'] == 'setExpression':
            out['signature'] = c['args'][0]
        elif c['op'] == 'setFreeBetas':
            out['free'] = list(c['args'][0])
        elif c['op'] == 'setFixedBetas':
            out['fixed'] = list(c['args'][0])
        elif c['op'] == 'setData':
            out['columns'] = c['args'][0]['columns']
            out['nrows'] = c['args'][0]['shape'][0]
        elif c['op'] == 'setMissingData':
            out['missing'] = c['args'][0]
        elif c['op'] == 'calculate':
            out['calculate'] = c['kwargs']
            out['completed'] = bool(c.get('done'))
    return out


def completed_calculations():
    return sum(1 for e in LOG if e.get('op') in ('calculate', 'calculateLikelihood', 'calculateLikelihoodAndDerivatives',
                                                 'simulateFormula', 'simulateSeveralFormulas') and e.get('done'))
