"""CLI driver: ./check <ID> quick|thorough  |  ./check <ID> --replay <file>

Workload -> sharded workers (fork per case) -> aggregated monitor output ->
three-valued verdict -> evidence/<ID>.json.

Exit codes: 0 held on everything observed (apart from listed known findings),
1 violation (line "VIOLATION property=<id> replay=<path>"), 2 inconclusive /
harness broken (never folded into the other two).
"""
from __future__ import annotations

import importlib
import json
import os
import re
import shutil
import subprocess
import sys
import time

from . import env
from .rec import stable_hash

VERIF = env.VERIF


def load_known(prop: str):
    path = os.path.join(VERIF, 'known_findings.json')
    out = []
    if os.path.exists(path):
        with open(path) as f:
            doc = json.load(f)
        out += [k for k in doc.get('findings', []) if k.get('property') == prop]
    extra = os.environ.get('VERIF_KNOWN_EXTRA')  # development aid only (never set by registered commands)
    if extra and os.path.exists(extra):
        with open(extra) as f:
            out += [k for k in json.load(f) if k.get('property') == prop]
    return out


def match_known(known, v) -> dict | None:
    for k in known:
        if k['mech'] == v['mech']:
            return k
    return None


def run_workers(modname: str, cases: list, jobs: int, shard_timeout: float, workdir: str):
    """Shard cases round-robin over subprocess workers; returns list of result dicts."""
    if not cases:
        return [], []
    jobs = max(1, min(jobs, len(cases)))
    shards = [cases[i::jobs] for i in range(jobs)]
    procs = []
    for i, sh in enumerate(shards):
        inf = os.path.join(workdir, f'in{i}.json')
        outf = os.path.join(workdir, f'out{i}.jsonl')
        cwd = os.path.join(workdir, f'w{i}')
        os.makedirs(cwd, exist_ok=True)
        with open(inf, 'w') as f:
            json.dump(sh, f)
        e = dict(os.environ)
        e['PYTHONPATH'] = VERIF + os.pathsep + e.get('PYTHONPATH', '')
        e['BIOMON_WORKDIR'] = cwd
        p = subprocess.Popen(
            [sys.executable, '-m', 'biomon.worker', modname, inf, outf],
            cwd=cwd,
            env=e,
            stdout=open(os.path.join(workdir, f'log{i}.txt'), 'w'),
            stderr=subprocess.STDOUT,
        )
        procs.append((p, outf, sh, i))
    deadline = time.monotonic() + shard_timeout
    results, problems = [], []
    for p, outf, sh, i in procs:
        left = max(1.0, deadline - time.monotonic())
        try:
            p.wait(timeout=left)
        except subprocess.TimeoutExpired:
            p.kill()
            p.wait()
            problems.append(f'shard {i} watchdog fired after {shard_timeout:.0f}s')
        got = []
        if os.path.exists(outf):
            with open(outf) as f:
                for line in f:
                    line = line.strip()
                    if line:
                        try:
                            got.append(json.loads(line))
                        except Exception:
                            pass
        if p.returncode not in (0, None, -9) and len(got) < len(sh):
            tail = ''
            try:
                with open(os.path.join(workdir, f'log{i}.txt')) as f:
                    tail = f.read()[-1500:]
            except Exception:
                pass
            problems.append(f'shard {i} worker exit {p.returncode}: {tail}')
        if len(got) < len(sh):
            problems.append(f'shard {i}: {len(sh) - len(got)} cases not run')
        results.extend(got)
    return results, problems


def aggregate(prop, mod, results, problems, tier, seed, wall, known):
    n = 0
    keys = set()
    cov = {}
    samples = []
    viol = []
    inconc = list(problems)
    timeouts = crashes = herr = 0
    for r in results:
        case = r.get('_case')
        if r.get('timeout'):
            timeouts += 1
            continue
        if 'crash_signal' in r:
            crashes += 1
            sig = r['crash_signal']
            if sig in (9,):  # killed from outside (OOM...) -> not a verdict
                inconc.append(f'case killed by signal 9: {stable_hash(case)}')
            elif r.get('_crash_not_reproduced'):
                # the external engine has known intermittent memory errors (see known_findings: use-after-free of
                # derivative buffers); a native crash that does not come back when the very same case is executed again
                # twice in fresh processes is counted, not judged
                cov['native_crashes_not_reproduced_on_reexecution'] = cov.get('native_crashes_not_reproduced_on_reexecution', 0) + 1
            else:
                viol.append(
                    {
                        'mech': f'{prop}/native-crash-signal-{sig}',
                        'msg': f'process died with signal {sig} while running the case',
                        'witness': None,
                        '_case': case,
                    }
                )
            continue
        if 'harness_error' in r:
            herr += 1
            if herr <= 5:
                inconc.append('harness error: ' + r['harness_error'] + ' | ' + r.get('tb', '')[-800:])
            continue
        n += r.get('n', 0)
        keys.update(r.get('keys', []))
        for k, v in r.get('cov', {}).items():
            cov[k] = cov.get(k, 0) + v
        for s in r.get('samples', []):
            if len(samples) < 4:
                samples.append(s)
        for v in r.get('viol', []):
            v = dict(v)
            v['_case'] = case
            viol.append(v)
        for s in r.get('inconclusive', []):
            if len(inconc) < 40:
                inconc.append(s)
    if timeouts:
        cov['case_timeouts'] = timeouts
        if timeouts > max(2, 0.02 * max(1, len(results))):
            inconc.append(f'{timeouts} cases hit the per-case watchdog')
    if crashes:
        cov['case_crashes'] = crashes
    if herr:
        cov['harness_errors'] = herr
    return n, keys, cov, samples, viol, inconc


def write_replay(prop, v, seed, tier):
    d = os.path.join(os.environ.get('VERIF_EVIDENCE_DIR') or VERIF, 'replays', prop) if os.environ.get('VERIF_EVIDENCE_DIR') else os.path.join(VERIF, 'replays', prop)
    os.makedirs(d, exist_ok=True)
    slug = re.sub(r'[^A-Za-z0-9_.-]+', '_', v['mech'])[:80]
    path = os.path.join(d, f'{slug}-{stable_hash([v.get("_case"), v.get("msg")])}.json')
    with open(path, 'w') as f:
        json.dump(
            {
                'property': prop,
                'mech': v['mech'],
                'msg': v['msg'],
                'witness': v.get('witness'),
                'case': v.get('_case'),
                'seed': seed,
                'tier': tier,
            },
            f,
            indent=1,
            default=repr,
        )
    return path


def do_replay(prop, mod, path):
    from .worker import run_forked

    with open(path) as f:
        doc = json.load(f)
    known = load_known(prop)
    if hasattr(mod, 'warmup'):
        mod.warmup()
    res = run_forked(mod.run_case, doc['case'], float(getattr(mod, 'CASE_TIMEOUT', 120)) * 2)
    bad = 0
    print(json.dumps({k: res.get(k) for k in ('n', 'viol', 'inconclusive', 'harness_error', 'crash_signal', 'timeout')}, indent=1)[:6000])
    if 'crash_signal' in res:
        print(f'VIOLATION property={prop} replay={path}')
        return 1
    for v in res.get('viol', []):
        k = match_known(known, v)
        if k:
            print(f'KNOWN-FINDING: property={prop} {k["what"]}')
        else:
            bad += 1
    if bad:
        print(f'VIOLATION property={prop} replay={path}')
        return 1
    return 0


def main(argv=None):
    argv = list(sys.argv[1:] if argv is None else argv)
    if not argv:
        print(__doc__)
        return 2
    prop = argv[0].upper()
    mod = importlib.import_module(f'biomon.checks.{prop.lower()}')
    if len(argv) >= 3 and argv[1] == '--replay':
        return do_replay(prop, mod, argv[2])
    tier = argv[1] if len(argv) > 1 else os.environ.get('VERIF_TIER', 'quick')
    if tier not in ('quick', 'thorough'):
        print('tier must be quick or thorough')
        return 2
    seed = env.seed()
    t0 = time.monotonic()
    known = load_known(prop)
    workdir = os.path.join(env.WORK, f'{prop}-{tier}-{os.getpid()}')
    shutil.rmtree(workdir, ignore_errors=True)
    os.makedirs(workdir, exist_ok=True)
    problems = []
    results = []
    try:
        # 0. the oracle guards itself: a broken oracle is inconclusive, not a verdict
        if hasattr(mod, 'selftest'):
            try:
                st = mod.selftest() or []
            except Exception as e:  # pragma: no cover
                st = [f'selftest raised {type(e).__name__}: {e}']
            problems += [f'oracle self-test failed: {s}' for s in st]
        cases = mod.cases(seed, tier)
        shard_timeout = float(getattr(mod, 'SHARD_TIMEOUT', {'quick': 900, 'thorough': 7200})[tier])
        res, pr = run_workers(mod.__name__, cases, env.ncpu(), shard_timeout, workdir)
        results += res
        problems += pr
        # a native crash must reproduce: re-execute crashed cases twice in fresh workers
        crashed = [r for r in results if 'crash_signal' in r and r['crash_signal'] != 9]
        if crashed and len(crashed) <= 40:
            for attempt_no in range(2):
                redo_dir = os.path.join(workdir, f'redo{attempt_no}')
                os.makedirs(redo_dir, exist_ok=True)
                again, _ = run_workers(mod.__name__, [r['_case'] for r in crashed], env.ncpu(), shard_timeout, redo_dir)
                by_case = {json.dumps(a.get('_case'), sort_keys=True): a for a in again}
                for r in crashed:
                    a = by_case.get(json.dumps(r['_case'], sort_keys=True))
                    if a is not None and 'crash_signal' in a:
                        r['_crash_reproduced'] = True
            for r in crashed:
                if not r.get('_crash_reproduced'):
                    r['_crash_not_reproduced'] = True
        if hasattr(mod, 'extra'):
            # non case-shaped monitors (sanitizer engine runs, repo tests under contracts ...)
            os.environ['BIOMON_WORKDIR'] = workdir
            try:
                results += mod.extra(seed, tier, workdir) or []
            except Exception as e:
                import traceback

                problems.append(f'extra stage raised {type(e).__name__}: {e} {traceback.format_exc()[-1500:]}')
    finally:
        pass
    wall = time.monotonic() - t0
    n, keys, cov, samples, viol, inconc = aggregate(prop, mod, results, problems, tier, seed, wall, known)
    if hasattr(mod, 'finalize'):
        # aggregated coverage requirements (holes -> inconclusive)
        try:
            inconc += mod.finalize(cov, tier) or []
        except Exception as e:
            inconc.append(f'finalize raised {e}')
    minimum = getattr(mod, 'MIN_DISTINCT', {'quick': 2, 'thorough': 2})[tier]
    if len(keys) < minimum:
        inconc.append(f'only {len(keys)} distinct non-trivial cases observed (< {minimum})')

    # classify violations
    known_hit = {}
    unknown = []
    for v in viol:
        k = match_known(known, v)
        if k:
            known_hit.setdefault(k['mech'], [k, 0])[1] += 1
        else:
            unknown.append(v)
    for mech, (k, cnt) in sorted(known_hit.items()):
        print(f'KNOWN-FINDING: property={prop} {k["what"]} [mechanism {mech}, {cnt} witnesses this run]')
    for k in known:
        if k['mech'] not in known_hit:
            # listed but not reproduced by this run: say so (not an alarm)
            print(f'KNOWN-FINDING: property={prop} {k["what"]} [mechanism {k["mech"]}, not exercised by this run]')
    seen_mech = {}
    replay_paths = []
    for v in unknown:
        if v['mech'] in seen_mech:
            seen_mech[v['mech']] += 1
            continue
        seen_mech[v['mech']] = 1
        path = write_replay(prop, v, seed, tier)
        replay_paths.append(path)
    for v_mech, path in zip(seen_mech, replay_paths):
        print(f'  {v_mech}: {seen_mech[v_mech]} witness(es); first: {path}')
    for path in replay_paths[:25]:
        print(f'VIOLATION property={prop} replay={path}')

    evidence = {
        'property_id': prop,
        'tier': tier,
        'seed': seed,
        'level': getattr(mod, 'LEVEL', 'exploration'),
        'coverage': {
            'evaluations': int(n),
            'distinct_nontrivial': int(len(keys)),
            'rule': getattr(mod, 'RULE', ''),
            'samples': samples[:4] if samples else [],
            'cases_scheduled': len(results),
            'monitor_counters': dict(sorted(cov.items())),
            'inconclusive': inconc,
            'known_findings_matched': {m: c for m, (k, c) in known_hit.items()},
            'unlisted_violation_mechanisms': seen_mech,
            'exhaustive': bool(getattr(mod, 'EXHAUSTIVE', False)),
        },
        'assumptions': list(getattr(mod, 'ASSUMPTIONS', [])),
        'wall_s': round(wall, 2),
        'violations': len(unknown),
    }
    evdir = os.environ.get('VERIF_EVIDENCE_DIR') or os.path.join(VERIF, 'evidence')
    os.makedirs(evdir, exist_ok=True)
    with open(os.path.join(evdir, f'{prop}.json'), 'w') as f:
        json.dump(evidence, f, indent=1, default=repr)
    shutil.rmtree(workdir, ignore_errors=True)
    status = 'held'
    code = 0
    if unknown:
        status, code = 'VIOLATED', 1
    elif inconc:
        status, code = 'INCONCLUSIVE', 2
        for s in inconc[:10]:
            print('INCONCLUSIVE:', s[:600])
    print(
        f'{prop} {tier} seed={seed}: {status}; evaluations={n} distinct_nontrivial={len(keys)} '
        f'cases={len(results)} known_finding_witnesses={sum(c for _, c in known_hit.values())} '
        f'unlisted_violations={len(unknown)} wall={wall:.1f}s'
    )
    return code


if __name__ == '__main__':
    sys.exit(main())
