"""Worker process: runs a shard of cases, each in its own forked child.

usage: python -m biomon.worker <module> <infile.json> <outfile.jsonl>

Fork per case because (a) the cythonbiogeme engine keeps a sticky error flag:
after one engine-side exception every later evaluation in the same process
fails, so no verdict may be taken after an engine error in the same process;
(b) a native crash must not take the shard down; (c) a per-case watchdog.
"""
from __future__ import annotations

import importlib
import json
import os
import select
import signal
import sys
import time
import traceback

from . import env


def run_forked(fn, case, timeout: float) -> dict:
    r, w = os.pipe()
    pid = os.fork()
    if pid == 0:
        os.close(r)
        code = 0
        try:
            try:
                res = fn(case)
            except BaseException as e:  # harness error, not a verdict
                res = {'harness_error': f'{type(e).__name__}: {e}', 'tb': traceback.format_exc()[-3000:]}
            data = json.dumps(res, default=repr).encode()
            with os.fdopen(w, 'wb') as f:
                f.write(data)
        except BaseException:
            code = 3
        finally:
            os._exit(code)
    os.close(w)
    chunks = []
    deadline = time.monotonic() + timeout
    timed_out = False
    while True:
        left = deadline - time.monotonic()
        if left <= 0:
            timed_out = True
            break
        rl, _, _ = select.select([r], [], [], min(left, 1.0))
        if rl:
            b = os.read(r, 1 << 16)
            if not b:
                break
            chunks.append(b)
    os.close(r)
    if timed_out:
        try:
            os.kill(pid, signal.SIGKILL)
        except ProcessLookupError:
            pass
        os.waitpid(pid, 0)
        return {'timeout': True}
    _, status = os.waitpid(pid, 0)
    if os.WIFSIGNALED(status):
        return {'crash_signal': os.WTERMSIG(status)}
    data = b''.join(chunks)
    if not data:
        return {'harness_error': f'child produced no result, exit={os.WEXITSTATUS(status)}'}
    try:
        return json.loads(data)
    except Exception as e:
        return {'harness_error': f'bad result json: {e}'}


def main():
    modname, infile, outfile = sys.argv[1:4]
    env.silence_biogeme_logging()
    mod = importlib.import_module(modname)
    with open(infile) as f:
        cases = json.load(f)
    if hasattr(mod, 'warmup'):
        mod.warmup()
    timeout = float(getattr(mod, 'CASE_TIMEOUT', 120))
    nofork = bool(getattr(mod, 'NO_FORK', False))
    with open(outfile, 'w') as out:
        for case in cases:
            t0 = time.monotonic()
            if nofork:
                try:
                    res = mod.run_case(case)
                except BaseException as e:
                    res = {'harness_error': f'{type(e).__name__}: {e}', 'tb': traceback.format_exc()[-3000:]}
            else:
                res = run_forked(mod.run_case, case, timeout)
            res['_case'] = case
            res['_wall'] = time.monotonic() - t0
            out.write(json.dumps(res, default=repr) + '\n')
            out.flush()


if __name__ == '__main__':
    main()
