"""biomon: runtime monitors for the biogeme properties (see /verif/DESIGN.md)."""
