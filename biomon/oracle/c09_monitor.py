"""Runtime monitors of C09: contracts on Database.panel / build_panel_map and a
snapshotting spy at the Python <-> engine boundary.

Nothing here computes a likelihood; the monitors only look at what the real
code produced (individualMap, frames, draw tables, sample sizes handed over)
and test structural invariants against the table the case was generated from.

Findings are appended to EVENTS as (mech, message, witness) and drained by the
check after each public call.
"""
from __future__ import annotations

import functools

import numpy as np

EVENTS: list[tuple] = []      # (mech, msg, witness)
COUNT: dict[str, int] = {}    # how often each monitor was evaluated
STATE = {'idcol': None, 'installed': False, 'expected_ids': None, 'history': False, 'phase': None, 'database': None}
HIST: list[dict] = []         # history mode: ordered engine-boundary events of the case's BIOGEME objects


def _c(k, n=1):
    COUNT[k] = COUNT.get(k, 0) + n


def reset(idcol=None):
    EVENTS.clear()
    COUNT.clear()
    HIST.clear()
    STATE['idcol'] = idcol
    STATE['history'] = False
    STATE['phase'] = None
    STATE['database'] = None


def drain():
    ev = list(EVENTS)
    EVENTS.clear()
    return ev


# ---------------------------------------------------------------------------------------
def check_map(imap, data, idcol, where, before_rows=None):
    """Invariants of an individual -> [first, last] map with respect to the frame it describes.

    imap: DataFrame (index = ids, two columns), data: DataFrame whose positional rows the map
    refers to. before_rows: multiset (sorted list of tuples) of the rows before the operation.
    Returns list of (mech, msg)."""
    out = []
    n = len(data)
    if imap is None:
        return [('panel-map-missing', f'{where}: data declared panel but no map')]
    m = np.asarray(imap)
    if m.ndim != 2 or m.shape[1] != 2:
        return [('panel-map-not-two-columns', f'{where}: map of shape {m.shape}')]
    ids_col = list(data[idcol])
    distinct = []
    seen = set()
    for v in ids_col:
        if v not in seen:
            seen.add(v)
            distinct.append(v)
    keys = list(imap.index)
    counts = {}
    for v in ids_col:
        counts[v] = counts.get(v, 0) + 1
    # individuals <-> map rows: bijection
    if len(set(keys)) != len(keys):
        out.append(('panel-map-individuals-not-bijective', f'{where}: an id appears twice among the map rows: {keys[:20]}'))
    if set(keys) != seen:
        out.append(('panel-map-individuals-not-bijective',
                    f'{where}: ids in the map {sorted(set(keys), key=float)[:12]} != ids in the table {sorted(seen, key=float)[:12]}'))
    covered = np.zeros(n, dtype=int)
    for key, (a, b) in zip(keys, m.tolist()):
        if a != int(a) or b != int(b) or a < 0 or b >= n or a > b:
            out.append(('panel-map-interval-out-of-range', f'{where}: individual {key!r} -> [{a},{b}] with {n} rows'))
            continue
        a, b = int(a), int(b)
        covered[a:b + 1] += 1
        blk = ids_col[a:b + 1]
        if any(v != key for v in blk):
            out.append(('panel-map-row-carries-other-id', f'{where}: interval [{a},{b}] of individual {key!r} holds rows with ids {blk[:10]}'))
        cnt = counts.get(key, 0)
        if cnt != b - a + 1:
            out.append(('panel-map-interval-misses-rows',
                        f'{where}: individual {key!r} has {cnt} rows in the table but the interval [{a},{b}] holds {b - a + 1}'))
    if np.any(covered != 1):
        out.append(('panel-map-not-a-partition',
                    f'{where}: rows covered {int((covered == 0).sum())} x 0 times, {int((covered > 1).sum())} x several times (rows {n})'))
    if before_rows is not None:
        now = sorted(map(tuple, np.asarray(data, dtype=float).tolist()))
        if now != before_rows:
            out.append(('panel-data-rows-altered', f'{where}: the multiset of rows changed ({len(before_rows)} rows before, {len(now)} after)'))
    # dedupe by mech
    res = []
    got = set()
    for mech, msg in out:
        if mech not in got:
            got.add(mech)
            res.append((mech, msg))
    return res


def _rows(frame):
    return sorted(map(tuple, np.asarray(frame, dtype=float).tolist()))


def install():
    """wrap Database.panel / Database.build_panel_map (postconditions) and the engine namespaces"""
    if STATE['installed']:
        return
    import biogeme.database as bdb
    import biogeme.biogeme as bb
    import biogeme.expressions.calculator as calc
    import cythonbiogeme.cythonbiogeme as real

    orig_build = bdb.Database.build_panel_map
    orig_panel = bdb.Database.panel

    @functools.wraps(orig_build)
    def build_panel_map(self):
        before = _rows(self.data) if self.panelColumn is not None else None
        res = orig_build(self)
        if self.panelColumn is not None:
            _c('contract_build_panel_map')
            for mech, msg in check_map(self.individualMap, self.data, self.panelColumn, 'after build_panel_map', before):
                EVENTS.append((mech, msg, {'map': np.asarray(self.individualMap).tolist(), 'ids': list(self.data[self.panelColumn])[:60]}))
            if list(self.data.index) != list(range(len(self.data))):
                EVENTS.append(('panel-data-index-not-positional', 'after build_panel_map the frame index is not 0..N-1', None))
            if self.get_sample_size() != len(set(self.data[self.panelColumn])):
                EVENTS.append(('sample-size-not-number-of-individuals',
                               f'get_sample_size()={self.get_sample_size()} with {len(set(self.data[self.panelColumn]))} individuals', None))
            _c('contract_sample_size')
        return res

    @functools.wraps(orig_panel)
    def panel(self, column_name):
        before = _rows(self.data)
        res = orig_panel(self, column_name)  # exceptions propagate: refusal is judged by the caller
        _c('contract_panel')
        for mech, msg in check_map(self.individualMap, self.data, column_name, 'after panel()', before):
            EVENTS.append((mech, msg, {'map': np.asarray(self.individualMap).tolist() if self.individualMap is not None else None}))
        return res

    bdb.Database.build_panel_map = build_panel_map
    bdb.Database.panel = panel

    ns = _NS(real)
    calc.ee = ns
    bb.cb = ns
    STATE['installed'] = True


# ---------------------------------------------------------------------------------------
class _Spy:
    """wraps one engine object; keeps *copies* of what was handed over"""

    CALC = ('calculate', 'calculateLikelihood', 'calculateLikelihoodAndDerivatives', 'simulateSeveralFormulas',
            'simulateFormula')

    def __init__(self, real, kind):
        object.__setattr__(self, '_real', real)
        object.__setattr__(self, '_kind', kind)
        object.__setattr__(self, '_h', {'data': None, 'map': None, 'draws': None, 'panel': None, 'map_phase': None})

    def __getattr__(self, name):
        attr = getattr(self._real, name)
        if not callable(attr):
            return attr
        h = self._h

        def wrapper(*a, **k):
            if name == 'setData':
                h['data'] = a[0].copy()
            elif name == 'setDataMap':
                h['map'] = a[0].copy()
                h['map_phase'] = STATE['phase']
                _c('handover_setDataMap')
                if STATE['history'] and self._kind == 'biogeme':
                    HIST.append({'call': 'setDataMap', 'phase': STATE['phase']})
            elif name == 'setDraws':
                h['draws'] = None if a[0] is None else tuple(np.shape(a[0]))
            elif name == 'setPanel':
                h['panel'] = bool(a[0])
            if name in self.CALC:
                self._before_calculation(name, a, k)
            return attr(*a, **k)

        return wrapper

    def _before_calculation(self, name, a, k):
        h = self._h
        idcol = STATE['idcol']
        data = h['data']
        ssize = None
        if name == 'simulateSeveralFormulas':
            data = a[3] if len(a) > 3 else k.get('d')
            ssize = a[5] if len(a) > 5 else k.get('sample_size')
        if STATE['history'] and self._kind == 'biogeme' and h['map'] is not None and STATE['database'] is not None:
            # history mode: is the map held by this engine object the database's current map?
            cur = STATE['database'].individualMap
            same = (cur is not None and list(cur.index) == list(h['map'].index)
                    and np.array_equal(np.asarray(cur), np.asarray(h['map'])))
            ev = {'call': name, 'phase': STATE['phase'], 'map_phase': h.get('map_phase'), 'current': bool(same)}
            if name == 'simulateSeveralFormulas' and idcol is not None and data is not None:
                ev['problems'] = [m for m, _ in check_map(h['map'], data, idcol, 'simulate')]
            HIST.append(ev)
            _c('history_engine_map_compared_' + name)
            return
        if h['map'] is None or idcol is None or data is None or idcol not in getattr(data, 'columns', []):
            _c('engine_calculations_without_panel_map_rowwise_audits')
            return
        _c('handover_checked_' + name)
        where = f'engine hand-over before {name}'
        for mech, msg in check_map(h['map'], data, idcol, where):
            EVENTS.append(('handover-' + mech, msg, {'map': np.asarray(h['map']).tolist(), 'ids': list(data[idcol])[:60]}))
        ni = len(set(data[idcol]))
        if h['draws'] is not None:
            _c('handover_draws_checked')
            if h['draws'][0] != ni:
                EVENTS.append(('handover-draw-table-not-dimensioned-by-individuals',
                               f'{where}: draw table of shape {h["draws"]} for {ni} individuals ({len(data)} rows)', None))
        if ssize is not None:
            _c('handover_sample_size_checked')
            if int(ssize) != ni:
                EVENTS.append(('handover-sample-size-not-number-of-individuals',
                               f'{where}: sample size {ssize} handed over for {ni} individuals ({len(data)} rows)', None))


class _NS:
    def __init__(self, real_module):
        self._m = real_module

    def pyEvaluateOneExpression(self, *a, **k):
        return _Spy(self._m.pyEvaluateOneExpression(*a, **k), 'one')

    def pyBiogeme(self, *a, **k):
        return _Spy(self._m.pyBiogeme(*a, **k), 'biogeme')

    def __getattr__(self, name):
        return getattr(self._m, name)


# ---------------------------------------------------------------------------------------
def spying_generators(spec, log: list):
    """the deterministic generators of the case, recording the (sample size, draws) they are asked for"""
    from biogeme.native_draws import RandomNumberGeneratorTuple
    from ..gen import c09_panel

    out = {}
    for kind in set(spec['draws'].values()):
        def gen(sample_size, number_of_draws, _kind=kind):
            log.append((_kind, int(sample_size), int(number_of_draws)))
            return np.array([[c09_panel.draw_value(_kind, i, k) for k in range(number_of_draws)]
                             for i in range(sample_size)], dtype=float).reshape(sample_size, number_of_draws)

        out[kind] = RandomNumberGeneratorTuple(generator=gen, description=f'deterministic generator {kind}')
    return out
