"""Reference semantics of panel formulas for C09 (independent of biogeme).

Specification: the generator's table (column -> values in presentation order),
the id column, the AST. An individual = the set of rows carrying one id value.
value(individual) = prod over exactly its rows of the per-observation value;
inside a Monte-Carlo integral the draw vector is a function of the individual
only: value = mean_r prod_t f(row t, draw[individual, r]).

Two routes: (1) vectorised through biomon.oracle.evalast with the draws
*expanded to rows* (row t of individual i sees draw[i, :]); (2) a brute-force
loop (one scalar evaluation per (row, draw)) used as self-test of route (1).
"""
from __future__ import annotations

import numpy as np

from . import evalast
from ..gen import c09_panel


def groups_by_id(tab: dict, idcol: str):
    """id -> list of row numbers (exact python values as keys, insertion = first appearance)"""
    g = {}
    for t, v in enumerate(tab[idcol]):
        g.setdefault(v, []).append(t)
    return g


def sorted_ids(groups: dict):
    return sorted(groups, key=lambda v: (float(v), v))


def draw_tables(spec: dict, n_individuals: int):
    """name -> (I, R) array: what the deterministic generators deliver for I individuals"""
    out = {}
    R = spec['ndraws']
    for name, kind in spec['draws'].items():
        out[name] = np.array([[c09_panel.draw_value(kind, i, k) for k in range(R)] for i in range(n_individuals)],
                             dtype=float).reshape(n_individuals, R)
    return out


def expand_draws(tables: dict, groups: dict, order: list, nrows: int, assignment=None):
    """(I,R) tables -> (N,R): every row of individual order[i] gets table row assignment[i] (default i)"""
    out = {}
    for name, tb in tables.items():
        a = np.zeros((nrows, tb.shape[1]))
        for i, idv in enumerate(order):
            j = i if assignment is None else assignment[i]
            for t in groups[idv]:
                a[t] = tb[j]
        out[name] = a
    return out


def reference(spec: dict, tab: dict, ast, betas: dict, assignment=None):
    """judge() of `ast` on the presented table. returns dict(ok, value (per individual, ascending id), order, reason)"""
    idcol = spec['idcol']
    groups = groups_by_id(tab, idcol)
    order = sorted_ids(groups)
    nrows = len(tab[idcol])
    tables = draw_tables(spec, len(order)) if spec['draws'] else {}
    dr = expand_draws(tables, groups, order, nrows, assignment) if tables else None
    pg = [groups[i] for i in order]
    j = evalast.judge(ast, tab, betas, spec['shared'], draws=dr, panel_groups=pg)
    j['order'] = order
    j['groups'] = groups
    return j


# ---- brute-force route ------------------------------------------------------------
def _subst(node, tab, row, drawvals):
    if isinstance(node, list):
        if node and node[0] == 'var':
            return ['num', float(tab[node[1]][row])]
        if node and node[0] == 'draws':
            return ['num', float(drawvals[node[1]])]
        if node and node[0] == 'linutil':
            return ['multsum', [['mul', ['beta', b], ['num', float(tab[x][row])]] for b, x in node[1]], 'list']
        return [_subst(x, tab, row, drawvals) for x in node]
    return node


def brute_trajectory(spec: dict, tab: dict, inner, betas: dict):
    """per individual (ascending id): mean_r prod_t inner(row t, draws of that individual at r)"""
    idcol = spec['idcol']
    groups = groups_by_id(tab, idcol)
    order = sorted_ids(groups)
    R = max(1, spec['ndraws'])
    tables = draw_tables(spec, len(order)) if spec['draws'] else {}
    out = []
    for i, idv in enumerate(order):
        acc = 0.0
        for k in range(R):
            dv = {nm: tb[i, k] for nm, tb in tables.items()}
            p = 1.0
            for t in groups[idv]:
                sh = [_subst(a, tab, t, dv) for a in spec['shared']]
                v, _ = evalast.evaluate(_subst(inner, tab, t, dv), {}, betas, sh)
                p *= float(v[0])
            acc += p
        out.append(acc / R)
    return np.array(out)
