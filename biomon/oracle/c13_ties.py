"""C13 — stricter tie filter for formulas whose value steers a table operation.

``evalast.judge`` rejects branch decisions that are within 1e-6 of a tie but accepts *exact*
ties (integer codes, booleans).  An exact tie is only trustworthy when both sides are computed
without rounding freedom: table values, literals, parameters, 0/1 results of safe decisions and
single correctly-rounded IEEE operations (+ - * / neg min max) on such values give the same bits
in any implementation.  As soon as a transcendental or a composite operator (exp, log, power,
logit, sums over lists ...) is involved, "exactly 0" in numpy may be "-1e-17" in the engine: such
formulas are regenerated, not judged (observed once: log-probability of the only available
alternative, 0 in the reference, compared with 0).
"""
from __future__ import annotations

import numpy as np

from . import evalast

CMP = ('eq', 'ne', 'le', 'ge', 'lt', 'gt', 'min', 'max')
EXACT_ARITH = ('add', 'sub', 'mul', 'div', 'neg', 'min', 'max')
DECISIONS = ('eq', 'ne', 'le', 'ge', 'lt', 'gt', 'and', 'or', 'belongs')
LEAVES = ('num', 'bool', 'beta', 'var')
MARGIN = 1e-6


def _deref(node, shared):
    while isinstance(node, list) and node and node[0] == 'share':
        node = shared[node[1]]
    return node


def exact(node, shared) -> bool:
    """value determined bit for bit by IEEE arithmetic (given that the decisions below it are safe)"""
    node = _deref(node, shared)
    op = node[0]
    if op in LEAVES:
        return True
    if op in DECISIONS:
        return True
    if op in EXACT_ARITH:
        return all(exact(x, shared) for x in node[1:] if isinstance(x, list))
    if op == 'elem':
        return all(exact(a, shared) for _, a in node[2])
    return False


def _val(node, data, bv, shared):
    v, _ = evalast.evaluate(node, data, bv, shared)
    return np.asarray(v, dtype=float)


def _near(d, both_exact):
    a = np.abs(d)
    if both_exact:
        return bool(np.any((a <= MARGIN) & (a > 0)))
    return bool(np.any(a <= MARGIN))


def safe(ast, data, bv, shared, top_is_condition=False) -> bool:
    """False when some decision in the formula could legitimately come out differently in another
    correct implementation (also False when a sub-formula leaves the domain on some row)."""
    seen = set()

    def walk(node):
        if isinstance(node, list) and node and node[0] == 'share':
            if node[1] in seen:
                return True
            seen.add(node[1])
            return walk(shared[node[1]])
        if not isinstance(node, list) or not node or not isinstance(node[0], str):
            if isinstance(node, list):
                return all(walk(x) for x in node)
            return True
        op = node[0]
        if op == 'linutil':
            return True
        if op in CMP:
            a, b = node[1], node[2]
            if _near(_val(a, data, bv, shared) - _val(b, data, bv, shared), exact(a, shared) and exact(b, shared)):
                return False
        elif op in ('and', 'or'):
            for a in node[1:3]:
                if _near(_val(a, data, bv, shared), exact(a, shared)):
                    return False
        elif op in ('belongs',):
            if not exact(node[1], shared):
                return False
        elif op == 'elem':
            if not exact(node[1], shared):
                return False
        elif op == 'condsum':
            for c, _ in node[1]:
                if _near(_val(c, data, bv, shared), exact(c, shared)):
                    return False
        elif op == 'loglogit':
            if not exact(node[3], shared):
                return False
            for _, a in (node[2] or []):
                if _near(_val(a, data, bv, shared), exact(a, shared)):
                    return False
        return all(walk(x) for x in node[1:] if isinstance(x, list))

    try:
        if top_is_condition and _near(_val(ast, data, bv, shared), exact(ast, shared)):
            return False
        return walk(ast)
    except (evalast.OutOfDomain, KeyError, FloatingPointError, OverflowError, ZeroDivisionError, ValueError):
        return False
