"""C13 — post-condition monitors on the real ``biogeme.database.Database`` methods.

Attached from the harness with icontract (snapshot before the call, named condition
function after it).  Conditions *record and return True*: they never raise and never
mutate, the verdict is taken from ``LOG`` by whoever drives the execution (the C13
sequence driver, or the pytest plugin at the bottom of this file when the repository's
own tests are the workload).  ``COUNT`` says how often each monitor was evaluated.

The driver may deposit what an independent evaluation of the formula says
(``EXPECT['mask']`` for remove, ``EXPECT['values']`` for add_column / define_variable /
values_from_database); without it the monitors fall back on formula-free invariants.

Usable as a pytest plugin:  pytest -p biomon.oracle.c13_contracts  (C13_CONTRACT_OUT=<json file>).
"""
from __future__ import annotations

import json
import os

from .. import env  # noqa: F401  (sys.path: code under test first, .deps last)
from . import c13_shadow as sh

LOG: list[dict] = []
COUNT: dict[str, int] = {}
EXPECT: dict = {}
_INSTALLED = False


def _c(name, k=1):
    COUNT[name] = COUNT.get(name, 0) + k


def _v(mech, msg, **witness):
    if len(LOG) < 200:
        LOG.append({'mech': 'C13/' + mech, 'msg': msg, 'witness': witness})


def drain():
    out = list(LOG)
    del LOG[:]
    return out


def read_map(m):
    if m is None:
        return None
    try:
        return [(sh._num(i), int(a), int(b)) for i, (a, b) in zip(m.index.tolist(), m.to_numpy().tolist())]
    except Exception as e:  # shape not understood: report as such, judged by the caller
        return [('unreadable', repr(e), None)]


def state(self):
    """what is recorded before each call"""
    return {'data': sh.snap(self.data), 'panel': self.panelColumn, 'map': read_map(self.individualMap)}


def _guard(fn):
    """a monitor that breaks must not masquerade as a verdict: it is recorded as a monitor error"""
    import functools

    @functools.wraps(fn)
    def w(*a, **k):
        try:
            fn(*a, **k)
        except BaseException as e:  # noqa
            import traceback

            LOG.append({'mech': 'MONITOR-ERROR', 'msg': f'{fn.__name__}: {type(e).__name__}: {e} {traceback.format_exc()[-600:]}', 'witness': None})
        return True

    # icontract inspects the signature of the condition
    import inspect

    w.__signature__ = inspect.signature(fn)
    return w


def _unchanged(name, pre, self):
    post = sh.snap(self.data)
    if not sh.same_rows(post, pre['data']):
        _v(f'{name}-modifies-table', f'{name} is read-only but the table changed: {sh.diff(post, pre["data"])}')


# ---------------------------------------------------------------------------
# conditions


@_guard
def post_remove(self, expression, OLD, result):
    _c('remove')
    pre = OLD.pre['data']
    post = sh.snap(self.data)
    deleted = len(pre['rows']) - len(post['rows'])
    mask = EXPECT.pop('mask', None)
    if post['cols'] != pre['cols']:
        _v('remove-changes-columns', f'columns before {pre["cols"]} after {post["cols"]}')
        return
    if mask is not None:
        _c('remove_with_reference_condition')
        want = sh.after_remove(pre, mask)
        pcol = OLD.pre['panel']
        if pcol is not None and pcol in want['cols'] and want['rows']:
            # panel data: the rows that are left stay grouped by individual (original order inside an individual)
            want = sh.after_panel(want, pcol)[0]
        nz = sum(1 for m in mask if m)
        # surviving rows are judged by their values and order; index labels are not part of the property
        if not sh.same_rows(post, want):
            if sh.has_duplicate_labels(pre) and sh.same_rows(post, sh.after_remove_by_label(pre, mask)):
                _v('remove-deletes-every-row-sharing-an-index-label',
                   f'{deleted} rows deleted, condition non-zero on {nz}: rows whose index label equals the label of a removed row '
                   f'were deleted although their condition is zero; {sh.diff(post, want)}', labels=pre['labels'][:40])
            else:
                _v('remove-rows-differ-from-condition', f'condition non-zero on {nz} of {len(mask)} rows; {sh.diff(post, want)}',
                   mask=[int(bool(m)) for m in mask][:80], labels_before=pre['labels'][:80], labels_after=post['labels'][:80])
        if self.excludedData != nz:
            _v('remove-reported-number-differs', f'excludedData={self.excludedData}, condition non-zero on {nz} rows in this call')
    else:
        from collections import Counter

        if OLD.pre['panel'] is None and not sh.is_subsequence(sh.keys_of(post, False), sh.keys_of(pre, False)):
            _v('remove-rows-differ-from-condition', 'rows after remove are not an order-preserving subset of the rows before')
        elif Counter(sh.keys_of(post, False)) - Counter(sh.keys_of(pre, False)):
            _v('remove-rows-differ-from-condition', 'rows after remove are not a subset of the rows before')
        if self.excludedData != deleted and not sh.has_duplicate_labels(pre):
            _v('remove-reported-number-differs', f'excludedData={self.excludedData}, {deleted} rows deleted in this call')


def _values_close(got, ref, tol):
    import numpy as np

    got = np.asarray(got, dtype=float)
    ref = np.asarray(ref, dtype=float)
    if got.shape != ref.shape:
        return False, f'{got.shape[0] if got.ndim else 1} values for {ref.shape[0]} rows'
    rtol, atol = tol
    with np.errstate(all='ignore'):
        ok = (np.abs(got - ref) <= atol + rtol * np.abs(ref)) | (got == ref)
    if not ok.all():
        i = int(np.argmin(ok))
        return False, f'{int((~ok).sum())} row(s) differ, first at position {i}: stored {got[i]!r}, formula gives {ref[i]!r}'
    return True, ''


@_guard
def post_add_column(self, expression, column, OLD, result):
    _c('add_column')
    pre = OLD.pre['data']
    post = sh.snap(self.data)
    exp = EXPECT.pop('values', None) if (EXPECT.get('values') or {}).get('column') == column else None
    if post['cols'] != pre['cols'] + [column]:
        _v('add-column-columns-differ', f'columns after {post["cols"]}, expected {pre["cols"] + [column]}')
        return
    before = {'labels': post['labels'], 'cols': pre['cols'], 'rows': [r[:-1] for r in post['rows']]}
    if not sh.same_rows(before, pre):
        _v('add-column-modifies-other-cells', sh.diff(before, pre))
    stored = [r[-1] for r in post['rows']]
    try:
        returned = [sh._num(x) for x in result.tolist()]
        rlabels = [sh._label(x) for x in result.index.tolist()]
    except Exception as e:
        returned, rlabels = None, None
        _v('add-column-return-value', f'returned object {type(result).__name__} is not the added column: {e}')
    if returned is not None and returned != stored:
        _v('add-column-return-value', f'returned column {returned[:8]} (labels {rlabels[:8]}) differs from the stored one {stored[:8]} (labels {post["labels"][:8]})')
    if exp is not None:
        _c('add_column_with_reference_values')
        ok, why = _values_close([float('nan') if x == 'nan' else x for x in stored], exp['ref'], exp['tol'])
        if not ok:
            _v('add-column-value-differs-from-formula', why, labels=post['labels'][:40], stored=stored[:40], reference=list(exp['ref'])[:40])
            EXPECT['add_failed'] = True


@_guard
def post_values(self, expression, result):
    _c('values_from_database')
    # (the logit expressions call this method internally while another operation is running)
    exp = EXPECT.pop('values', None) if (EXPECT.get('values') or {}).get('expression_id') == id(expression) else None
    if exp is not None:
        _c('values_from_database_with_reference_values')
        ok, why = _values_close(result, exp['ref'], exp['tol'])
        if not ok:
            _v('values-from-database-differ-from-formula', why)


@_guard
def post_define_variable(self, name, expression, result):
    _c('define_variable')
    if type(result).__name__ != 'Variable' or getattr(result, 'name', None) != name:
        _v('define-variable-return-value', f'returned {result!r} for name {name}')
    if name not in list(self.data.columns):
        _v('add-column-columns-differ', f'define_variable({name}): no such column afterwards')


@_guard
def post_scale(self, column, scale, OLD, result):
    _c('scale_column')
    pre = OLD.pre['data']
    post = sh.snap(self.data)
    if post['cols'] != pre['cols'] or len(post['rows']) != len(pre['rows']):
        _v('scale-changes-shape', sh.diff(post, pre))
        return
    j = pre['cols'].index(column)
    want = {'labels': pre['labels'], 'cols': pre['cols'], 'rows': [r[:j] + (r[j] * scale,) + r[j + 1:] for r in pre['rows']]}
    if not sh.same_rows(post, want):
        others = any(x[:j] + x[j + 1:] != y[:j] + y[j + 1:] for x, y in zip(post['rows'], pre['rows']))
        _v('scale-touches-other-column' if others else 'scale-column-value', f'scale_column({column!r}, {scale}): {sh.diff(post, want)}')


def _frames(result):
    out = []
    for f in result:
        out.append((sh.snap(f.estimation), sh.snap(f.validation)))
    return out


@_guard
def post_split(self, slices, groups, OLD, result):
    _c('split')
    pre = OLD.pre
    _unchanged('split', pre, self)
    gcol = pre['panel'] if pre['panel'] is not None else groups
    if gcol is not None:
        _c('split_with_groups')
    notes = []
    res = sh.judge_split(pre['data'], _frames(result), slices, gcol, notes)
    for n in notes:
        _c(n)
    for mech, msg in res:
        _v(mech, f'split({slices}, groups={groups!r}, panel={pre["panel"]!r}) on {len(pre["data"]["rows"])} rows: {msg}')


@_guard
def post_sample(self, size, OLD, result):
    _c('sample_with_replacement')
    pre = OLD.pre
    _unchanged('sample_with_replacement', pre, self)
    for mech, msg in sh.judge_sample(pre['data'], sh.snap(result), size):
        _v(mech, f'sample_with_replacement({size}): {msg}')


@_guard
def post_sample_map(self, size, OLD, result):
    _c('sample_individual_map_with_replacement')
    pre = OLD.pre
    _unchanged('sample_individual_map_with_replacement', pre, self)
    got = read_map(result)
    notes = []
    res = sh.judge_individual_sample(pre['data'], pre['panel'], pre['map'] or [], got, size, notes)
    for n in notes:
        _c(n)
    for mech, msg in res:
        _v(mech, f'sample_individual_map_with_replacement({size}): {msg}')


@_guard
def post_extract(self, a_range, OLD, result):
    _c('extract_rows')
    pre = OLD.pre
    _unchanged('extract_rows', pre, self)
    pos = [int(i) for i in a_range]
    for mech, msg in sh.judge_extract(pre['data'], pos, sh.snap(result.data)):
        _v(mech, msg)


@_guard
def post_flat(self, save_on_file, identical_columns, OLD, result):
    _c('generate_flat_panel_dataframe')
    pre = OLD.pre
    _unchanged('generate_flat_panel_dataframe', pre, self)
    flat, names = sh.read_flat(result)
    for mech, msg in sh.judge_flat(pre['data'], pre['panel'], identical_columns, flat, names):
        _v(mech, f'generate_flat_panel_dataframe(identical_columns={identical_columns}): {msg}')


@_guard
def post_count(self, column_name, value, OLD, result):
    _c('count')
    pre = OLD.pre
    _unchanged('count', pre, self)
    want = sum(1 for v in sh.column(pre['data'], column_name) if v == value)
    if int(result) != want:
        _v('count-differs', f'count({column_name!r}, {value}) = {result}, the column holds the value {want} times')


@_guard
def post_segmentation(self, segmentation_tuple, OLD, result):
    _c('check_segmentation')
    pre = OLD.pre
    _unchanged('check_segmentation', pre, self)
    col = sh.column(pre['data'], segmentation_tuple.variable.name)
    for value, name in segmentation_tuple.mapping.items():
        want = sum(1 for v in col if v == value)
        got = result.get(name) if hasattr(result, 'get') else None
        if got is None or int(got) != want or want == 0:
            _v('segmentation-counts-differ', f'segment {name!r} (value {value!r}) reported with {got} observations, the column holds that value {want} times')
            break
    covered = sum(int(x) for x in result.values()) if hasattr(result, 'values') else -1
    if covered != len(col):
        _v('segmentation-counts-differ', f'segments add up to {covered} observations, the table has {len(col)} rows')


@_guard
def post_panel(self, column_name, OLD, result):
    _c('panel')
    pre = OLD.pre['data']
    post = sh.snap(self.data)
    want, wmap = sh.after_panel(pre, column_name)
    if not sh.same(post, want):
        if sorted(post['rows']) != sorted(want['rows']) or post['cols'] != want['cols']:
            _v('panel-changes-rows', sh.diff(post, want))
        elif post['rows'] != want['rows']:
            _v('panel-reorders-observations', sh.diff(post, want))
        else:
            _c('panel_index_not_renumbered')
    got = read_map(self.individualMap)
    # the map designates rows by position (that is how it is handed to the engine)
    truth = [(v, a, b) for v, a, b, _, ok in sh.individuals(post, column_name)]
    if got is None or sorted(got, key=str) != sorted(truth, key=str):
        _v('panel-map-differs-from-table', f'individual map {got[:8] if got else got} but the rows of the individuals are at {truth[:8]}')


# ---------------------------------------------------------------------------


def install():
    """wrap the methods of the Database class that is importable right now (BIOGEME_SRC aware)"""
    global _INSTALLED
    if _INSTALLED:
        return
    import icontract
    import biogeme.database as bdb

    D = bdb.Database

    def wrap(name, cond, snapshot=True):
        f = getattr(D, name)
        g = icontract.ensure(cond)(f)
        if snapshot:
            g = icontract.snapshot(state, name='pre')(g)
        setattr(D, name, g)

    wrap('remove', post_remove)
    wrap('add_column', post_add_column)
    wrap('define_variable', post_define_variable, snapshot=False)
    wrap('values_from_database', post_values, snapshot=False)
    wrap('scale_column', post_scale)
    wrap('split', post_split)
    wrap('sample_with_replacement', post_sample)
    wrap('sample_individual_map_with_replacement', post_sample_map)
    wrap('extract_rows', post_extract)
    wrap('generate_flat_panel_dataframe', post_flat)
    wrap('count', post_count)
    wrap('check_segmentation', post_segmentation)
    wrap('panel', post_panel)
    _INSTALLED = True


# ---------------------------------------------------------------------------
# pytest plugin: the repository's own tests as workload, the monitors as oracle


def pytest_configure(config):
    install()


def pytest_runtest_logreport(report):
    if report.when == 'call':
        for v in LOG[-200:]:
            v.setdefault('test', report.nodeid)


def pytest_sessionfinish(session, exitstatus):
    path = os.environ.get('C13_CONTRACT_OUT')
    if path:
        with open(path, 'w') as f:
            json.dump({'log': LOG, 'count': COUNT}, f, default=repr)
