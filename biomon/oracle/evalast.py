"""Independent reference semantics of the biogeme expression language.

The *generator's own AST* (nested lists, JSON-able) is the specification; this
module evaluates it with numpy, never touching biogeme objects.

AST nodes (op first):
  leaves   ['num', v] ['bool', b] ['beta', name] ['var', name] ['draws', name, type] ['rv', name]
  unary    ['neg'|'exp'|'log'|'logzero'|'sin'|'cos'|'ncdf', a]  ['powc', a, c]  ['belongs', a, [v...]]
  binary   ['add'|'sub'|'mul'|'div'|'pow'|'min'|'max'|'and'|'or'|'eq'|'ne'|'le'|'ge'|'lt'|'gt', a, b]
  n-ary    ['multsum', [a...], 'list'|'dict']  ['elem', key, [[k, a]...]]
           ['condsum', [[cond, term]...]]  ['linutil', [[betaname, varname]...]]
           ['loglogit', [[alt, V]...], [[alt, av]...]|None, choice, 'log'|'prob']
  wrappers ['mc', a] ['panel', a] ['integrate', a, rvname] ['derive', a, name]
  sharing  ['share', i]  -> ctx.shared[i]  (same semantics as the sub-tree itself)

Values are arrays of shape (N, R') (R' = 1 or number of draws); after 'panel'
the first axis is individuals. dtype may be float64, longdouble or complex128
(complex step differentiation: analytic operators only; branching operators
look at the real part).
"""
from __future__ import annotations

import numpy as np
from scipy import special

BIN_ARITH = ('add', 'sub', 'mul', 'div', 'pow', 'min', 'max')
BIN_LOGIC = ('and', 'or')
BIN_CMP = ('eq', 'ne', 'le', 'ge', 'lt', 'gt')
UNARY = ('neg', 'exp', 'log', 'logzero', 'sin', 'cos', 'ncdf')


class OutOfDomain(Exception):
    """The case leaves the regular domain (log of <=0, missing key, overflow...)."""


class Ctx:
    def __init__(self, data: dict, betas: dict, shared=None, dtype=np.float64,
                 draws: dict | None = None, panel_groups=None, margin=0.0,
                 gh_nodes=None):
        """data: name -> 1-D array (N,); betas: name -> value;
        draws: name -> array (Nsample, R); panel_groups: list of row-index arrays
        margin: distance under which a branch decision is called a tie"""
        self.dtype = dtype
        self.data = {k: np.asarray(v, dtype=np.float64) for k, v in data.items()}
        self.n = len(next(iter(self.data.values()))) if self.data else 1
        self.betas = betas
        self.shared = shared or []
        self.draws = draws or {}
        self.panel_groups = panel_groups
        self.margin = margin
        self.ties = 0  # number of branch decisions within margin
        self.maxabs = 0.0
        self.rv = {}
        self.memo = {}

    def arr(self, x):
        return np.asarray(x, dtype=self.dtype)


def _re(x):
    return x.real if np.iscomplexobj(x) else x


def _track(ctx, v):
    with np.errstate(all='ignore'):
        m = np.max(np.abs(_re(v))) if v.size else 0.0
    if not np.isfinite(m):
        raise OutOfDomain('non-finite intermediate')
    if m > ctx.maxabs:
        ctx.maxabs = float(m)
    return v


_EXACT_OPS = ('num', 'bool', 'var', 'beta', 'and', 'or', 'belongs') + BIN_CMP


def _exact(node, ctx):
    """operands whose value is exact in every evaluator: literals, data, parameters, 0/1 results"""
    while node[0] == 'share':
        node = ctx.shared[node[1]]
    return node[0] in _EXACT_OPS


def _tie(ctx, d, exact=True):
    """d: signed distance to a branch border; count ties within margin.
    exact=False: the operands are computed quantities, for which an exact zero distance is a
    rounding accident another evaluator need not reproduce (e.g. a log-probability of exactly 0)."""
    if ctx.margin > 0 and not exact:
        if np.any(_re(d) == 0):
            ctx.ties += 1
    # an exact zero distance is a legitimate exact tie (integer codes, booleans);
    # rounding-induced exact ties are caught by the float64/longdouble cross-check
    if ctx.margin > 0:
        a = np.abs(_re(d))
        if np.any((a <= ctx.margin) & (a > 0)):
            ctx.ties += 1


def ev(node, ctx: Ctx):
    op = node[0]
    if op == 'share':
        i = node[1]
        key = ('share', i)
        if key not in ctx.memo:
            ctx.memo[key] = ev(ctx.shared[i], ctx)
        return ctx.memo[key]
    f = _OPS.get(op)
    if f is None:
        raise ValueError(f'unknown op {op}')
    with np.errstate(all='ignore'):
        v = f(node, ctx)
    return _track(ctx, v)


def _num(node, ctx):
    return ctx.arr([[float(node[1])]])


def _bool(node, ctx):
    return ctx.arr([[1.0 if node[1] else 0.0]])


def _beta(node, ctx):
    return ctx.arr([[ctx.betas[node[1]]]])


def _var(node, ctx):
    return ctx.arr(ctx.data[node[1]]).reshape(-1, 1)


def _draws(node, ctx):
    return ctx.arr(ctx.draws[node[1]])


def _rv(node, ctx):
    if node[1] not in ctx.rv:
        raise OutOfDomain('random variable outside Integrate')
    return ctx.rv[node[1]]


def _un(fn):
    def g(node, ctx):
        return fn(ev(node[1], ctx), ctx)

    return g


def _log(a, ctx):
    if np.any(_re(a) <= 1e-6):
        raise OutOfDomain('log of non-positive / near-zero')
    return np.log(a)


def _literal_leaf(node, ctx):
    """a literal, a parameter or a data column: its value is exactly the same number in every evaluator"""
    while node[0] == 'share':
        node = ctx.shared[node[1]]
    return node[0] in ('num', 'beta', 'var')


def _log_node(node, ctx):
    a = ev(node[1], ctx)
    # a COMPUTED argument within 1e-6 of zero is ill-conditioned (out of the regular domain); a tiny positive literal,
    # parameter or data value is an exact positive argument
    if np.any(_re(a) <= (0.0 if _literal_leaf(node[1], ctx) else 1e-6)):
        raise OutOfDomain('log of non-positive / near-zero')
    return np.log(a)


def _logzero_node(node, ctx):
    a = ev(node[1], ctx)
    return _logzero(a, ctx, exact=_literal_leaf(node[1], ctx))


def _logzero(a, ctx, exact=False):
    r = _re(a)
    if np.any((r < 0) | ((r != 0) & (np.abs(r) <= 1e-6) & (not exact))):
        raise OutOfDomain('logzero of negative / near zero')
    out = np.zeros_like(a)
    nz = r != 0
    out[nz] = np.log(a[nz])
    return out


def _ncdf(a, ctx):
    if np.iscomplexobj(a):
        return special.ndtr(a)
    return ctx.arr(special.ndtr(np.asarray(a, dtype=np.float64)))


def _powc(node, ctx):
    a = ev(node[1], ctx)
    c = float(node[2])
    r = _re(a)
    if c == int(c):
        if c <= 0 and np.any(np.abs(r) <= 1e-6):
            # 0**0 and 0**-k: outside the regular domain (the two evaluators differ on 0**0)
            raise OutOfDomain('non-positive integer power of ~0')
        return a ** int(c)
    if np.any(r <= 1e-6):
        raise OutOfDomain('non-integer power of non-positive')
    return a ** ctx.arr(c) if not np.iscomplexobj(a) else a ** c


def _belongs(node, ctx):
    a = _re(ev(node[1], ctx))
    s = [float(x) for x in node[2]]
    for x in s:
        _tie(ctx, a - x)
    return ctx.arr(np.isin(np.asarray(a, dtype=np.float64), s).astype(np.float64))


def _bin(node, ctx):
    op = node[0]
    a = ev(node[1], ctx)
    b = ev(node[2], ctx)
    if op == 'add':
        return a + b
    if op == 'sub':
        return a - b
    if op == 'mul':
        return a * b
    if op == 'div':
        if np.any(np.abs(_re(b)) <= 1e-6):
            raise OutOfDomain('division by ~0')
        return a / b
    if op == 'pow':
        if np.any(_re(a) <= 1e-6):
            raise OutOfDomain('power with non-positive base')
        return a ** b
    ra, rb = _re(a), _re(b)
    exact = _exact(node[1], ctx) and _exact(node[2], ctx)
    if op in ('min', 'max'):
        _tie(ctx, ra - rb)
        a2, b2 = np.broadcast_arrays(a, b)
        pick = (ra <= rb) if op == 'min' else (ra >= rb)
        pick = np.broadcast_to(pick, a2.shape)
        return np.where(pick, a2, b2)
    if op == 'and':
        _tie(ctx, ra)
        _tie(ctx, rb)
        return ctx.arr(((ra != 0) & (rb != 0)).astype(np.float64))
    if op == 'or':
        _tie(ctx, ra)
        _tie(ctx, rb)
        return ctx.arr(((ra != 0) | (rb != 0)).astype(np.float64))
    _tie(ctx, ra - rb, exact)
    res = {
        'eq': ra == rb,
        'ne': ra != rb,
        'le': ra <= rb,
        'ge': ra >= rb,
        'lt': ra < rb,
        'gt': ra > rb,
    }[op]
    return ctx.arr(np.asarray(res).astype(np.float64))


def _multsum(node, ctx):
    tot = None
    for a in node[1]:
        v = ev(a, ctx)
        tot = v if tot is None else tot + v
    return tot


def _as_int_keys(k, ctx):
    r = np.asarray(_re(k), dtype=np.float64)
    ki = np.trunc(r)
    # keys must be (numerically) integers: the engine truncates, Python int()s
    if np.any(np.abs(r - np.round(r)) > 1e-9):
        raise OutOfDomain('non-integer key')
    return np.round(r).astype(np.int64)


def _elem(node, ctx):
    k = _as_int_keys(ev(node[1], ctx), ctx)
    entries = {int(kk): a for kk, a in node[2]}
    present = set(np.unique(k).tolist())
    if not present <= set(entries):
        raise OutOfDomain('key absent from dictionary')
    out = None
    for kk in sorted(present):
        # lazy: only selected entries are evaluated (as the engine does)
        v = ev(entries[kk], ctx)
        sel = k == kk
        v2 = np.broadcast_to(v, np.broadcast_shapes(v.shape, sel.shape))
        sel2 = np.broadcast_to(sel, v2.shape)
        if out is None:
            out = np.zeros(v2.shape, dtype=ctx.dtype)
        elif out.shape != v2.shape:
            shp = np.broadcast_shapes(out.shape, v2.shape)
            out = np.broadcast_to(out, shp).copy()
            v2 = np.broadcast_to(v2, shp)
            sel2 = np.broadcast_to(sel, shp)
        out = np.where(sel2, v2, out)
    return out


def _condsum(node, ctx):
    tot = ctx.arr([[0.0]])
    for cond, term in node[1]:
        c = _re(ev(cond, ctx))
        _tie(ctx, c)
        if not np.any(c != 0):
            continue  # lazy: terms whose condition is 0 everywhere are not read
        t = ev_masked(term, ctx, c != 0)
        tot = tot + np.where(np.broadcast_to(c != 0, np.broadcast_shapes(t.shape, c.shape)), t, 0.0)
    return tot


def ev_masked(node, ctx, mask):
    """Evaluate node; rows where mask is False may be out of domain (not read
    by the formula). Falls back to row subset evaluation on OutOfDomain."""
    try:
        return ev(node, ctx)
    except OutOfDomain:
        m = np.asarray(mask)
        if m.ndim == 2 and m.shape[1] == 1 and m.shape[0] == ctx.n and ctx.panel_groups is None and not ctx.draws:
            rows = np.nonzero(m[:, 0])[0]
            sub = Ctx({k: v[rows] for k, v in ctx.data.items()}, ctx.betas, ctx.shared, ctx.dtype,
                      margin=ctx.margin)
            sub.rv = {}
            v = ev(node, sub)
            ctx.ties += sub.ties
            ctx.maxabs = max(ctx.maxabs, sub.maxabs)
            full = np.zeros((ctx.n, v.shape[1]), dtype=ctx.dtype)
            if v.shape[0] == 1:
                full[rows] = v[0]
            else:
                full[rows] = v
            return full
        raise


def _linutil(node, ctx):
    tot = ctx.arr(np.zeros((ctx.n, 1)))
    for b, x in node[1]:
        tot = tot + ctx.arr(ctx.betas[b]) * ctx.arr(ctx.data[x]).reshape(-1, 1)
    return tot


def _loglogit(node, ctx):
    utils = [(int(k), a) for k, a in node[1]]
    avs = None if node[2] is None else {int(k): a for k, a in node[2]}
    choice = _as_int_keys(ev(node[3], ctx), ctx)
    alts = [k for k, _ in utils]
    if not set(np.unique(choice).tolist()) <= set(alts):
        raise OutOfDomain('choice not among alternatives')
    V = {}
    A = {}
    for k, a in utils:
        if avs is None:
            A[k] = np.ones((1, 1), dtype=bool)
        else:
            av = _re(ev(avs[k], ctx))
            _tie(ctx, av)
            A[k] = av != 0
    for k, a in utils:
        if not np.any(A[k]):
            V[k] = None
            continue
        V[k] = ev_masked(a, ctx, A[k])
    shape = np.broadcast_shapes(choice.shape, *[v.shape for v in V.values() if v is not None],
                                *[a.shape for a in A.values()])
    # chosen must be available
    vch = np.zeros(shape, dtype=ctx.dtype)
    for k in alts:
        sel = np.broadcast_to(choice == k, shape)
        if np.any(sel):
            if np.any(sel & ~np.broadcast_to(A[k], shape)):
                raise OutOfDomain('chosen alternative unavailable')
            vch = np.where(sel, np.broadcast_to(V[k], shape), vch)
    denom = np.zeros(shape, dtype=ctx.dtype)
    for k in alts:
        if V[k] is None:
            continue
        a = np.broadcast_to(A[k], shape)
        d = np.where(a, np.broadcast_to(V[k], shape) - vch, 0.0)
        if np.any(_re(d) > 600):
            raise OutOfDomain('overflow in logit')
        denom = denom + np.where(a, np.exp(d), 0.0)
    res = -np.log(denom)
    if node[4] == 'prob':
        res = np.exp(res)
    return res


def _mc(node, ctx):
    v = ev(node[1], ctx)
    return np.mean(v, axis=1, keepdims=True) if v.shape[1] > 1 else v


def _panel(node, ctx):
    v = ev(node[1], ctx)
    if ctx.panel_groups is None:
        raise OutOfDomain('panel without groups')
    if v.shape[0] == 1:
        v = np.broadcast_to(v, (ctx.n, v.shape[1]))
    out = np.stack([np.prod(v[np.asarray(g)], axis=0) for g in ctx.panel_groups], axis=0)
    return out


_OPS = {
    'num': _num,
    'bool': _bool,
    'beta': _beta,
    'var': _var,
    'draws': _draws,
    'rv': _rv,
    'neg': _un(lambda a, c: -a),
    'exp': _un(lambda a, c: np.exp(a)),
    'log': _log_node,
    'logzero': _logzero_node,
    'sin': _un(lambda a, c: np.sin(a)),
    'cos': _un(lambda a, c: np.cos(a)),
    'ncdf': _un(_ncdf),
    'powc': _powc,
    'belongs': _belongs,
    'multsum': _multsum,
    'elem': _elem,
    'condsum': _condsum,
    'linutil': _linutil,
    'loglogit': _loglogit,
    'mc': _mc,
    'panel': _panel,
}
for _o in BIN_ARITH + BIN_LOGIC + BIN_CMP:
    _OPS[_o] = _bin


# ---------------------------------------------------------------------------
# public helpers


def evaluate(ast, data, betas, shared=None, dtype=np.float64, margin=0.0, draws=None, panel_groups=None):
    """Returns (values (N or I,), ctx). Raises OutOfDomain."""
    ctx = Ctx(data, betas, shared, dtype, draws=draws, panel_groups=panel_groups, margin=margin)
    v = ev(ast, ctx)
    nrow = len(panel_groups) if (panel_groups is not None and _has(ast, 'panel', shared)) else ctx.n
    if v.shape[1] != 1:
        raise OutOfDomain('draws outside MonteCarlo')
    v = np.broadcast_to(v, (nrow if v.shape[0] == 1 else v.shape[0], 1))[:, 0]
    return v, ctx


def _has(ast, op, shared):
    if not isinstance(ast, list):
        return False
    if ast and ast[0] == op:
        return True
    if ast and ast[0] == 'share':
        return _has(shared[ast[1]], op, shared)
    return any(_has(x, op, shared) for x in ast if isinstance(x, list))


def judge(ast, data, betas, shared=None, draws=None, panel_groups=None, margin=1e-6, big=1e100,
          cond_rtol=1e-12):
    """Reference value with the conditioning filter of DESIGN 2.3.

    returns dict(ok, value (float64 array), reason)"""
    try:
        v64, c64 = evaluate(ast, data, betas, shared, np.float64, margin, draws, panel_groups)
        v80, c80 = evaluate(ast, data, betas, shared, np.longdouble, 0.0, draws, panel_groups)
    except OutOfDomain as e:
        return {'ok': False, 'reason': f'domain: {e}'}
    except (KeyError, FloatingPointError, OverflowError, ZeroDivisionError) as e:
        return {'ok': False, 'reason': f'domain: {type(e).__name__} {e}'}
    if c64.ties:
        return {'ok': False, 'reason': 'tie'}
    if c64.maxabs > big:
        return {'ok': False, 'reason': 'big'}
    v80 = np.asarray(v80, dtype=np.float64)
    if not np.all(np.isfinite(v64)):
        return {'ok': False, 'reason': 'nonfinite'}
    # ill-conditioning is measured against the largest intermediate: cancellation
    # of large terms makes the float64 result itself unreliable
    scale = np.maximum(np.abs(v80), 1e-300)
    if np.any(np.abs(v64 - v80) > cond_rtol * scale):
        return {'ok': False, 'reason': 'illcond'}
    if c64.maxabs > 0 and np.any(np.abs(v64) < 1e-7 * c64.maxabs) and c64.maxabs > 1e3:
        # strong cancellation relative to intermediates: engine's different
        # association order may legitimately differ
        return {'ok': False, 'reason': 'cancel'}
    return {'ok': True, 'value': v64, 'maxabs': c64.maxabs}


def gradient(ast, data, betas, names, shared=None, draws=None, panel_groups=None, h=1e-30):
    """d value / d betas[name] for name in names by complex step. (len(names), N)"""
    out = []
    for nm in names:
        b = {k: complex(v) for k, v in betas.items()}
        b[nm] = b[nm] + 1j * h
        v, _ = evaluate(ast, data, b, shared, np.complex128, 0.0, draws, panel_groups)
        out.append(v.imag / h)
    return np.array(out)


def _hessian_cd(ast, data, betas, names, shared, draws, panel_groups, rel):
    cols = []
    for j, nm in enumerate(names):
        hstep = rel * max(1.0, abs(betas[nm]))
        bp = dict(betas)
        bm = dict(betas)
        bp[nm] = betas[nm] + hstep
        bm[nm] = betas[nm] - hstep
        gp = gradient(ast, data, bp, names, shared, draws, panel_groups)
        gm = gradient(ast, data, bm, names, shared, draws, panel_groups)
        cols.append((gp - gm) / (2 * hstep))
    H = np.array(cols)  # [j, i, n] = d g_i / d b_j
    return 0.5 * (H + np.transpose(H, (1, 0, 2)))


def hessian(ast, data, betas, names, shared=None, draws=None, panel_groups=None, rel=2e-4, with_error=False):
    """Second derivatives: Richardson-extrapolated central differences of the complex-step
    gradient. (K, K, N). with_error: also returns |extrapolated - plain| as an error indicator."""
    h1 = _hessian_cd(ast, data, betas, names, shared, draws, panel_groups, rel)
    h2 = _hessian_cd(ast, data, betas, names, shared, draws, panel_groups, rel / 2)
    H = (4 * h2 - h1) / 3
    if with_error:
        return H, np.abs(H - h2)
    return H


# third, trivially simple route: render as python/numpy source and eval (self-test of this oracle)
def to_source(ast, shared=None):
    op = ast[0]
    S = lambda a: to_source(a, shared)
    if op == 'share':
        return S(shared[ast[1]])
    if op == 'num':
        return repr(float(ast[1]))
    if op == 'bool':
        return '1.0' if ast[1] else '0.0'
    if op == 'beta':
        return f'B[{ast[1]!r}]'
    if op == 'var':
        return f'X[{ast[1]!r}]'
    if op in ('neg',):
        return f'(-{S(ast[1])})'
    if op in ('exp', 'log', 'sin', 'cos'):
        return f'np.{op}({S(ast[1])})'
    if op == 'logzero':
        return f'LOGZERO({S(ast[1])})'
    if op == 'ncdf':
        return f'NDTR({S(ast[1])})'
    if op == 'powc':
        c = float(ast[2])
        return f'(({S(ast[1])})**{int(c) if c == int(c) else repr(c)})'
    if op == 'belongs':
        return f'ISIN({S(ast[1])}, {list(map(float, ast[2]))!r})'
    sym = {'add': '+', 'sub': '-', 'mul': '*', 'div': '/', 'pow': '**', 'eq': '==', 'ne': '!=', 'le': '<=', 'ge': '>=',
           'lt': '<', 'gt': '>'}
    if op in ('add', 'sub', 'mul', 'div', 'pow'):
        return f'(({S(ast[1])}){sym[op]}({S(ast[2])}))'
    if op in BIN_CMP:
        return f'((({S(ast[1])}){sym[op]}({S(ast[2])}))*1.0)'
    if op == 'min':
        return f'np.minimum({S(ast[1])},{S(ast[2])})'
    if op == 'max':
        return f'np.maximum({S(ast[1])},{S(ast[2])})'
    if op == 'and':
        return f'((({S(ast[1])})!=0)&(({S(ast[2])})!=0))*1.0'
    if op == 'or':
        return f'((({S(ast[1])})!=0)|(({S(ast[2])})!=0))*1.0'
    if op == 'multsum':
        return '(' + '+'.join(S(a) for a in ast[1]) + ')'
    if op == 'linutil':
        return '(' + '+'.join(f'B[{b!r}]*X[{x!r}]' for b, x in ast[1]) + ')'
    raise NotImplementedError(op)


def eval_source(src, data, betas):
    ns = {
        'np': np,
        'B': betas,
        'X': {k: np.asarray(v, dtype=float) for k, v in data.items()},
        'NDTR': special.ndtr,
        'LOGZERO': lambda a: np.where(np.asarray(a) == 0, 0.0, np.log(np.where(np.asarray(a) == 0, 1.0, a))),
        'ISIN': lambda a, s: np.isin(a, s) * 1.0,
    }
    n = len(next(iter(data.values()))) if data else 1
    with np.errstate(all='ignore'):
        return np.broadcast_to(np.asarray(eval(src, ns), dtype=float), (n,))
