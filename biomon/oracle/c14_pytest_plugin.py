"""pytest plugin: the repository's own tests as extra workload for the C14 monitors.

Loaded with ``-p biomon.oracle.c14_pytest_plugin`` (thorough tier of C14, on a
copy of the tests outside /repo). While the tests run, every call of
``bioResults.write_html / write_latex / write_f12 / write_pickle``,
``Database.dump_on_file`` and ``create_backup`` goes through the same monitors as
the generated workload (directory snapshot before/after, audit-hook file events,
fresh-name contract, report parsers, pickle round trip). Nothing is changed in
the objects; an exception of the wrapped call is re-raised unchanged. The
aggregated recorder is dumped as JSON to ``$C14_PLUGIN_OUT`` at session end.
"""
from __future__ import annotations

import functools
import json
import os

from biomon import env  # noqa: F401  (puts the code under test first on sys.path, before any test imports biogeme)

_REC = None
_BUSY = False


def _test_id():
    return os.environ.get('PYTEST_CURRENT_TEST', '?').split(' ')[0]


def _wrap(owner, name, label, after):
    from biomon.checks import c14

    orig = getattr(owner, name)

    @functools.wraps(orig)
    def wrapper(*a, **kw):
        global _BUSY
        if _BUSY:
            return orig(*a, **kw)
        _BUSY = True
        try:
            ctx = c14.Ctx(_REC, os.getcwd(), {'repo_test': _test_id(), 'call': label})
            try:
                result, err, new, before, aft = c14.monitored(ctx, label, lambda: orig(*a, **kw))
            except BaseException as e:  # a monitor failure must never change the test outcome
                _REC.inconc(f'monitor raised inside repo test {_test_id()}: {type(e).__name__}: {e}')
                return orig(*a, **kw)
            if err is not None:
                _REC.c('repo_tests_calls_that_raised')
                raise err
            _REC.c('repo_tests_writer_calls_observed')
            try:
                after(ctx, a, result, new)
            except BaseException as e:
                _REC.inconc(f'monitor raised after {label} in repo test {_test_id()}: {type(e).__name__}: {e}')
            return result
        finally:
            _BUSY = False

    setattr(owner, name, wrapper)


def pytest_configure(config):
    global _REC
    from biomon.rec import Rec
    from biomon.checks import c14
    from biomon.oracle import c14_reports as orc
    import biogeme.results as res
    import biogeme.database as db
    import biogeme.tools.files as files

    _REC = Rec({'mode': 'repo-tests'})
    orc.FILE_EVENTS.install()
    orc.NAME_CONTRACT.install()

    def estimates(r):
        return list(r.data.betaNames), [float(x) for x in r.data.betaValues]

    def after_report(ext, checker, attr):
        def after(ctx, a, result, new):
            r = a[0]
            fn = c14.expect_single_new(ctx, 'write_' + attr, new, ext, getattr(r.data, {'html': 'htmlFileName', 'latex': 'latexFileName', 'f12': 'F12FileName'}[attr]))
            if fn and r.data.H is not None:
                names, values = estimates(r)
                with open(os.path.join(ctx.d, fn), encoding='utf-8') as f:
                    checker(ctx, f.read(), names, values, 'file')
        return after

    def after_pickle(ctx, a, result, new):
        r = a[0]
        fn = c14.expect_single_new(ctx, 'write_pickle', new, 'pickle', result)
        if fn:
            c14.check_pickle_file(ctx, fn, r, None, 'write_pickle')

    def after_dump(ctx, a, result, new):
        c14.expect_single_new(ctx, 'dump_on_file', new, 'dat', result)

    def after_backup(ctx, a, result, new):
        if result is not None and os.path.basename(result) not in new:
            ctx.viol('backup-name-not-new-create_backup', f'create_backup returned {result!r}; new files {new}')

    _wrap(res.bioResults, 'write_html', 'write_html', after_report('html', c14.check_html, 'html'))
    _wrap(res.bioResults, 'write_latex', 'write_latex', after_report('tex', c14.check_latex, 'latex'))
    _wrap(res.bioResults, 'write_f12', 'write_f12', after_report('F12', c14.check_f12, 'f12'))
    _wrap(res.bioResults, 'write_pickle', 'write_pickle', after_pickle)
    _wrap(db.Database, 'dump_on_file', 'dump_on_file', after_dump)
    _wrap(files, 'create_backup', 'create_backup', after_backup)


def pytest_sessionfinish(session, exitstatus):
    out = os.environ.get('C14_PLUGIN_OUT')
    if _REC is not None and out:
        from biomon.oracle import c14_reports as orc

        if orc.NAME_CONTRACT.all_failures and not any(v['mech'].endswith('get_new_file_name-returned-existing-name') for v in _REC.viol):
            f0 = orc.NAME_CONTRACT.all_failures[0]
            _REC.violation('C14/get_new_file_name-returned-existing-name',
                           f'get_new_file_name({f0["name"]!r},{f0["ext"]!r}) returned {f0["returned"]!r} which exists (repository tests)', f0)
        _REC.ev(orc.NAME_CONTRACT.total_calls)
        o = _REC.out()
        o['pytest_exitstatus'] = int(exitstatus)
        o['cov']['repo_tests_fresh_name_contract_evaluations'] = orc.NAME_CONTRACT.total_calls
        with open(out, 'w') as f:
            json.dump(o, f, default=repr)
