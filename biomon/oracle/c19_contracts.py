"""C19 boundary monitors on the real functions.

Recording wrappers around ``SamplingOfAlternatives.sample_alternatives``,
``SamplingOfAlternatives.sample_mev_alternatives`` and
``ChoiceSetsGeneration.process_row``.  Each call appends one event to ``LOG``:
the arguments, a summary of what was returned and the list of post-condition
failures.  The post-conditions are *self-contained*: they only use the state of
the receiving object at the time of the call (its partition, its alternative
table), so the same monitors can watch the repository's own tests
(biomon/oracle/c19_pytest_plugin.py).  The check additionally judges the same
events against its specification-based oracle.

The wrappers never change arguments, results or exceptions.
"""
from __future__ import annotations

import math

LOG: list[dict] = []
COUNTS = {'sample_alternatives': 0, 'sample_mev_alternatives': 0, 'process_row': 0}
_INSTALLED = False

LOG_PROBA_COL = '_log_proba'
MEV_WEIGHT = '_mev_weight'
MEV_PREFIX = '_MEV_'


def reset():
    LOG.clear()


def _f(x):
    try:
        return float(x)
    except (TypeError, ValueError):
        return float('nan')


def post_first_sample(obj, chosen, frame):
    """post-condition of sample_alternatives, from the object's own state"""
    out = []
    idc = obj.id_column
    if idc not in frame.columns:
        return [('no-id-column', f'columns {list(frame.columns)}')]
    ids = [_f(a) for a in frame[idc].tolist()]
    if not ids:
        return [('empty', 'empty sample')]
    if ids[0] != _f(chosen):
        out.append(('chosen-not-first', f'chosen {chosen}, listed {ids}'))
    if len(set(ids)) != len(ids):
        out.append(('duplicate-alternative', f'listed {ids}'))
    lp = [_f(v) for v in frame[LOG_PROBA_COL].tolist()] if LOG_PROBA_COL in frame.columns else None
    if lp is None:
        out.append(('no-correction-column', f'columns {list(frame.columns)}'))
    seen = 0
    for s, stratum in enumerate(obj.partition):
        subset = {float(a) for a in stratum.subset}
        pos = [p for p, a in enumerate(ids) if a in subset]
        seen += len(pos)
        if len(pos) != stratum.sample_size:
            out.append(('stratum-count', f'stratum {s} (size {len(subset)}): {len(pos)} listed, {stratum.sample_size} requested; listed {ids}'))
        if lp is not None and len(subset) > 0 and stratum.sample_size > 0:
            want = math.log(stratum.sample_size / len(subset))
            for p in pos:
                if not (abs(lp[p] - want) <= 1e-12 + 1e-12 * abs(want)):
                    out.append(('correction-term' + ('-chosen' if p == 0 else '-sampled'),
                                f'position {p} alternative {ids[p]}: {lp[p]} where ln({stratum.sample_size}/{len(subset)}) = {want}'))
                    break
    if seen != len(ids):
        out.append(('unknown-alternative', f'{len(ids) - seen} listed alternatives belong to no stratum: {ids}'))
    out += _own_attributes(obj, frame, ids)
    return out


def _own_attributes(obj, frame, ids):
    """each listed alternative carries its own attributes (columns compared by position: a frame may
    legitimately hold the same column twice)"""
    import numpy as np

    table = obj.alternatives
    idc = obj.id_column
    try:
        tv = table.to_numpy(dtype=float)
        fv = frame.to_numpy(dtype=float)
    except (TypeError, ValueError):
        return []
    tcols = list(table.columns)
    tid = tv[:, tcols.index(idc)]
    where = {}
    for r, a in enumerate(tid.tolist()):
        where.setdefault(a, []).append(r)
    pairs = [(ci, tcols.index(c), c) for ci, c in enumerate(frame.columns) if c in tcols]
    for p, a in enumerate(ids):
        rows = where.get(a, [])
        if len(rows) != 1:
            continue
        for ci, ti, c in pairs:
            got, want = fv[p, ci], tv[rows[0], ti]
            if not (got == want or (np.isnan(got) and np.isnan(want))):
                return [('attribute-of-other-alternative', f'position {p} alternative {a}: {c} = {got}, table says {want}')]
    return []


def post_second_sample(obj, frame):
    out = []
    idc = obj.id_column
    if idc not in frame.columns:
        return [('no-id-column', f'columns {list(frame.columns)}')]
    ids = [_f(a) for a in frame[idc].tolist()]
    if len(set(ids)) != len(ids):
        out.append(('duplicate-alternative', f'listed {ids}'))
    w = [_f(v) for v in frame[MEV_WEIGHT].tolist()] if MEV_WEIGHT in frame.columns else None
    if w is None:
        out.append(('no-weight-column', f'columns {list(frame.columns)}'))
    seen = 0
    for s, stratum in enumerate(obj.second_partition):
        subset = {float(a) for a in stratum.subset}
        pos = [p for p, a in enumerate(ids) if a in subset]
        seen += len(pos)
        if len(pos) != stratum.sample_size:
            out.append(('stratum-count', f'second sample stratum {s} (size {len(subset)}): {len(pos)} listed, {stratum.sample_size} requested'))
        if w is not None and stratum.sample_size > 0:
            want = len(subset) / stratum.sample_size
            for p in pos:
                if not abs(w[p] - want) <= 1e-12 * abs(want):
                    out.append(('weight', f'second sample position {p} alternative {ids[p]}: weight {w[p]} where n/k = {len(subset)}/{stratum.sample_size}'))
                    break
    if seen != len(ids):
        out.append(('unknown-alternative', f'second sample: {len(ids) - seen} listed alternatives belong to no stratum'))
    out += _own_attributes(obj, frame, ids)
    return out


def post_process_row(obj, row, result, inner):
    """the flattened row says exactly what the samples drawn inside this call said"""
    out = []
    for c, v in row.items():
        if c not in result:
            out.append(('individual-column-lost', f'column {c} of the individual is not in the extended row'))
        else:
            a, b = _f(result[c]), _f(v)
            if not (a == b or (math.isnan(a) and math.isnan(b))):
                out.append(('individual-column-changed', f'column {c}: {result[c]} in the extended row, {v} in the individual row'))
    firsts = [e for e in inner if e['fn'] == 'sample_alternatives' and 'frame' in e]
    seconds = [e for e in inner if e['fn'] == 'sample_mev_alternatives' and 'frame' in e]
    if len(firsts) != 1:
        out.append(('first-sample-calls', f'{len(firsts)} calls of sample_alternatives inside process_row'))
    else:
        e = firsts[0]
        if _f(e['chosen']) != _f(row[obj.choice_column]):
            out.append(('sampled-around-other-choice', f'sample drawn around {e["chosen"]}, the individual chose {row[obj.choice_column]}'))
        out += _flat(e['frame'], result, '')
    want2 = 0 if obj.second_partition is None else 1
    if len(seconds) != want2:
        out.append(('second-sample-calls', f'{len(seconds)} calls of sample_mev_alternatives inside process_row, expected {want2}'))
    elif want2:
        out += _flat(seconds[0]['frame'], result, MEV_PREFIX)
    return out


def _flat(frame, result, prefix):
    cols = list(frame['columns'])
    for p, values in enumerate(frame['rows']):
        for c, v in zip(cols, values):
            key = f'{prefix}{c}_{p}'
            if key not in result:
                if isinstance(v, float) and math.isnan(v):
                    continue
                return [('flattened-column-missing', f'{key} is not in the extended row')]
            a, b = _f(result[key]), _f(v)
            if not (a == b or (math.isnan(a) and math.isnan(b))):
                return [('flattened-value-differs', f'{key} = {result[key]}, the sample had {v}')]
    n = len(frame['rows'])
    extra = [k for k in result if isinstance(k, str) and k.startswith(prefix + cols[0] + '_') and k[len(prefix + cols[0]) + 1:].isdigit()
             and int(k[len(prefix + cols[0]) + 1:]) >= n] if cols else []
    if extra:
        return [('flattened-extra-positions', f'{extra} beyond the {n} sampled alternatives')]
    return []


def _frame_summary(frame):
    cols = [str(c) for c in frame.columns]
    rows = [[_f(v) for v in r] for r in frame.itertuples(index=False, name=None)]
    return {'columns': cols, 'rows': rows}


def install():
    """idempotent; returns the classes patched"""
    global _INSTALLED
    import functools

    from biogeme.sampling_of_alternatives.sampling_of_alternatives import SamplingOfAlternatives
    from biogeme.sampling_of_alternatives.choice_set_generation import ChoiceSetsGeneration

    if _INSTALLED:
        return
    _INSTALLED = True
    orig_first = SamplingOfAlternatives.sample_alternatives
    orig_second = SamplingOfAlternatives.sample_mev_alternatives
    orig_row = ChoiceSetsGeneration.process_row

    @functools.wraps(orig_first)
    def sample_alternatives(self, chosen):
        ev = {'fn': 'sample_alternatives', 'chosen': _f(chosen)}
        LOG.append(ev)
        COUNTS['sample_alternatives'] += 1
        try:
            res = orig_first(self, chosen)
        except BaseException as e:
            ev['raised'] = f'{type(e).__name__}: {e}'
            raise
        try:
            ev['frame'] = _frame_summary(res)
            ev['problems'] = post_first_sample(self, chosen, res)
        except BaseException as e:  # the monitor must never change the outcome
            ev['monitor_error'] = f'{type(e).__name__}: {e}'
        return res

    @functools.wraps(orig_second)
    def sample_mev_alternatives(self):
        ev = {'fn': 'sample_mev_alternatives'}
        LOG.append(ev)
        COUNTS['sample_mev_alternatives'] += 1
        try:
            res = orig_second(self)
        except BaseException as e:
            ev['raised'] = f'{type(e).__name__}: {e}'
            raise
        try:
            ev['frame'] = _frame_summary(res)
            ev['problems'] = post_second_sample(self, res)
        except BaseException as e:
            ev['monitor_error'] = f'{type(e).__name__}: {e}'
        return res

    @functools.wraps(orig_row)
    def process_row(self, individual_row):
        start = len(LOG)
        ev = {'fn': 'process_row'}
        COUNTS['process_row'] += 1
        try:
            row_copy = dict(individual_row.to_dict())
        except BaseException:
            row_copy = None
        try:
            res = orig_row(self, individual_row)
        except BaseException as e:
            ev['raised'] = f'{type(e).__name__}: {e}'
            LOG.append(ev)
            raise
        try:
            inner = LOG[start:]
            ev['problems'] = post_process_row(self, row_copy, res, inner) if row_copy is not None else []
            ev['n_keys'] = len(res)
        except BaseException as e:
            ev['monitor_error'] = f'{type(e).__name__}: {e}'
        LOG.append(ev)
        return res

    SamplingOfAlternatives.sample_alternatives = sample_alternatives
    SamplingOfAlternatives.sample_mev_alternatives = sample_mev_alternatives
    ChoiceSetsGeneration.process_row = process_row
