"""Closed-form reference models for C17 (specification helpers).

Nothing here imports biogeme. Every function is the formula *as documented*
(docstrings of biogeme.models.piecewise / boxcox, biogeme.distributions,
biogeme.loglikelihood, biogeme.segmentation, biogeme.nests), written with
numpy only. ``selftest()`` cross-checks each of them against an unrelated
second route (scipy.stats / scipy.special / np.interp) so that a slip in this
file shows up as *inconclusive*, never as a verdict on biogeme.
"""
from __future__ import annotations

import math

import numpy as np

SQRT_2PI = math.sqrt(2.0 * math.pi)
HALF_LOG_2PI = 0.5 * math.log(2.0 * math.pi)


# --------------------------------------------------------------------------
# piecewise linear
# --------------------------------------------------------------------------
def pw_variables(x, th):
    """documented variables: for each interval [a, a+b[ : max(0, min(t-a, b));
    first threshold None (-inf): min(t, t1); last None (+inf): max(0, t - a).
    K thresholds -> K-1 variables."""
    x = np.asarray(x, dtype=float)
    k = len(th)
    out = []
    for i in range(k - 1):
        a, nxt = th[i], th[i + 1]
        if a is None and nxt is None:
            out.append(x.copy())
        elif a is None:
            out.append(np.minimum(x, float(nxt)))
        elif nxt is None:
            out.append(np.maximum(0.0, x - float(a)))
        else:
            out.append(np.maximum(0.0, np.minimum(x - float(a), float(nxt) - float(a))))
    return out


def pw_clipped_distance(x, th):
    """sum of the variables: distance from the first threshold clipped to
    [0, t_last - t_first]; an open start removes the lower clip (and the
    origin is then 0, as min(t, t1) is not shifted), an open end the upper."""
    x = np.asarray(x, dtype=float)
    lo, hi = th[0], th[-1]
    if lo is None and hi is None:
        return x.copy()
    if lo is None:
        return np.minimum(x, float(hi))
    if hi is None:
        return np.maximum(0.0, x - float(lo))
    return np.clip(x - float(lo), 0.0, float(hi) - float(lo))


def pw_value(x, th, betas):
    """sum_i beta_i x_Ti"""
    vs = pw_variables(x, th)
    tot = np.zeros_like(np.asarray(x, dtype=float))
    for b, v in zip(betas, vs):
        tot = tot + float(b) * v
    return tot


def pw_as_variable_value(x, th, betas):
    """documented: x_T1 + sum_{i=2}^{K-1} beta_i x_Ti (K-2 betas)"""
    vs = pw_variables(x, th)
    tot = vs[0].copy()
    for b, v in zip(betas, vs[1:]):
        tot = tot + float(b) * v
    return tot


def pw_value_interp(x, th, betas):
    """second route (self-test only): the same function as a continuous
    broken line through knots, evaluated with np.interp + linear tails."""
    x = np.asarray(x, dtype=float)
    inner = [float(t) for t in th if t is not None]
    k = len(th)
    slopes = [float(b) for b in betas]
    # value at the first finite knot
    if th[0] is None:
        # first piece is beta_0 * min(t, t1): passes through (t1, beta_0 * t1)
        knots = inner
        v0 = slopes[0] * knots[0]
        seg_slopes = slopes[1:]
        left_slope = slopes[0]
    else:
        knots = inner
        v0 = 0.0
        seg_slopes = slopes
        left_slope = 0.0
    vals = [v0]
    closed_pairs = len(knots) - 1
    for j in range(closed_pairs):
        vals.append(vals[-1] + seg_slopes[j] * (knots[j + 1] - knots[j]))
    right_slope = seg_slopes[closed_pairs] if th[-1] is None else 0.0
    y = np.interp(x, knots, vals)
    y = np.where(x < knots[0], vals[0] + left_slope * (x - knots[0]), y)
    y = np.where(x > knots[-1], vals[-1] + right_slope * (x - knots[-1]), y)
    assert len(slopes) == k - 1
    return y


# --------------------------------------------------------------------------
# Box-Cox
# --------------------------------------------------------------------------
def boxcox(x, ell):
    """(x^l - 1)/l evaluated without cancellation (expm1, long double);
    l == 0 -> log x (the limit)."""
    x = np.asarray(x, dtype=np.longdouble)
    ell = np.asarray(ell, dtype=np.longdouble)
    x, ell = np.broadcast_arrays(x, ell)
    lx = np.log(x)
    out = np.empty(x.shape, dtype=np.longdouble)
    z = ell == 0
    out[z] = lx[z]
    nz = ~z
    out[nz] = np.expm1(ell[nz] * lx[nz]) / ell[nz]
    return out.astype(float)


# --------------------------------------------------------------------------
# densities / distribution functions
# --------------------------------------------------------------------------
def normal_pdf(x, mu, s):
    x = np.asarray(x, dtype=float)
    z = (x - mu) / s
    return np.exp(-0.5 * z * z) / (s * SQRT_2PI)


def normal_logpdf(y, m, s):
    y = np.asarray(y, dtype=float)
    z = (y - m) / s
    return -0.5 * z * z - np.log(s) - HALF_LOG_2PI


def lognormal_pdf(x, mu, s):
    x = np.asarray(x, dtype=float)
    out = np.zeros_like(x)
    p = x > 0
    xp = x[p]
    sp = s[p] if isinstance(s, np.ndarray) else s
    mp = mu[p] if isinstance(mu, np.ndarray) else mu
    z = (np.log(xp) - mp) / sp
    out[p] = np.exp(-0.5 * z * z) / (xp * sp * SQRT_2PI)
    return out


def uniform_pdf(x, a, b):
    x = np.asarray(x, dtype=float)
    return np.where((x >= a) & (x <= b), 1.0 / (b - a), 0.0)


def triangular_pdf(x, a, b, c):
    """documented piecewise form; the value at the mode is 2/(b-a) from both sides"""
    x = np.asarray(x, dtype=float)
    up = 2.0 * (x - a) / ((b - a) * (c - a))
    down = 2.0 * (b - x) / ((b - a) * (b - c))
    return np.where((x < a) | (x > b), 0.0, np.where(x < c, up, np.where(x == c, 2.0 / (b - a), down)))


def logistic_cdf(x, mu, s):
    x = np.asarray(x, dtype=float)
    t = (x - mu) / s
    with np.errstate(over='ignore'):
        return 1.0 / (1.0 + np.exp(-t))


def simpson(y, h):
    """composite Simpson, odd number of equally spaced points"""
    y = np.asarray(y, dtype=float)
    n = len(y)
    assert n % 2 == 1 and n >= 3
    return float(h / 3.0 * (y[0] + y[-1] + 4.0 * y[1:-1:2].sum() + 2.0 * y[2:-1:2].sum()))


# --------------------------------------------------------------------------
# segmentation
# --------------------------------------------------------------------------
def segmented_values(ref_value, segs, shift_values, rows):
    """segs: list of {'var', 'mapping': [[value, category], ...], 'reference': category};
    shift_values: {parameter name suffix category -> value} keyed by category;
    rows: list of {var: value}. Value in a row = reference value + for every
    segmenting variable the shift of the row's category (no shift for the
    reference category)."""
    out = []
    for row in rows:
        v = ref_value
        for s in segs:
            cat = None
            for val, c in s['mapping']:
                if row[s['var']] == val:
                    cat = c
            if cat is not None and cat != s['reference']:
                v += shift_values[cat]
        out.append(v)
    return np.array(out, dtype=float)


# --------------------------------------------------------------------------
# nested logit correlation
# --------------------------------------------------------------------------
def nested_correlation(choice_set, nests, mu=1.0):
    """nests: list of (mu_m, [alternatives]); returns {(i, j): corr}.
    1 on the diagonal, 1 - (mu/mu_m)^2 inside a nest, 0 elsewhere."""
    nest_of = {}
    for k, (mu_m, alts) in enumerate(nests):
        for a in alts:
            nest_of[a] = k
    out = {}
    for i in choice_set:
        for j in choice_set:
            if i == j:
                out[(i, j)] = 1.0
            elif i in nest_of and j in nest_of and nest_of[i] == nest_of[j]:
                mu_m = nests[nest_of[i]][0]
                out[(i, j)] = 1.0 - (mu * mu) / (mu_m * mu_m)
            else:
                out[(i, j)] = 0.0
    return out


# --------------------------------------------------------------------------
def selftest() -> list[str]:
    """second, unrelated route for every formula above"""
    import random

    import scipy.special as sp
    import scipy.stats as st

    bad = []

    def chk(name, a, b, rtol=1e-12, atol=1e-13):
        a = np.asarray(a, dtype=float)
        b = np.asarray(b, dtype=float)
        if a.shape != b.shape or not np.all(np.abs(a - b) <= atol + rtol * np.abs(b)):
            bad.append(f'c17 oracle self-test: {name} disagrees with its second route')

    rr = random.Random(4242)
    x = np.linspace(-12.0, 15.0, 541)
    for _ in range(60):
        k = rr.randint(2, 6)
        pts = sorted(rr.sample([round(-8 + 0.25 * j, 2) for j in range(80)], k))
        th = list(pts)
        if rr.random() < 0.3 and k >= 3:
            th[0] = None
        if rr.random() < 0.3 and k >= 3:
            th[-1] = None
        betas = [round(rr.uniform(-2, 2), 3) for _ in range(k - 1)]
        chk('piecewise value', pw_value(x, th, betas), pw_value_interp(x, th, betas), 1e-11, 1e-11)
        chk('piecewise sum', np.sum(pw_variables(x, th), axis=0), pw_clipped_distance(x, th), 1e-12, 1e-12)
    xs = np.array([1e-3, 0.2, 1.0, 3.0, 250.0, 1e4])
    for ell in [0.0, 1e-12, -1e-9, 3e-6, -9.9e-6, 1e-5, 2e-4, 0.1, -0.7, 1.0, 2.5]:
        chk(f'boxcox l={ell}', boxcox(xs, ell), sp.boxcox(xs, ell), 1e-12, 1e-14)
    for _ in range(40):
        mu = rr.uniform(-20, 20)
        s = 10 ** rr.uniform(-3, 3)
        g = mu + s * np.linspace(-30, 30, 121)
        chk('normal pdf', normal_pdf(g, mu, s), st.norm.pdf(g, mu, s), 1e-11, 1e-300)
        chk('normal logpdf', normal_logpdf(g, mu, s), st.norm.logpdf(g, mu, s), 1e-11, 1e-11)
        chk('logistic cdf', logistic_cdf(g, mu, s), st.logistic.cdf(g, mu, s), 1e-11, 1e-300)
        m2 = rr.uniform(-3, 3)
        s2 = 10 ** rr.uniform(-3, 0.4)
        g2 = np.concatenate([[-1.0, 0.0], np.exp(m2 + s2 * np.linspace(-10, 10, 81))])
        chk('lognormal pdf', lognormal_pdf(g2, m2, s2), st.lognorm.pdf(g2, s2, scale=math.exp(m2)), 1e-10, 1e-300)
        a = rr.uniform(-50, 50)
        w = 10 ** rr.uniform(-3, 3)
        b = a + w
        c = a + w * rr.uniform(0.05, 0.95)
        g3 = np.concatenate([np.linspace(a - w, b + w, 61), [a, b, c]])
        chk('uniform pdf', uniform_pdf(g3, a, b), st.uniform.pdf(g3, a, b - a), 1e-12, 0)
        chk('triangular pdf', triangular_pdf(g3, a, b, c), st.triang.pdf(g3, (c - a) / (b - a), a, b - a), 1e-9, 1e-12 / w)
    if abs(simpson(np.linspace(0, 2, 21) ** 3, 0.1) - 4.0) > 1e-12:
        bad.append('c17 oracle self-test: simpson')
    nc = nested_correlation([3, 1, 2, 4], [(2.0, [1, 2]), (1.25, [4])], 1.0)
    if nc[(1, 2)] != 0.75 or nc[(2, 1)] != 0.75 or nc[(3, 1)] != 0.0 or nc[(4, 4)] != 1.0 or nc[(4, 1)] != 0.0:
        bad.append('c17 oracle self-test: nested correlation')
    sv = segmented_values(1.0, [{'var': 'g', 'mapping': [[1, 'a'], [2, 'b']], 'reference': 'b'}], {'a': 0.5}, [{'g': 1}, {'g': 2}])
    if sv.tolist() != [1.5, 1.0]:
        bad.append('c17 oracle self-test: segmentation')
    return bad
