"""pytest plugin: the repository's own sampling tests as extra workload for the C19 contracts.

Loaded with ``-p biomon.oracle.c19_pytest_plugin``.  The recording wrappers of
biomon/oracle/c19_contracts.py are installed on
``SamplingOfAlternatives.sample_alternatives / sample_mev_alternatives`` and
``ChoiceSetsGeneration.process_row`` before any test imports biogeme; their
post-conditions only use the state of the receiving object, so they judge
whatever contexts the tests build.  The aggregated recorder is dumped as JSON to
``$C19_PLUGIN_OUT`` at session end.  Nothing is changed in results or exceptions.
"""
from __future__ import annotations

import json
import os

os.environ.setdefault('TQDM_DISABLE', '1')

from biomon import env  # noqa: F401,E402  (code under test first on sys.path)

_REC = None


def pytest_configure(config):
    global _REC
    from biomon.rec import Rec
    from biomon.oracle import c19_contracts

    _REC = Rec({'mode': 'repo-tests'})
    c19_contracts.install()


def pytest_runtest_teardown(item, nextitem):
    from biomon.oracle import c19_contracts as ct

    if _REC is None:
        return
    fired = set()
    for e in ct.LOG:
        if 'monitor_error' in e:
            _REC.inconc(f'contract on {e["fn"]} failed to evaluate in {item.nodeid}: {e["monitor_error"]}')
            continue
        if 'raised' in e:
            _REC.c('repo_tests_monitored_calls_that_raised')
            continue
        _REC.ev()
        _REC.c('repo_tests_contract_evaluations')
        _REC.c('repo_tests_contract_evaluations_' + e['fn'])
        for shape, msg in e.get('problems', []):
            mech = f'C19/repo-test-contract-{e["fn"]}-{shape}'
            if mech not in fired:
                fired.add(mech)
                _REC.violation(mech, f'{item.nodeid}: {msg}', {'test': item.nodeid, 'event': {k: v for k, v in e.items() if k != 'frame'}})
    if ct.LOG:
        _REC.key(item.nodeid)
    ct.reset()


def pytest_sessionfinish(session, exitstatus):
    out = os.environ.get('C19_PLUGIN_OUT')
    if _REC is not None and out:
        o = _REC.out()
        o['pytest_exitstatus'] = int(exitstatus)
        with open(out, 'w') as f:
            json.dump(o, f, default=repr)
