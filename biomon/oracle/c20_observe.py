"""C20 monitors: run-time discovery of deprecated names and boundary observation
of ONE call (result / exception / warnings / receiver state / argument state /
files / RNG / stdout / log records / how often which function body ran).

Every observed call runs in its own forked child: the parent's memory (receiver,
arguments, RNG, engine state) is the common snapshot both the old and the new
name start from, so object identities embedded in results (expression ids in
signatures) are equal by construction and nothing has to be restored.
"""
from __future__ import annotations

import ast
import hashlib
import importlib
import inspect
import io
import logging
import os
import pkgutil
import random
import re
import sys
import warnings

from .. import env  # noqa: F401
from . import c20_compare as cmp

HERE = os.path.abspath(__file__)


# ---------------------------------------------------------------------------
# discovery
# ---------------------------------------------------------------------------

def _raw(a):
    return a.__func__ if isinstance(a, (staticmethod, classmethod)) else a


def is_alias(f) -> bool:
    return inspect.isfunction(f) and bool(getattr(f, '__deprecated__', False)) and hasattr(f, '__newname__')


def dp_mapping(f):
    """obsolete-keyword map of a keyword-renaming wrapper, else None (read from the closure)"""
    c = getattr(f, '__code__', None)
    if c is None or 'obsolete_params' not in c.co_freevars or f.__closure__ is None:
        return None
    cells = dict(zip(c.co_freevars, f.__closure__))
    try:
        m = cells['obsolete_params'].cell_contents
    except ValueError:
        return None
    return dict(m) if isinstance(m, dict) else None


def all_modules():
    import biogeme

    mods, failed = [], []
    for m in pkgutil.walk_packages(biogeme.__path__, 'biogeme.'):
        try:
            with warnings.catch_warnings():
                warnings.simplefilter('ignore')
                mods.append(importlib.import_module(m.name))
        except BaseException as e:  # noqa
            failed.append(f'{m.name}: {type(e).__name__}')
    return mods, failed


def all_subclasses(c):
    out, st = [], [c]
    while st:
        x = st.pop()
        for s in type.__subclasses__(x):
            if not any(s is o for o in out):
                out.append(s)
                st.append(s)
    return out


def qual(c) -> str:
    return f'{c.__module__}.{c.__qualname__}'


_DISC = None


def discover():
    """-> dict(aliases=[...], params=[...], import_failures=[...])

    alias record : kind 'function'|'method', module, owner (class qualname or None), name, declared (``__newname__``),
                   receivers (qualnames of the classes that inherit this very wrapper), nparams
    param record : kind, module, owner, name, mapping {old: new|None}, receivers
    """
    global _DISC
    if _DISC is not None:
        return _DISC
    mods, failed = all_modules()
    aliases, params = [], []
    seen = set()
    for mod in mods:
        for n, o in list(vars(mod).items()):
            if inspect.isfunction(o) and o.__module__ == mod.__name__ and id(o) not in seen:
                if is_alias(o):
                    seen.add(id(o))
                    aliases.append({'kind': 'function', 'module': mod.__name__, 'owner': None, 'name': n,
                                    'declared': o.__newname__, 'receivers': [None]})
                m = dp_mapping(o)
                if m is not None and (id(o), 'p') not in seen:
                    seen.add((id(o), 'p'))
                    params.append({'kind': 'function', 'module': mod.__name__, 'owner': None, 'name': n,
                                   'mapping': m, 'receivers': [None]})
            if inspect.isclass(o) and o.__module__ == mod.__name__ and id(o) not in seen:
                seen.add(id(o))
                subs = None
                for an, a in list(vars(o).items()):
                    f = _raw(a)
                    if not inspect.isfunction(f):
                        continue
                    if subs is None and (is_alias(f) or dp_mapping(f) is not None):
                        subs = [o] + all_subclasses(o)
                    if is_alias(f):
                        recv = [qual(s) for s in subs if _raw(inspect.getattr_static(s, an, None)) is f]
                        aliases.append({'kind': 'method', 'module': mod.__name__, 'owner': qual(o), 'name': an,
                                        'declared': f.__newname__, 'receivers': recv})
                    m = dp_mapping(f)
                    if m is not None:
                        recv = [qual(s) for s in subs if _raw(inspect.getattr_static(s, an, None)) is f]
                        params.append({'kind': 'method', 'module': mod.__name__, 'owner': qual(o), 'name': an,
                                       'mapping': m, 'receivers': recv})
    aliases.sort(key=lambda r: (r['module'], r['owner'] or '', r['name']))
    params.sort(key=lambda r: (r['module'], r['owner'] or '', r['name']))
    _DISC = {'aliases': aliases, 'params': params, 'import_failures': failed}
    return _DISC


def static_scan():
    """Independent second route: decorators written in the source files (ast), so that an
    alias the run-time discovery cannot see is reported instead of silently skipped."""
    import biogeme

    root = os.path.dirname(biogeme.__file__)
    al, pa = set(), set()
    for dp, _, files in os.walk(root):
        for fn in files:
            if not fn.endswith('.py'):
                continue
            path = os.path.join(dp, fn)
            try:
                tree = ast.parse(open(path, encoding='utf-8').read())
            except SyntaxError:
                continue
            rel = os.path.relpath(path, os.path.dirname(root))[:-3].replace(os.sep, '.')
            if rel.endswith('.__init__'):
                rel = rel[: -len('.__init__')]

            def visit(body, owner):
                for node in body:
                    if isinstance(node, ast.ClassDef):
                        visit(node.body, (owner + '.' if owner else '') + node.name)
                    elif isinstance(node, (ast.FunctionDef, ast.AsyncFunctionDef)):
                        for d in node.decorator_list:
                            f = d.func if isinstance(d, ast.Call) else d
                            nm = f.id if isinstance(f, ast.Name) else (f.attr if isinstance(f, ast.Attribute) else None)
                            if nm == 'deprecated':
                                al.add((rel, owner, node.name))
                            elif nm == 'deprecated_parameters':
                                pa.add((rel, owner, node.name))

            visit(tree.body, '')
    return al, pa


_FWD = None


def forwarders():
    """Functions of the package that hand their ``**kwargs`` on to a function decorated with the keyword-renaming wrapper
    (directly or through another such function): an obsolete keyword given to them reaches the wrapper together with
    whatever the forwarding call spells out itself. Found by an ast scan of the package sources; the callee is resolved on
    the imported objects (``self.f`` / ``cls.f`` on the class of the caller, a bare name in the module globals, a class
    name -> its ``__init__``).

    -> [dict(via_module, via_owner, via_name, module, owner, name, mapping, explicit=[keywords the call spells out])]"""
    global _FWD
    if _FWD is not None:
        return _FWD
    import biogeme

    root = os.path.dirname(biogeme.__file__)
    found = []  # (module name, class name or None, function name, callee ast, explicit keywords)
    for dp, _, files in os.walk(root):
        for fn in sorted(files):
            if not fn.endswith('.py'):
                continue
            path = os.path.join(dp, fn)
            try:
                tree = ast.parse(open(path, encoding='utf-8').read())
            except SyntaxError:
                continue
            rel = os.path.relpath(path, os.path.dirname(root))[:-3].replace(os.sep, '.')
            if rel.endswith('.__init__'):
                rel = rel[: -len('.__init__')]

            def visit(body, cls):
                for node in body:
                    if isinstance(node, ast.ClassDef):
                        visit(node.body, node.name if cls is None else cls + '.' + node.name)
                    elif isinstance(node, (ast.FunctionDef, ast.AsyncFunctionDef)) and node.args.kwarg is not None:
                        kw = node.args.kwarg.arg
                        for c in ast.walk(node):
                            if isinstance(c, ast.Call) and any(k.arg is None and isinstance(k.value, ast.Name) and k.value.id == kw for k in c.keywords):
                                found.append((rel, cls, node.name, c.func, [k.arg for k in c.keywords if k.arg]))

            visit(tree.body, None)

    def target_of(modname, clsname, callee):
        """-> (owner class or None, module, function name, raw function) of the callee, or None"""
        try:
            mod = importlib.import_module(modname)
        except BaseException:  # noqa
            return None
        cls = None
        if clsname:
            cls = mod
            for part in clsname.split('.'):
                cls = getattr(cls, part, None)
            if not inspect.isclass(cls):
                return None
        if isinstance(callee, ast.Attribute) and isinstance(callee.value, ast.Name) and callee.value.id in ('self', 'cls') and cls is not None:
            for k in cls.__mro__:
                if callee.attr in k.__dict__:
                    return k, importlib.import_module(k.__module__), callee.attr, _raw(k.__dict__[callee.attr])
            return None
        if isinstance(callee, ast.Name):
            obj = getattr(mod, callee.id, None)
            if inspect.isclass(obj):
                for k in obj.__mro__:
                    if '__init__' in k.__dict__:
                        return k, importlib.import_module(k.__module__), '__init__', _raw(k.__dict__['__init__'])
                return None
            if inspect.isfunction(obj):
                return None, importlib.import_module(obj.__module__), obj.__name__, obj
        return None

    out = []
    known = {}  # id(raw function) -> (owner qual, module, name, mapping) of the wrapper finally reached
    changed = True
    done = set()
    while changed:
        changed = False
        for i, (modname, clsname, fname, callee, explicit) in enumerate(found):
            if i in done:
                continue
            t = target_of(modname, clsname, callee)
            if t is None:
                continue
            owner, tmod, tname, raw = t
            m = dp_mapping(raw)
            if m is not None:
                reach = (qual(owner) if owner else None, tmod.__name__, tname, m)
            elif id(raw) in known:
                reach = known[id(raw)]
            else:
                continue
            done.add(i)
            changed = True
            mod = importlib.import_module(modname)
            via_cls = None
            if clsname:
                via_cls = mod
                for part in clsname.split('.'):
                    via_cls = getattr(via_cls, part)
            via_raw = _raw((via_cls.__dict__ if via_cls else vars(mod)).get(fname))
            if via_raw is not None:
                known[id(via_raw)] = reach
            out.append({'via_module': modname, 'via_owner': qual(via_cls) if via_cls else None, 'via_name': fname,
                        'owner': reach[0], 'module': reach[1], 'name': reach[2], 'mapping': dict(reach[3]), 'explicit': explicit})
    uniq = {}
    for r in out:  # several call sites of one caller to the same function count once
        k = (r['via_module'], r['via_owner'], r['via_name'], r['owner'], r['module'], r['name'])
        if k in uniq:
            uniq[k]['explicit'] = sorted(set(uniq[k]['explicit']) | set(r['explicit']))
        else:
            uniq[k] = r
    out = sorted(uniq.values(), key=lambda r: (r['via_module'], r['via_owner'] or '', r['via_name']))
    _FWD = out
    return out


_ATTR = None
_USE = re.compile(r"Use\s+(?P<new>\w+)\s+instead\s+of\s+(?P<old>\w+)")


def old_attributes():
    """Hand-written old ATTRIBUTES: properties of the package's classes that announce themselves as obsolete (their getter /
    setter source logs or warns 'Obsolete ...' / mentions deprecation / backward compatibility) or whose name is the
    differently spelled twin (same letters once '_' and case are dropped) of another attribute of the class while carrying
    upper-case letters itself. -> [dict(owner, module, name, declared (replacement named in the message, or None), setter)]"""
    global _ATTR
    if _ATTR is not None:
        return _ATTR
    mods, _ = all_modules()
    out, seen = [], set()
    for mod in mods:
        for _, o in list(vars(mod).items()):
            if not (inspect.isclass(o) and o.__module__ == mod.__name__) or id(o) in seen:
                continue
            seen.add(id(o))
            for k, v in list(vars(o).items()):
                if not isinstance(v, property) or k.startswith('_'):
                    continue
                src = ''
                for f in (v.fget, v.fset):
                    if f is not None:
                        try:
                            src += inspect.getsource(f)
                        except (OSError, TypeError):
                            pass
                announced = bool(re.search(r'obsolete|deprecat|backward compatib', src, re.I))
                twins = [a for a in dir(o) if a != k and cmp.norm_name(a) == cmp.norm_name(k)]
                if not announced and not (twins and k != k.lower()):
                    continue
                m = [x for x in _USE.finditer(src) if x.group('old') == k]
                declared = m[0].group('new') if m else (twins[0] if len(twins) == 1 else None)
                out.append({'owner': qual(o), 'module': mod.__name__, 'name': k, 'declared': declared, 'setter': v.fset is not None})
    out.sort(key=lambda r: (r['owner'], r['name']))
    _ATTR = out
    return out


def resolve_class(q: str):
    mod, _, name = q.rpartition('.')
    m = importlib.import_module(mod)
    return getattr(m, name)


def public_functions(namespace, kind):
    """names of the public, non-deprecated functions of a module / methods of a class"""
    out = []
    if kind == 'function':
        for n, o in vars(namespace).items():
            if n.startswith('_') or not inspect.isfunction(o) or is_alias(o):
                continue
            if o.__module__ != namespace.__name__:
                continue
            out.append(n)
    else:
        for n in dir(namespace):
            if n.startswith('_'):
                continue
            o = _raw(inspect.getattr_static(namespace, n, None))
            if inspect.isfunction(o) and not is_alias(o):
                out.append(n)
    return sorted(out)


def innermost_code(f):
    """code object of the user-visible body behind decorators (functools.wraps chain)"""
    f = _raw(f)
    k = 0
    while hasattr(f, '__wrapped__') and k < 10:
        f = _raw(f.__wrapped__)
        k += 1
    return getattr(f, '__code__', None)


# ---------------------------------------------------------------------------
# clock
# ---------------------------------------------------------------------------

def freeze_clock():
    """The wall clock is an environmental input like the RNG seed: both calls see the same instant."""
    import datetime as real

    fixed = real.datetime(2024, 6, 17, 20, 50, 19)

    class FrozenDateTime(real.datetime):
        @classmethod
        def now(cls, tz=None):
            return fixed

        @classmethod
        def today(cls):
            return fixed

    class FrozenDate(real.date):
        @classmethod
        def today(cls):
            return fixed.date()

    class Shim:
        datetime = FrozenDateTime
        date = FrozenDate
        timedelta = real.timedelta
        time = real.time
        timezone = real.timezone

    for name, mod in list(sys.modules.items()):
        if not name.startswith('biogeme') or mod is None:
            continue
        d = getattr(mod, 'datetime', None)
        if d is real:
            mod.datetime = Shim
        elif d is real.datetime:
            mod.datetime = FrozenDateTime


# ---------------------------------------------------------------------------
# one observed call
# ---------------------------------------------------------------------------

_MSG_NEW = re.compile(r"^(?P<old>\S+) is deprecated; use (?P<new>\S+) instead\.$")
_MSG_PAR = re.compile(r"^Parameter '(?P<old>[^']+)' is deprecated; use '(?P<new>[^'=]+)=", re.S)
_MSG_IGN = re.compile(r"^Parameter '(?P<old>[^']+)' is deprecated and is ignored\.")


def parse_alias_warning(msg: str):
    m = _MSG_NEW.match(msg.strip())
    return (m.group('old'), m.group('new')) if m else None


def parse_param_warning(msg: str):
    m = _MSG_PAR.match(msg.strip())
    if m:
        return m.group('old'), m.group('new')
    m = _MSG_IGN.match(msg.strip())
    if m:
        return m.group('old'), None
    return None


class _LogTap(logging.Handler):
    def __init__(self):
        super().__init__(level=logging.INFO)
        self.records = []

    def emit(self, record):
        if len(self.records) < 300:
            try:
                self.records.append([record.levelname, cmp.scrub(record.getMessage())[:400]])
            except Exception:  # noqa
                self.records.append([record.levelname, '<unformattable>'])


def _files(root):
    out = {}
    for dp, _, fs in os.walk(root):
        for fn in fs:
            p = os.path.join(dp, fn)
            try:
                b = open(p, 'rb').read()
            except OSError:
                continue
            if fn.endswith('.pickle'):
                # compare what the file reads back as (the byte image also carries memo order)
                try:
                    import json
                    import pickle

                    with warnings.catch_warnings():
                        warnings.simplefilter('ignore')
                        obj = pickle.loads(b)
                    dig = hashlib.sha1(json.dumps(cmp.normalise(obj), sort_keys=True, default=repr).encode()).hexdigest()[:16]
                except BaseException as e:  # noqa
                    dig = 'unreadable-' + type(e).__name__
                out[os.path.relpath(p, root)] = [dig, 0]
                continue
            try:
                txt = cmp.scrub(b.decode('utf-8'))
                dig = hashlib.sha1(txt.encode()).hexdigest()[:16]
            except UnicodeDecodeError:
                dig = hashlib.sha1(b).hexdigest()[:16]
            out[os.path.relpath(p, root)] = [dig, len(b)]
    return out


def engine_norm(msg: str) -> str:
    """Messages of the C++ engine name whichever row a worker thread reached first: keep the
    chain of source locations (what failed), drop the row-dependent text."""
    if 'Biogeme exception' in msg:
        return 'engine: ' + ' <- '.join(re.findall(r'[\w/]+\.cc:\d+', msg))
    return msg


def _no_progress_bars(txt: str) -> str:
    """progress bars (tqdm) redraw at wall-clock intervals and print rates: not part of the comparison"""
    keep = [seg for seg in re.split(r'[\r\n]', txt) if '%|' not in seg and 'it/s' not in seg and 's/it' not in seg]
    return '\n'.join(x for x in keep if x.strip())


class scratch:
    """Directory the observed calls run in: the worker's private scratch dir, or (self-test in the main process,
    --replay) a temporary directory under /tmp that is removed afterwards. Never the current directory."""

    def __enter__(self):
        import tempfile

        self.made = None
        if not os.environ.get('BIOMON_WORKDIR'):
            self.made = tempfile.mkdtemp(prefix='c20_obs_', dir='/tmp')
            os.environ['BIOMON_WORKDIR'] = self.made
        return os.environ['BIOMON_WORKDIR']

    def __exit__(self, *a):
        import shutil

        if self.made:
            os.environ.pop('BIOMON_WORKDIR', None)
            shutil.rmtree(self.made, ignore_errors=True)
        return False


def observe(call, subdir: str, watch_codes=(), timeout=100.0):
    """Run ``call`` = dict(fn=callable, args, kwargs, post=callable|None, state=[objects whose state is part of the
    side effects]) in a forked child and return what the monitors saw (JSON)."""
    from ..worker import run_forked

    def child(_):
        import numpy as np

        base = os.environ['BIOMON_WORKDIR']  # set by the worker or by the ``scratch`` context
        d = os.path.join(base, subdir)
        import shutil

        shutil.rmtree(d, ignore_errors=True)  # a worker runs many cases in one scratch dir: nothing left from an earlier one
        os.makedirs(d, exist_ok=True)
        os.chdir(d)
        for fn in call.get('files', {}) or {}:
            with open(os.path.join(d, fn), 'wb') as f:
                f.write(call['files'][fn])
        before = set(_files(d))
        np.random.seed(20240617)
        random.seed(20240617)
        freeze_clock()
        out = {}
        counts = {}
        codes = [c for c in watch_codes if c is not None]
        mon = getattr(sys, 'monitoring', None)
        tool = 4
        if mon is not None and codes:
            try:
                mon.use_tool_id(tool, 'c20')
            except ValueError:
                pass

            def on_start(code, offset):
                counts[id(code)] = counts.get(id(code), 0) + 1

            mon.register_callback(tool, mon.events.PY_START, on_start)
            for c in codes:
                mon.set_local_events(tool, c, mon.events.PY_START)
        tap = _LogTap()
        lg = logging.getLogger('biogeme')
        old_level = lg.level
        lg.addHandler(tap)
        lg.setLevel(logging.INFO)
        so, se = sys.stdout, sys.stderr
        sys.stdout, sys.stderr = io.StringIO(), io.StringIO()
        res = None
        try:
            with warnings.catch_warnings(record=True) as w:
                warnings.simplefilter('always')
                try:
                    res = call['fn'](*call.get('args', ()), **call.get('kwargs', {}))
                    out['returned'] = True
                except BaseException as e:  # noqa
                    out['returned'] = False
                    out['exc'] = [type(e).__name__, engine_norm(cmp.scrub(str(e)))[:600]]
            out['warnings'] = [[x.category.__name__, str(x.message)[:600], os.path.abspath(x.filename) if x.filename else ''] for x in w]
        finally:
            out['stdout'] = _no_progress_bars(cmp.scrub(sys.stdout.getvalue()))[:4000]
            out['stderr'] = _no_progress_bars(cmp.scrub(sys.stderr.getvalue()))[:4000]
            sys.stdout, sys.stderr = so, se
            lg.removeHandler(tap)
            lg.setLevel(old_level)
            if mon is not None and codes:
                for c in codes:
                    mon.set_local_events(tool, c, 0)
                mon.register_callback(tool, mon.events.PY_START, None)
        out['calls'] = [counts.get(id(c), 0) for c in codes]
        out['rng'] = hashlib.sha1(repr(np.random.get_state()[1].tolist()).encode() + repr(np.random.get_state()[2:]).encode()
                                  + repr(random.getstate()).encode()).hexdigest()[:16]
        out['log'] = tap.records
        # state of the receiver / of the arguments after the call (before post-processing touches anything)
        try:
            out['state'] = cmp.normalise(call.get('state', []))
        except BaseException as e:  # noqa
            out['state'] = {'~unnormalisable': type(e).__name__}
        out['files'] = {k: v for k, v in _files(d).items()}
        out['files_new'] = sorted(set(out['files']) - before)
        if out['returned']:
            try:
                out['result'] = cmp.normalise(res)
            except BaseException as e:  # noqa
                out['result'] = {'~unnormalisable': type(e).__name__}
            post = call.get('post')
            if post is not None:
                # a deeper look at the returned object (e.g. evaluate the returned formula / call the returned function)
                try:
                    with warnings.catch_warnings():
                        warnings.simplefilter('ignore')
                        out['post'] = cmp.normalise(post(res))
                except BaseException as e:  # noqa
                    out['post'] = {'~post-raised': type(e).__name__, 'msg': engine_norm(cmp.scrub(str(e)))[:300]}
        return out

    r = run_forked(child, None, timeout)
    if r.get('timeout'):
        # watchdog, not a verdict: one more attempt (the machine is shared)
        r = run_forked(child, None, timeout)
        r['retried_after_watchdog'] = 1
    tries = 1
    while 'crash_signal' in r and tries < 3:
        # the external engine occasionally dies (SIGSEGV) on its own error paths when several of its worker threads
        # throw at once; that is not an observation of either spelling: run the same snapshot again
        r = run_forked(child, None, timeout)
        tries += 1
    if tries > 1:
        r['retries_after_native_crash'] = tries - 1
    return r


# ---------------------------------------------------------------------------
# comparison of two observations
# ---------------------------------------------------------------------------

def compare(old, new, ignore_state_paths=()):
    """-> list of (kind, detail). kinds are structural names used in mech strings."""
    out = []
    if old.get('returned') and not new.get('returned'):
        out.append(('old-returns-replacement-raises', f'replacement raised {new.get("exc")}'))
    elif not old.get('returned') and new.get('returned'):
        out.append(('old-raises-replacement-returns', f'old name raised {old.get("exc")}'))
    elif not old.get('returned'):
        eo, en = old.get('exc'), new.get('exc')
        if eo[0] != en[0]:
            out.append(('exception-type-differs', f'old {eo} vs replacement {en}'))
        elif eo[1] != en[1]:
            out.append(('exception-message-differs', f'old {eo} vs replacement {en}'))
    else:
        d = cmp.diff(old.get('result'), new.get('result'))
        if d:
            dp = cmp.diff(old.get('post'), new.get('post'))
            out.append(('result-differs', '; '.join(d[:4]) + (' || after post-processing: ' + '; '.join(dp[:3]) if dp else '')))
        else:
            d = cmp.diff(old.get('post'), new.get('post'))
            if d:
                out.append(('result-differs', 'after post-processing: ' + '; '.join(d[:4])))
    d = cmp.diff(old.get('state'), new.get('state'))
    if d:
        out.append(('state-after-call-differs', '; '.join(d[:4])))
    if old.get('files') != new.get('files'):
        fo, fn = old.get('files', {}), new.get('files', {})
        det = [f'{k}: {fo.get(k)} vs {fn.get(k)}' for k in sorted(set(fo) | set(fn)) if fo.get(k) != fn.get(k)]
        out.append(('files-differ', '; '.join(det[:4])))
    if old.get('rng') != new.get('rng'):
        out.append(('rng-consumption-differs', 'state of the random generators after the call differs'))
    if old.get('stdout') != new.get('stdout') or old.get('stderr') != new.get('stderr'):
        out.append(('printed-output-differs', f'{old.get("stdout", "")[:120]!r} vs {new.get("stdout", "")[:120]!r}'))
    if old.get('log') != new.get('log'):
        lo, ln = old.get('log', []), new.get('log', [])
        k = next((i for i, (a, b) in enumerate(zip(lo, ln)) if a != b), min(len(lo), len(ln)))
        out.append(('log-records-differ', f'{len(lo)} vs {len(ln)} records; first difference at {k}: '
                                          f'{lo[k] if k < len(lo) else None} vs {ln[k] if k < len(ln) else None}'))
    return out


def extra_warnings(old, new):
    """warnings of the old call that the replacement call did not emit (multiset difference)"""
    rest = [w[:2] for w in new.get('warnings', [])]
    extra = []
    for w in old.get('warnings', []):
        if w[:2] in rest:
            rest.remove(w[:2])
        else:
            extra.append(w)
    return extra, rest
