"""C18 monitor — post-condition on the real `Mdcev.forecast_bisection_one_draw`.

Attached from the harness with icontract.  Every call of the real method
(direct, or made internally by `Mdcev.forecast`) is observed at its boundary:
(observation row, budget, error draw, tolerances) -> returned consumptions.
The post-condition judges the returned consumptions against the consumer
problem written independently in c18_kkt (numbers from the generator's
specification, registered per model object by the harness) and appends one
record per call to LOG; it never raises and never mutates.
"""
from __future__ import annotations

import math

import numpy as np

from . import c18_kkt as K

LOG: list[dict] = []
CONTEXT: dict[int, dict] = {}  # id(model) -> {'spec':..., 'tag':...}
COUNT = {'post_evaluated': 0}
_INSTALLED = False

NEG_TOL = 1e-12  # consumption below -NEG_TOL*max(budget,1) is negative
BUDGET_RTOL = 1e-6
MU_RTOL = 1e-5
X_RTOL = 1e-6


def register(model, spec, tag):
    CONTEXT[id(model)] = {'spec': spec, 'tag': tag}


def reset():
    LOG.clear()


def judge(spec, rowvals, budget, eps_by_label, got, tol_dual, tol_budget):
    """All conditions of the statement on one forecast.  Returns
    (problems [(monitor, message)], measures dict).  `got` maps label -> consumption."""
    problems = []
    labels = spec['labels']
    data1 = {c: [rowvals[c]] for c in rowvals}
    goods = K.goods_of(dict(spec, data=data1), 0, eps_by_label)
    meas = {}
    # shape
    if set(got.keys()) != set(labels):
        problems.append(('forecast-keys-differ-from-labels', f'returned keys {sorted(got)} for alternatives {sorted(labels)}'))
        return problems, meas
    x = {l: float(got[l]) for l in labels}
    if any(math.isnan(v) or math.isinf(v) for v in x.values()):
        problems.append(('forecast-not-finite', f'consumptions {x}'))
        return problems, meas
    scaleB = max(budget, 1.0)
    neg = {l: v for l, v in x.items() if v < -NEG_TOL * scaleB}
    if neg:
        problems.append(('forecast-negative-consumption', f'negative consumptions {neg} (budget {budget})'))
    xc = {l: max(v, 0.0) for l, v in x.items()}
    tot = sum(x.values())
    meas['budget_relerr'] = abs(tot - budget) / budget
    # reference optimum (independent solver)
    try:
        ref, lam_ref = K.solve(goods, budget)
    except ArithmeticError as e:  # oracle cannot decide -> no verdict from comparisons with it
        ref, lam_ref = None, None
        meas['oracle_failed'] = str(e)
    # budget: judged at 1e-6 relative unless the caller's own convergence criteria do not ask for it
    # The method stops as soon as ONE of the caller's two convergence criteria is met (bracket on the multiplier
    # narrower than tol_dual, or |sum - budget| <= tol_budget), so what the call itself promises is
    # |sum - budget| <~ max(slope * tol_dual, tol_budget), slope = |d demand / d multiplier| (finite differences on the
    # oracle).  Where that promise is looser than 1e-6 (tiny multiplier under an absolute tolerance) it is the bound.
    allowed = BUDGET_RTOL * budget
    if ref is not None:
        slope = 0.0
        dl = 1e-6 * max(abs(lam_ref - max(g.floor() for g in goods.values())), 1e-300)
        for l, g in goods.items():
            if ref[l] > 0:
                a, b = g.inv(lam_ref - dl), g.inv(lam_ref + dl)
                if math.isfinite(a) and math.isfinite(b):
                    slope += abs(a - b) / (2 * dl)
        meas['demand_slope'] = slope
        allowed = max(allowed, 10.0 * max(slope * tol_dual, tol_budget))
    judged_budget = allowed == BUDGET_RTOL * budget
    meas['budget_judged_at_1e-6'] = judged_budget
    if abs(tot - budget) > allowed:
        problems.append(('forecast-budget-not-exhausted',
                         f'sum of consumptions {tot!r} for budget {budget!r} (relative {meas["budget_relerr"]:.3g}, allowed {allowed / budget:.3g})'))
    # outside good consumed
    out = spec['outside']
    if out is not None and not x[out] > 0:
        problems.append(('forecast-outside-good-not-consumed', f'outside good {out} gets {x[out]!r}'))
    # marginal utilities: equal over consumed goods, not larger at zero for the others
    cons = [l for l in labels if xc[l] > 0]
    if cons:
        with np.errstate(all='ignore'):
            mus = {l: goods[l].dU(xc[l]) for l in cons}
        sc = K.mu_scale(goods, xc)
        vals = sorted(mus.values())
        lam_hat = vals[len(vals) // 2]
        meas['lam_hat'] = lam_hat
        spread = vals[-1] - vals[0]
        meas['mu_spread_rel'] = spread / sc if sc > 0 else 0.0
        if not spread <= MU_RTOL * sc:
            problems.append(('forecast-marginal-utilities-of-consumed-goods-differ',
                             f'marginal utilities at the forecast {mus} (spread {spread:.3g}, scale {sc:.3g})'))
        else:
            worse = {l: goods[l].w0() for l in labels if xc[l] == 0 and l != out and goods[l].w0() > lam_hat + MU_RTOL * sc}
            if worse:
                problems.append(('forecast-unconsumed-good-has-higher-marginal-utility-at-zero',
                                 f'marginal utility at zero {worse} exceeds the common level {lam_hat!r} of the consumed goods {cons}'))
    elif budget > 0:
        problems.append(('forecast-nothing-consumed', f'no good consumed for budget {budget}'))
    # distance to the unique optimum / objective
    if ref is not None:
        err = max(abs(xc[l] - ref[l]) for l in labels)
        meas['x_relerr'] = err / budget
        allow = X_RTOL * budget + 2.0 * abs(tot - budget)
        if err > allow and not neg:
            problems.append(('forecast-differs-from-reference-optimum',
                             f'forecast {x} reference optimum {ref} (max abs diff {err:.3g}, budget {budget})'))
        if not neg and abs(tot - budget) <= BUDGET_RTOL * budget:
            u_got = K.total_utility(goods, xc) if (out is None or xc[out] > 0) else -math.inf
            u_ref = K.total_utility(goods, ref)
            meas['u_got'], meas['u_ref'] = u_got, u_ref
            if not u_got >= u_ref - abs(lam_ref) * abs(tot - budget) * 2 - 1e-6 * (1 + abs(u_ref)):
                problems.append(('forecast-worse-than-reference-optimum', f'utility {u_got!r} of the forecast < {u_ref!r} of the reference optimum'))
        meas['ref'] = ref
        meas['lam_ref'] = lam_ref
    meas['goods'] = goods
    meas['x'] = x
    return problems, meas


def _post(self, one_row_of_database, total_budget, epsilon, tolerance_dual, tolerance_budget, result):
    COUNT['post_evaluated'] += 1
    ctx = CONTEXT.get(id(self))
    entry = {'model': id(self), 'tag': ctx['tag'] if ctx else None, 'budget': float(total_budget),
             'eps': [float(e) for e in np.asarray(epsilon, dtype=float)], 'tol_dual': float(tolerance_dual),
             'tol_budget': float(tolerance_budget),
             'result': {int(k): float(v) for k, v in result.items()} if isinstance(result, dict) else repr(result)}
    try:
        row = one_row_of_database.data
        entry['rowvals'] = {c: float(row[c].iloc[0]) for c in row.columns}
        entry['nrows'] = int(len(row))
        if ctx is not None and isinstance(result, dict):
            spec = ctx['spec']
            itk = list(self.index_to_key)
            eps_by_label = {str(itk[j]): entry['eps'][j] for j in range(len(itk))}
            entry['eps_by_label'] = eps_by_label
            problems, meas = judge(spec, {c: entry['rowvals'][c] for c in spec['data']}, float(total_budget), eps_by_label,
                                   entry['result'], float(tolerance_dual), float(tolerance_budget))
            entry['problems'] = problems
            entry['meas'] = {k: v for k, v in meas.items() if k not in ('goods',)}
    except BaseException as e:  # a broken monitor is not a verdict
        import traceback

        entry['monitor_error'] = f'{type(e).__name__}: {e} {traceback.format_exc()[-800:]}'
    LOG.append(entry)
    return True


def install():
    """wrap the method of the Mdcev class importable right now (BIOGEME_SRC aware)"""
    global _INSTALLED
    if _INSTALLED:
        return
    import icontract
    import biogeme.mdcev.mdcev as mm

    f = mm.Mdcev.forecast_bisection_one_draw
    mm.Mdcev.forecast_bisection_one_draw = icontract.ensure(_post)(f)
    _INSTALLED = True
