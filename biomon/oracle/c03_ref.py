"""C03 reference: log likelihood, derivatives and statistics *by parameter name*.

Built on the framework's independent numpy evaluator (biomon.oracle.evalast,
which never touches biogeme objects); everything is keyed by name, positions
only exist inside this module. A closed-form multinomial-logit routine that
does not use evalast guards the oracle itself (selftest of the check).
"""
from __future__ import annotations

import numpy as np

from . import evalast


def rows(ast, data, values):
    """per-row value of a formula with the parameters given by name"""
    v, _ = evalast.evaluate(ast, data, values, [])
    return np.asarray(v, dtype=float)


def weights(model):
    if model.get('weight'):
        return np.asarray(model['data'][model['weight']], dtype=float)
    return None


def loglike(ast, model, values):
    v = rows(ast, model['data'], values)
    w = weights(model)
    return float(np.sum(v if w is None else v * w))


def grad_rows(ast, model, values, names):
    """(K, N) derivatives of the per-row value w.r.t. values[name], complex step"""
    if not names:
        return np.zeros((0, len(next(iter(model['data'].values())))))
    return np.asarray(evalast.gradient(ast, model['data'], values, list(names), []), dtype=float)


def derivatives(ast, model, values, names, hessian=True):
    """dicts keyed by name: gradient {n: g}, hessian {(n, m): h}, bhhh {(n, m): b}"""
    names = list(names)
    g = grad_rows(ast, model, values, names)
    w = weights(model)
    ww = np.ones(g.shape[1]) if w is None else w
    G = (g * ww).sum(axis=1)
    B = (g * ww) @ g.T
    out = {'gradient': {n: float(G[i]) for i, n in enumerate(names)},
           'bhhh': {(n, m): float(B[i, j]) for i, n in enumerate(names) for j, m in enumerate(names)}}
    if hessian:
        H = evalast.hessian(ast, model['data'], values, names, []) if names else np.zeros((0, 0, 1))
        H = (np.asarray(H, dtype=float) * ww).sum(axis=2)
        out['hessian'] = {(n, m): float(H[i, j]) for i, n in enumerate(names) for j, m in enumerate(names)}
    return out


def std_errors(ast, model, values, names):
    """Rao-Cramer and robust standard errors by name, from the reference derivatives
    at `values` (generic formulas -H^-1 and H^-1 B H^-1; only used to decide *pairing*)."""
    names = list(names)
    d = derivatives(ast, model, values, names)
    K = len(names)
    H = np.array([[d['hessian'][(n, m)] for m in names] for n in names]).reshape(K, K)
    B = np.array([[d['bhhh'][(n, m)] for m in names] for n in names]).reshape(K, K)
    V = -np.linalg.pinv(H)
    R = V @ B @ V
    with np.errstate(invalid='ignore'):
        se = np.sqrt(np.diag(V))
        rse = np.sqrt(np.diag(R))
    return ({n: float(se[i]) for i, n in enumerate(names)}, {n: float(rse[i]) for i, n in enumerate(names)},
            {(n, m): float(V[i, j]) for i, n in enumerate(names) for j, m in enumerate(names)}, d)


# ---------------------------------------------------------------------------
# oracle guard: closed form MNL, written without evalast


def closed_form_mnl(X, y, beta):
    """X (N, J, K) attributes, y (N,) chosen index, beta (K,) -> LL, gradient (K,), hessian (K,K), bhhh"""
    V = X @ beta
    V = V - V.max(axis=1, keepdims=True)
    P = np.exp(V)
    P = P / P.sum(axis=1, keepdims=True)
    N = X.shape[0]
    ll = float(np.log(P[np.arange(N), y]).sum())
    xbar = np.einsum('nj,njk->nk', P, X)
    gn = X[np.arange(N), y, :] - xbar
    g = gn.sum(axis=0)
    H = -(np.einsum('nj,njk,njl->kl', P, X, X) - xbar.T @ xbar)
    return ll, g, H, gn.T @ gn
