"""C05 oracle: what a proper probability distribution over the available
alternatives looks like, decided on plain numpy arrays (no biogeme code).

Every function returns a list of (shape, message, line_index) tuples;
`shape` is a structural name used in the mechanism string.

P      : dict label -> array over table lines (probability of that alternative)
LP     : dict label -> array over table lines (log-probability function)
avail  : dict label -> array of 0/1 over table lines
"""
from __future__ import annotations

import numpy as np

RANGE_EPS = 1e-12
SUM_TOL = 1e-9
LOG_TOL = 1e-9
LOG_FLOOR = 1e-200
SHIFT_RTOL = 1e-9


def _first(mask):
    idx = np.flatnonzero(mask)
    return int(idx[0]) if idx.size else None


def check_distribution(P: dict, avail: dict | None, range_eps: float = RANGE_EPS) -> list:
    out = []
    labels = list(P)
    M = np.vstack([np.asarray(P[a], dtype=float) for a in labels])  # alt x line
    bad = ~np.isfinite(M)
    if bad.any():
        j, l = np.argwhere(bad)[0]
        out.append(('nonfinite-probability', f'P[{labels[j]}] = {M[j, l]} on line {l}', int(l)))
    with np.errstate(invalid='ignore'):
        rng = (M < -range_eps) | (M > 1.0 + range_eps)
    rng &= ~bad
    if rng.any():
        j, l = np.argwhere(rng)[0]
        out.append(('probability-outside-unit-interval', f'P[{labels[j]}] = {M[j, l]!r} on line {l}', int(l)))
    finite_lines = ~bad.any(axis=0)
    s = M.sum(axis=0)
    with np.errstate(invalid='ignore'):
        off = finite_lines & (np.abs(s - 1.0) > SUM_TOL)
    l = _first(off)
    if l is not None:
        out.append(('probabilities-do-not-sum-to-one', f'sum over alternatives = {s[l]!r} on line {l} (P = {M[:, l].tolist()})', l))
    if avail is not None:
        A = np.vstack([np.asarray(avail[a], dtype=float) for a in labels])
        with np.errstate(invalid='ignore'):
            nz = (A == 0) & (M != 0)
        if nz.any():
            j, l = np.argwhere(nz)[0]
            out.append(('unavailable-alternative-nonzero-probability',
                        f'alternative {labels[j]} is unavailable on line {l} but P = {M[j, l]!r}', int(l)))
    return out


def check_log(P: dict, LP: dict, avail: dict | None) -> list:
    """log-probability function == log of the probability function"""
    out = []
    for a in P:
        p = np.asarray(P[a], dtype=float)
        lp = np.asarray(LP[a], dtype=float)
        if np.isnan(lp).any() or (lp == np.inf).any():
            l = _first(np.isnan(lp) | (lp == np.inf))
            out.append(('nonfinite-log-probability', f'logP[{a}] = {lp[l]} on line {l}', l))
            continue
        with np.errstate(divide='ignore', invalid='ignore'):
            big = np.isfinite(p) & (p > LOG_FLOOR)
            d = np.abs(lp - np.log(p))
            bad = big & ~(d <= LOG_TOL)
            zero = (p == 0) & ~(np.exp(lp) == 0)
        l = _first(bad)
        if l is not None:
            out.append(('log-function-differs-from-log-of-probability',
                        f'alternative {a} line {l}: log function {lp[l]!r}, log(P) {np.log(p[l])!r}', l))
        l = _first(zero)
        if l is not None:
            out.append(('log-function-finite-where-probability-is-zero',
                        f'alternative {a} line {l}: P = 0 but log function = {lp[l]!r}', l))
    return out


def check_shift(P: dict, base_row, shift) -> list:
    """lines of the same base row differ only by the constant added to all utilities"""
    out = []
    base_row = np.asarray(base_row)
    shift = np.asarray(shift, dtype=float)
    for a in P:
        p = np.asarray(P[a], dtype=float)
        for rr in np.unique(base_row):
            idx = np.flatnonzero(base_row == rr)
            ref = idx[shift[idx] == 0.0]
            if ref.size != 1:
                continue
            p0 = p[ref[0]]
            for l in idx:
                if l == ref[0]:
                    continue
                if not np.isfinite(p[l]) or not np.isfinite(p0):
                    continue  # reported by check_distribution
                if abs(p[l] - p0) > SHIFT_RTOL * abs(p0) + 1e-280:  # below 1e-280 float64 loses relative precision
                    out.append(('probability-changes-when-constant-added-to-all-utilities',
                                f'alternative {a}, base row {rr}: P(V) = {p0!r}, P(V + {shift[l]}) = {p[l]!r}', int(l)))
                    return out  # one witness per model is enough
    return out


def count_shift_pairs(base_row, shift) -> int:
    shift = np.asarray(shift, dtype=float)
    return int((shift != 0).sum())


def selftest() -> list[str]:
    """the monitors must fire on planted faults and stay silent on a sound table"""
    bad = []
    rng = np.random.default_rng(5)
    L = 12
    V = rng.uniform(-3, 3, (4, L))
    A = (rng.random((4, L)) < 0.7).astype(float)
    A[0] = 1
    e = np.exp(V) * A
    Pm = e / e.sum(axis=0)
    lab = [7, 2, 9, 4]
    P = {a: Pm[j].copy() for j, a in enumerate(lab)}
    av = {a: A[j] for j, a in enumerate(lab)}
    with np.errstate(divide='ignore'):
        LP = {a: np.log(P[a]) for a in lab}
    rows = np.repeat(np.arange(L // 3), 3)
    sh = np.tile([0.0, 7.0, -40.0], L // 3)
    Pshift = {a: np.repeat(P[a][::3], 3) for a in lab}
    if check_distribution(P, av) or check_log(P, LP, av) or check_shift(Pshift, rows, sh):
        bad.append('monitors fire on a sound distribution')

    def fires(res, shape):
        return any(s == shape for s, _, _ in res)

    Q = {a: P[a].copy() for a in lab}
    Q[7][3] += 1e-7
    if not fires(check_distribution(Q, av), 'probabilities-do-not-sum-to-one'):
        bad.append('sum monitor blind')
    Q = {a: P[a].copy() for a in lab}
    l = int(np.flatnonzero(A[1] == 0)[0])
    Q[2][l] = 1e-30
    if not fires(check_distribution(Q, av), 'unavailable-alternative-nonzero-probability'):
        bad.append('availability monitor blind')
    Q = {a: P[a].copy() for a in lab}
    Q[9][0] = np.nan
    if not fires(check_distribution(Q, av), 'nonfinite-probability'):
        bad.append('NaN monitor blind')
    Q = {a: P[a].copy() for a in lab}
    Q[9][0] = -1e-6
    Q[4][0] += 1e-6
    if not fires(check_distribution(Q, av), 'probability-outside-unit-interval'):
        bad.append('range monitor blind')
    LQ = {a: LP[a].copy() for a in lab}
    LQ[7][0] += 1e-7
    if not fires(check_log(P, LQ, av), 'log-function-differs-from-log-of-probability'):
        bad.append('log monitor blind')
    LQ = {a: LP[a].copy() for a in lab}
    LQ[2][l] = -3.0
    if not fires(check_log(P, LQ, av), 'log-function-finite-where-probability-is-zero'):
        bad.append('log/zero monitor blind')
    Q = {a: Pshift[a].copy() for a in lab}
    Q[7][1] *= 1 + 1e-7
    if not fires(check_shift(Q, rows, sh), 'probability-changes-when-constant-added-to-all-utilities'):
        bad.append('shift monitor blind')
    return bad
