"""C19 oracle: the sampling protocol and the likelihoods, written from the
specification only (biomon/gen/c19_gen.py), with numpy.

* ``Model(spec)``: alternative table by id, stratum of each id, corrections
  ln(k/n), second-sample weights n/k, alpha of each (nest, id), formulas.
* ``Model.check_first / check_second``: the protocol over a list of ids
  (+ the values observed next to them).
* ``Model.ll_sampled(ind, ids_main, ids_mev)``: log likelihood of the model
  built on a given sample (McFadden correction; MEV sums expanded with the
  second-sample weights), ``Model.ll_full(ind)``: the model on the full
  choice set.  Nothing here imports biogeme.
"""
from __future__ import annotations

import math

import numpy as np

ID_COL = 'alt_id'
CHOICE_COL = 'choice'


class OutOfDomain(Exception):
    pass


def eval_ast(ast, env):
    op = ast[0]
    if op == 'var':
        return float(env[ast[1]])
    if op == 'num':
        return float(ast[1])
    if op == 'log':
        v = eval_ast(ast[1], env)
        if v <= 0:
            raise OutOfDomain('log of non-positive')
        return math.log(v)
    if op == 'exp':
        return math.exp(eval_ast(ast[1], env))
    if op == 'pow':
        b = eval_ast(ast[1], env)
        c = float(ast[2])
        if b < 0 and c != int(c):
            raise OutOfDomain('fractional power of negative')
        if b == 0 and c <= 0:
            raise OutOfDomain('0**non-positive')
        return b ** c
    a = eval_ast(ast[1], env)
    b = eval_ast(ast[2], env)
    if op == 'add':
        return a + b
    if op == 'sub':
        return a - b
    if op == 'mul':
        return a * b
    if op == 'div':
        if b == 0:
            raise OutOfDomain('division by zero')
        return a / b
    raise ValueError(op)


def _lse(v):
    v = np.asarray(v, dtype=np.longdouble)
    m = v.max()
    return float(m + np.log(np.exp(v - m).sum()))


class Model:
    def __init__(self, spec):
        self.spec = spec
        self.ids = [int(a) for a in spec['ids']]
        self.alt = {}
        for pos, a in enumerate(self.ids):
            row = {ID_COL: float(a)}
            for c, v in spec['alt_cols'].items():
                row[c] = float(v[pos])
            self.alt[a] = row
        self.alt_cols = [ID_COL] + list(spec['alt_cols'])
        self.stratum_of = {}
        for s, st in enumerate(spec['strata']):
            for a in st:
                self.stratum_of[int(a)] = s
        self.k = [int(x) for x in spec['sizes']]
        self.n = [len(st) for st in spec['strata']]
        self.logq = [math.log(k) - math.log(n) for k, n in zip(self.k, self.n)]
        self.total = sum(self.k)
        self.mev = spec['mev']
        if self.mev:
            self.mstratum_of = {}
            for s, st in enumerate(self.mev['strata']):
                for a in st:
                    self.mstratum_of[int(a)] = s
            self.mk = [int(x) for x in self.mev['sizes']]
            self.mn = [len(st) for st in self.mev['strata']]
            self.mw = [n / k for k, n in zip(self.mk, self.mn)]
            self.mtotal = sum(self.mk)
        else:
            self.mtotal = 0
        self.nests = spec['nests'] or []
        self.combined = spec['combined']
        self.n_ind = len(spec['choices'])

    # -- rows ---------------------------------------------------------------
    def ind_row(self, r):
        row = {CHOICE_COL: float(self.spec['choices'][r])}
        for c, v in self.spec['ind_cols'].items():
            row[c] = float(v[r])
        return row

    def alpha(self, nest, a):
        return float(nest['alpha'].get(str(int(a)), 0.0))

    def combined_value(self, cv, ind, a):
        env = dict(ind)
        env.update(self.alt[a])
        return eval_ast(cv['f'], env)

    def utility(self, ind, a):
        env = dict(ind)
        env.update(self.alt[a])
        for cv in self.combined:
            env[cv['name']] = eval_ast(cv['f'], env)
        return sum(t['value'] * eval_ast(t['term'], env) for t in self.spec['utility'])

    # -- protocol -------------------------------------------------------------
    def check_first(self, chosen, ids, logp=None):
        """-> list of (shape, message); ids: observed ids in order; logp: the correction observed next to each"""
        out = []
        if not ids:
            return [('empty', 'empty choice set')]
        try:
            iids = [int(round(float(a))) for a in ids]
        except (TypeError, ValueError):
            return [('id-not-a-number', f'ids {ids}')]
        if any(not np.isfinite(float(a)) or float(a) != int(round(float(a))) for a in ids):
            out.append(('id-not-integral', f'ids {ids}'))
        if iids[0] != int(chosen):
            out.append(('chosen-not-first', f'chosen {chosen} but first listed alternative is {ids[0]} (set {iids})'))
        if int(chosen) not in iids:
            out.append(('chosen-missing', f'chosen {chosen} is not in the set {iids}'))
        if len(set(iids)) != len(iids):
            dup = sorted({a for a in iids if iids.count(a) > 1})
            out.append(('duplicate-alternative', f'alternatives {dup} listed more than once in {iids}'))
        unknown = [a for a in iids if a not in self.stratum_of]
        if unknown:
            out.append(('unknown-alternative', f'ids {unknown} are in no stratum'))
        cnt = [0] * len(self.k)
        for a in iids:
            if a in self.stratum_of:
                cnt[self.stratum_of[a]] += 1
        if cnt != self.k:
            out.append(('stratum-count', f'per-stratum counts {cnt}, requested {self.k} (strata sizes {self.n}); set {iids}'))
        if logp is not None:
            for pos, (a, lp) in enumerate(zip(iids, logp)):
                if a in self.stratum_of:
                    want = self.logq[self.stratum_of[a]]
                    ok = lp is not None and np.isfinite(lp) and abs(float(lp) - want) <= 1e-12 + 1e-12 * abs(want)
                    if not ok:
                        s = self.stratum_of[a]
                        out.append(('correction-term' + ('-chosen' if pos == 0 else '-sampled'),
                                    f'position {pos} alternative {a}: correction {lp}, ln({self.k[s]}/{self.n[s]}) = {want}'))
                        break
        return out

    def check_second(self, ids, weights=None):
        out = []
        try:
            iids = [int(round(float(a))) for a in ids]
        except (TypeError, ValueError):
            return [('id-not-a-number', f'ids {ids}')]
        if len(set(iids)) != len(iids):
            out.append(('duplicate-alternative', f'second sample lists an alternative twice: {iids}'))
        unknown = [a for a in iids if a not in self.mstratum_of]
        if unknown:
            out.append(('unknown-alternative', f'second sample: ids {unknown} are in no stratum of the second partition'))
        cnt = [0] * len(self.mk)
        for a in iids:
            if a in self.mstratum_of:
                cnt[self.mstratum_of[a]] += 1
        if cnt != self.mk:
            out.append(('stratum-count', f'second sample per-stratum counts {cnt}, requested {self.mk}; set {iids}'))
        if weights is not None:
            for pos, (a, w) in enumerate(zip(iids, weights)):
                if a in self.mstratum_of:
                    want = self.mw[self.mstratum_of[a]]
                    if not (w is not None and np.isfinite(w) and abs(float(w) - want) <= 1e-12 * abs(want)):
                        s = self.mstratum_of[a]
                        out.append(('weight', f'second sample position {pos} alternative {a}: weight {w}, n/k = {self.mn[s]}/{self.mk[s]} = {want}'))
                        break
        return out

    # -- likelihoods ------------------------------------------------------------
    def _mev_terms(self, kind, V_main, ids_main, V_mev, ids_mev, w_mev):
        """ln G_i for every alternative of the main list, MEV sums taken over (ids_mev, weights)"""
        sums = []
        for nest in self.nests:
            mu = float(nest['mu'])
            s = 0.0
            for a, v, w in zip(ids_mev, V_mev, w_mev):
                al = self.alpha(nest, a)
                if al != 0.0:
                    s += w * (al ** mu if kind == 'cnl' else 1.0) * math.exp(mu * v)
            sums.append(s)
        out = []
        for a, v in zip(ids_main, V_main):
            if kind == 'nested':
                t = 0.0
                for nest, s in zip(self.nests, sums):
                    if self.alpha(nest, a) != 0.0:
                        mu = float(nest['mu'])
                        if s <= 0:
                            raise OutOfDomain('no sampled alternative in the nest of a listed alternative')
                        t += (mu - 1.0) * v + (1.0 / mu - 1.0) * math.log(s)
                out.append(t)
            else:
                g = 0.0
                for nest, s in zip(self.nests, sums):
                    al = self.alpha(nest, a)
                    if al != 0.0:
                        mu = float(nest['mu'])
                        if s <= 0:
                            raise OutOfDomain('no sampled alternative in a nest of a listed alternative')
                        g += al ** mu * math.exp((mu - 1.0) * v) * s ** (1.0 / mu - 1.0)
                out.append(math.log(g) if g > 0 else 0.0)
        return out

    def ll_sampled(self, ind, ids_main, ids_mev=None, kind=None, alpha_ids_main=None):
        """model built on the sample: ids_main[0] is the chosen one.
        alpha_ids_main (CNL only): ids whose alphas are used for the main-sample alternatives
        (defect model; None = their own)."""
        kind = kind or self.spec['model']
        ids_main = [int(a) for a in ids_main]
        V = [self.utility(ind, a) for a in ids_main]
        W = [v - self.logq[self.stratum_of[a]] for v, a in zip(V, ids_main)]
        if kind != 'logit':
            ids_mev = [int(a) for a in ids_mev]
            Vm = [self.utility(ind, a) for a in ids_mev]
            wm = [self.mw[self.mstratum_of[a]] for a in ids_mev]
            ref_ids = ids_main if alpha_ids_main is None else [int(a) for a in alpha_ids_main]
            terms = self._mev_terms(kind, V, ref_ids, Vm, ids_mev, wm)
            W = [w + t for w, t in zip(W, terms)]
        return W[0] - _lse(W)

    def ll_full(self, ind, kind=None):
        """the model on the full choice set"""
        kind = kind or self.spec['model']
        chosen = int(ind[CHOICE_COL])
        ids = [chosen] + [a for a in self.ids if a != chosen]
        V = [self.utility(ind, a) for a in ids]
        W = list(V)
        if kind != 'logit':
            terms = self._mev_terms(kind, V, ids, V, ids, [1.0] * len(ids))
            W = [w + t for w, t in zip(W, terms)]
        return W[0] - _lse(W)

    def complete(self):
        """every stratum of every sample is taken completely, and the second sample reaches every nested alternative"""
        if self.k != self.n:
            return False
        if self.spec['model'] == 'logit':
            return True
        if not self.mev or self.mk != self.mn:
            return False
        nested = set()
        for nest in self.nests:
            nested |= {int(a) for a, v in nest['alpha'].items() if v != 0.0}
        return nested <= set(self.mstratum_of)


# ----------------------------------------------------------------------------
# self-test of the oracle (run at the start of every check)
# ----------------------------------------------------------------------------
def selftest():
    bad = []
    from ..gen import c19_gen as g

    # (1) closed forms by hand: two alternatives, logit / one nest with both alternatives
    spec = {
        'model': 'logit', 'full': True, 'ids': [4, 9], 'alt_cols': {'x': [1.0, 3.0]}, 'alt_int_cols': [], 'id_float': False,
        'strata': [[4, 9]], 'sizes': [2], 'choices': [9], 'choice_float': False, 'ind_cols': {'s': [2.0]}, 'ind_int_cols': [],
        'index': None, 'combined': [{'name': 'c', 'f': ['mul', ['var', 's'], ['var', 'x']]}],
        'utility': [{'beta': 'b', 'value': 0.5, 'status': 0, 'term': ['var', 'c']}], 'mev': None, 'nests': None,
    }
    m = Model(spec)
    v4, v9 = 0.5 * 2.0 * 1.0, 0.5 * 2.0 * 3.0
    want = v9 - math.log(math.exp(v4) + math.exp(v9))
    if abs(m.ll_full(m.ind_row(0)) - want) > 1e-13 or abs(m.ll_sampled(m.ind_row(0), [9, 4]) - want) > 1e-13:
        bad.append('two-alternative logit closed form')
    spec2 = dict(spec, model='nested', mev={'strata': [[4, 9]], 'sizes': [2]}, nests=[{'name': 'n', 'mu': 2.0, 'mu_kind': 'float', 'alpha': {'4': 1.0, '9': 1.0}}])
    m2 = Model(spec2)
    want2 = 2.0 * v9 - math.log(math.exp(2.0 * v4) + math.exp(2.0 * v9))  # one nest = logit with scale mu
    if abs(m2.ll_full(m2.ind_row(0)) - want2) > 1e-13:
        bad.append('single-nest nested logit closed form')
    spec3 = dict(spec2, model='cnl')
    if abs(Model(spec3).ll_full(m2.ind_row(0)) - want2) > 1e-13:
        bad.append('single-nest CNL closed form')
    # partial sample: chosen 9 from stratum {9, 4} with k=1 -> only the chosen one: LL = 0
    spec4 = dict(spec, sizes=[1])
    m4 = Model(spec4)
    if abs(m4.ll_sampled(m4.ind_row(0), [9])) > 1e-15:
        bad.append('singleton choice set')
    # two strata, correction by hand
    spec5 = dict(spec, ids=[4, 9, 5], alt_cols={'x': [1.0, 3.0, 2.0]}, strata=[[4, 5], [9]], sizes=[1, 1])
    m5 = Model(spec5)
    w9, w4 = v9 - 0.0, v4 - math.log(0.5)
    if abs(m5.ll_sampled(m5.ind_row(0), [9, 4]) - (w9 - math.log(math.exp(w9) + math.exp(w4)))) > 1e-13:
        bad.append('correction by hand')
    # (2) sampled model on the complete sample (any order) == full model, all three kinds, random specs
    n = 0
    for i in range(60):
        sp = g.make_spec(4242, i, full=True)
        mm = Model(sp)
        if not mm.complete():
            continue
        try:
            for r in range(min(3, mm.n_ind)):
                ind = mm.ind_row(r)
                ch = int(ind[CHOICE_COL])
                main = [ch] + [a for a in reversed(mm.ids) if a != ch]
                mevids = None
                if sp['model'] != 'logit':
                    mevids = [a for st in sp['mev']['strata'] for a in st]
                a = mm.ll_sampled(ind, main, mevids)
                b = mm.ll_full(ind)
                n += 1
                if abs(a - b) > 1e-10 * max(1.0, abs(b)):
                    bad.append(f'oracle: sampled model on a complete sample differs from the full model (spec {i}, {sp["model"]})')
        except OutOfDomain:
            pass
    if n < 40:
        bad.append(f'oracle self-test compared only {n} complete-sample cases')
    # (3) the protocol checker has teeth
    t = Model(dict(spec5, sizes=[1, 1]))
    probes = {
        'chosen-not-first': ([4, 9], None), 'duplicate-alternative': ([9, 9], None), 'stratum-count': ([9, 4, 5], None),
        'unknown-alternative': ([9, 77], None), 'correction-term-sampled': ([9, 4], [0.0, 0.0]),
        'correction-term-chosen': ([9, 4], [-0.1, math.log(0.5)]),
    }
    for shape, (ids, lp) in probes.items():
        got = [s for s, _ in t.check_first(9, ids, lp)]
        if shape not in got:
            bad.append(f'protocol checker misses {shape}: {got}')
    if t.check_first(9, [9, 5], [0.0, math.log(0.5)]):
        bad.append('protocol checker rejects a correct set')
    return bad
