"""C10 oracle pieces: reference semantics of Integrate / Derive on the generator's
AST, closed forms of Gaussian integrals, the closed form of the deterministic
user-defined draw generators, and the comparison of a handed-over draw table
with what the registered generators produced.

Nothing here touches biogeme objects. 'integrate' and 'derive' are registered
as extra operators of biomon.oracle.evalast (in this process only):

  ['integrate', a, rvname | rvindex]   integral of a over the real line in the
        random variable: composite Gauss-Legendre, 72 panels x 20 nodes on
        [-18, 18] (integrands are Gaussian-decaying by construction; the rule is
        self-tested against closed forms and scipy.integrate.quad)
  ['derive', a, name]                  partial derivative of a w.r.t. the
        parameter / column `name`: complex step (h = 1e-30)
"""
from __future__ import annotations

import copy
import math

import numpy as np

from . import evalast

# ---------------------------------------------------------------------------
# reference quadrature

_L = 18.0
_PANELS = 72
_ORDER = 20


def _rule():
    x, w = np.polynomial.legendre.leggauss(_ORDER)
    edges = np.linspace(-_L, _L, _PANELS + 1)
    half = (edges[1:] - edges[:-1]) / 2
    mid = (edges[1:] + edges[:-1]) / 2
    xs = (mid[:, None] + half[:, None] * x[None, :]).ravel()
    ws = (half[:, None] * w[None, :]).ravel()
    return xs, ws


_X, _W = _rule()


def _sub_ctx(ctx):
    sub = copy.copy(ctx)
    sub.memo = {}
    sub.rv = dict(ctx.rv)
    sub.data = dict(ctx.data)
    sub.betas = dict(ctx.betas)
    return sub


def _back(ctx, sub, with_maxabs=True):
    ctx.ties = max(ctx.ties, sub.ties)
    if with_maxabs:
        ctx.maxabs = max(ctx.maxabs, sub.maxabs)


def _integrate(node, ctx):
    if ctx.draws:
        raise evalast.OutOfDomain('Integrate together with draws: not modelled')
    key = node[2] if isinstance(node[2], str) else f'#rv{int(node[2])}'
    if key in ctx.rv:
        raise evalast.OutOfDomain('nested integral over the same variable')
    for v in ctx.rv.values():
        if v.shape[1] != 1:
            raise evalast.OutOfDomain('nested integrals: not modelled')
    sub = _sub_ctx(ctx)
    sub.rv[key] = sub.arr(_X).reshape(1, -1)
    v = evalast.ev(node[1], sub)
    # intermediates at far-away nodes (w = +-18) say nothing about the conditioning of the integral
    _back(ctx, sub, with_maxabs=False)
    if v.shape[1] != _X.size:
        raise evalast.OutOfDomain('integrand does not depend on the integration variable')
    # tail guard: the integrand must have decayed at the ends of the interval
    edge = np.maximum(np.abs(v[:, 0]), np.abs(v[:, -1]))
    peak = np.max(np.abs(v), axis=1)
    if np.any(edge > 1e-25 * np.maximum(peak, 1e-300)):
        raise evalast.OutOfDomain('integrand not decayed at +-18')
    w = sub.arr(_W) if not np.iscomplexobj(v) else _W
    return (v * w[None, :]).sum(axis=1, keepdims=True)


def _derive(node, ctx):
    name = node[2]
    if np.iscomplexobj(np.zeros(1, dtype=ctx.dtype)):
        raise evalast.OutOfDomain('derivative of a derivative: not modelled')
    cdt = np.complex128  # scipy's ndtr has no extended-precision complex loop; conditioning of Derive cases is
    # judged by the central-difference cross-check instead of the 80-bit rerun
    h = 1e-30
    sub = _sub_ctx(ctx)
    sub.dtype = cdt
    sub.rv = {k: v.astype(cdt) for k, v in ctx.rv.items()}
    if name in ctx.betas:
        sub.betas[name] = complex(ctx.betas[name]) + 1j * h
    elif name in ctx.data:
        sub.data[name] = np.asarray(ctx.data[name], dtype=cdt) + 1j * h
    else:
        raise KeyError(name)
    v = evalast.ev(node[1], sub)
    _back(ctx, sub)
    out = np.asarray(v.imag / h, dtype=ctx.dtype)
    return out


evalast._OPS['integrate'] = _integrate
evalast._OPS['derive'] = _derive


def central_difference(child_ast, data, betas, name, shared=None, draws=None, rel=1e-6):
    """d child / d name by central differences of the real-arithmetic evaluator
    (second oracle route for Derive; also the shape of the metamorphic partner)."""
    if name in betas:
        h = rel * max(1.0, abs(betas[name]))
        bp, bm = dict(betas), dict(betas)
        bp[name] += h
        bm[name] -= h
        vp, _ = evalast.evaluate(child_ast, data, bp, shared, draws=draws)
        vm, _ = evalast.evaluate(child_ast, data, bm, shared, draws=draws)
        return (vp - vm) / (2 * h)
    col = np.asarray(data[name], dtype=float)
    h = rel * np.maximum(1.0, np.abs(col))
    dp, dm = dict(data), dict(data)
    dp[name] = col + h
    dm[name] = col - h
    vp, _ = evalast.evaluate(child_ast, dp, betas, shared, draws=draws)
    vm, _ = evalast.evaluate(child_ast, dm, betas, shared, draws=draws)
    return (vp - vm) / (2 * h)


# ---------------------------------------------------------------------------
# closed forms (third route, used by the self-test and by the directed cases)


def gauss_moment(k: int) -> float:
    """E[w^k], w ~ N(0,1)"""
    if k % 2:
        return 0.0
    return float(math.prod(range(1, k, 2))) if k else 1.0


def gauss_exp(a: float, k: int = 0) -> float:
    """E[w^k exp(a w)] = exp(a^2/2) * E[(w+a)^k]"""
    tot = 0.0
    for j in range(k + 1):
        tot += math.comb(k, j) * gauss_moment(j) * a ** (k - j)
    return math.exp(a * a / 2) * tot


def phi_ast(rv):
    """standard normal density of the random variable, as an AST"""
    return ['div', ['exp', ['div', ['neg', ['mul', ['rv', rv], ['rv', rv]]], ['num', 2.0]]],
            ['num', math.sqrt(2 * math.pi)]]


# ---------------------------------------------------------------------------
# deterministic user-defined generators: closed form in (type, n, r)

USER_TYPES = {
    # name: (code, low, span)   value = low + span * frac(code, n, r)
    'DET_A': (1, -1.0, 2.0),
    'DET_B': (2, 0.0, 1.0),
    'MYGEN3': (3, -0.5, 1.5),
    'zz_user': (4, -2.0, 1.0),
    'DET_POS': (5, 0.25, 2.0),
}


def coded_series(code: float, low: float, span: float, n: int, r: int) -> np.ndarray:
    """low + span * frac(...): injective in (code, observation, draw), not symmetric in (observation, draw)"""
    i = np.arange(n, dtype=float)[:, None]
    j = np.arange(r, dtype=float)[None, :]
    t = (0.3819660112501051 * (i + 1) + 0.7548776662466927 * (j + 1) * (1 + 0.01 * code) + 0.5698402909980532 * code
         + 0.1234 * (i + 1) * (j + 1))
    frac = t - np.floor(t)
    return low + span * frac


def user_series(tname: str, n: int, r: int) -> np.ndarray:
    """value for observation i, draw j: injective in (type, i, j) (distinct
    irrational-ish multipliers, fractional part), so that a transposition, a
    series fed to another variable or a shifted index changes the numbers."""
    code, low, span = USER_TYPES[tname]
    return coded_series(code, low, span, n, r)


def match_columns(table: np.ndarray, names: list, types: dict, productions: dict) -> list[str]:
    """table [obs, draw, variable] vs what the generators produced.

    productions: type -> list of arrays returned by the generator registered
    for that type. Returns a list of problems (empty = every column k is
    bit-for-bit one production of the generator of names[k]'s declared type)."""
    out = []
    if table.ndim != 3 or table.shape[2] != len(names):
        return [f'table shape {table.shape} for {len(names)} variables']
    for k, nm in enumerate(names):
        t = types[nm]
        prods = productions.get(t, [])
        col = table[:, :, k]
        if not any(p.shape == col.shape and np.array_equal(p, col) for p in prods):
            # say whose series it is, if anybody's
            owner = None
            for t2, ps in productions.items():
                for p in ps:
                    if p.shape == col.shape and np.array_equal(p, col):
                        owner = t2
                    elif p.T.shape == col.shape and np.array_equal(p.T, col):
                        owner = t2 + ' (transposed)'
            out.append(f'column {k} ("{nm}", type {t}) is not a production of its generator'
                       + (f'; it is a production of {owner}' if owner else ''))
    return out
