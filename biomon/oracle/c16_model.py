"""C16 oracle: an executable model of "a formula with catalogs" that shares no code with biogeme.

From the generator's AST with choice nodes (biomon.gen.c16_catalogs) it derives
  * the controllers (name -> ordered alternative names) that govern the formula,
  * the configuration space = cartesian product of the controllers,
  * the canonical identifier of a configuration,
  * for one configuration, the formula written out by hand (choice nodes replaced by the chosen
    member; helper-generated catalogs replaced by their documented closed form),
  * the table of catalogs (name, controller, member names) that must follow a controller,
  * a model of the one-controller neighbourhood moves (index arithmetic modulo the size).
"""
from __future__ import annotations

from itertools import product

from ..gen.c16_catalogs import walk


def seg_names(h):
    """alternative names of the controller of segmentation_catalogs, in enumeration order:
    every subset of the potential segmentations with at most `max` elements; 'no_seg' for the empty one,
    otherwise the names of the segmenting variables joined by '-'"""
    segs = h.get('segs') or []
    out = []
    for combo in product([False, True], repeat=len(segs)):
        if sum(combo) <= h['max']:
            nm = '-'.join(s['var'] for keep, s in zip(combo, segs) if keep) or 'no_seg'
            out.append((nm, combo))
    return out


def controllers(spec) -> dict:
    """controller name -> list of alternative names (declared order), for everything reachable"""
    out = {}
    problems = []

    def visit(n):
        if n[0] == 'catalog':
            specs = [s for s, _ in n[4]]
            if n[2] in out and out[n[2]] != specs:
                problems.append(f'controller {n[2]} declared with two alternative lists')
            out[n[2]] = specs
        elif n[0] == 'segcat':
            h = spec['helpers'][n[1]]
            out[h['generic']] = [nm for nm, _ in seg_names(h)]
        elif n[0] == 'gencat':
            h = spec['helpers'][n[1]]
            out[h['generic'] + '_gen_altspec'] = ['generic', 'altspec']
            if h.get('segs'):
                out[h['generic']] = [nm for nm, _ in seg_names(h)]

    walk(spec['ast'], spec.get('shared', []), visit)
    if problems:
        raise ValueError('; '.join(problems))
    return out


def catalog_table(spec) -> dict:
    """catalog name -> (controller name, member names) for every catalog reachable in the formula"""
    out = {}

    def visit(n):
        if n[0] == 'catalog':
            out[n[1]] = (n[2], [s for s, _ in n[4]])
        elif n[0] == 'segcat':
            h = spec['helpers'][n[1]]
            out['segmented_' + h['betas'][n[2]]] = (h['generic'], [nm for nm, _ in seg_names(h)])
        elif n[0] == 'gencat':
            h = spec['helpers'][n[1]]
            b = h['betas'][n[2]]
            out[f'{b}_{n[3]}_gen_altspec'] = (h['generic'] + '_gen_altspec', ['generic', 'altspec'])
            if h.get('segs'):
                names = [nm for nm, _ in seg_names(h)]
                out['segmented_' + b] = (h['generic'], names)
                out[f'segmented_{b}_{n[3]}'] = (h['generic'], names)

    walk(spec['ast'], spec.get('shared', []), visit)
    return out


def configurations(ctrls: dict) -> list:
    names = list(ctrls)
    return [dict(zip(names, combo)) for combo in product(*[ctrls[n] for n in names])]


def config_id(cfg: dict) -> str:
    """canonical identifier: 'controller:alternative' terms joined by ';' in the order of the controller names"""
    return ';'.join(f'{k}:{cfg[k]}' for k in sorted(cfg))


def segmented(pname, sel, h):
    """closed form of a segmented parameter: reference parameter + one shift parameter per non-reference
    category of every selected segmentation, active when the segmenting variable takes the category's value"""
    combo = dict(seg_names(h))[sel]
    terms = [['beta', pname]]
    for keep, s in zip(combo, h['segs']):
        if not keep:
            continue
        ref = s['reference'] if s['reference'] is not None else s['mapping'][0][1]
        for val, cat in s['mapping']:
            if cat != ref:
                terms.append(['mul', ['beta', f'{pname}_{cat}'], ['eq', ['var', s['var']], ['num', float(val)]]])
    return ['multsum', terms, 'list']


def _res(node, cfg, spec):
    if not isinstance(node, list):
        return node
    op = node[0] if node and isinstance(node[0], str) else None
    if op == 'catalog':
        sel = cfg[node[2]]
        for s, m in node[4]:
            if s == sel:
                return _res(m, cfg, spec)
        raise KeyError(f'{sel} is no member of catalog {node[1]}')
    if op == 'segcat':
        h = spec['helpers'][node[1]]
        return segmented(h['betas'][node[2]], cfg[h['generic']], h)
    if op == 'gencat':
        h = spec['helpers'][node[1]]
        b = h['betas'][node[2]]
        pname = b if cfg[h['generic'] + '_gen_altspec'] == 'generic' else f'{b}_{node[3]}'
        if h.get('segs'):
            return segmented(pname, cfg[h['generic']], h)
        return ['beta', pname]
    if op == 'linutil':
        return node
    return [_res(x, cfg, spec) for x in node]


def resolve(spec, cfg, override=True) -> dict:
    """the formula written out by hand for configuration cfg (a spec biomon.gen.build / evalast understand).
    override=True : parameters created by the helpers carry their own distinct values (evaluation with betas=)
    override=False: they carry the value of the parameter they derive from (what the helpers construct)"""
    betas = {k: list(v[:2]) for k, v in spec['betas'].items()}
    for k, v in (spec.get('derived_betas') or {}).items():
        betas[k] = [v[0] if override else spec['betas'][v[2]][0], v[1]]
    return {
        'ast': _res(spec['ast'], cfg, spec),
        'shared': [_res(s, cfg, spec) for s in spec.get('shared', [])],
        'data': spec['data'],
        'betas': betas,
    }


def names_used(rspec, kind='beta'):
    """names of the parameters ('beta') / variables ('var') of a resolved formula"""
    out = set()

    def visit(n):
        if n[0] == kind:
            out.add(n[1])
        elif n[0] == 'linutil':
            for b, x in n[1]:
                out.add(b if kind == 'beta' else x)

    walk(rspec['ast'], rspec['shared'], visit)
    return out


def has_nested(spec) -> bool:
    """some choice node inside a member of another choice node"""
    found = []

    def inside(n, depth):
        if not isinstance(n, list) or not n:
            return
        if isinstance(n[0], str):
            if n[0] == 'share':
                inside(spec['shared'][n[1]], depth)
                return
            if n[0] == 'catalog':
                if depth:
                    found.append(1)
                for _, m in n[4]:
                    inside(m, depth + 1)
                return
            if n[0] in ('segcat', 'gencat') and depth:
                found.append(1)
            rest = n[1:]
        else:
            rest = n
        for x in rest:
            if isinstance(x, list):
                inside(x, depth)

    inside(spec['ast'], 0)
    return bool(found)


def move(ctrls, cfg, name, delta):
    """one-controller move: the alternative of `name` advances by delta positions, cyclically"""
    specs = ctrls[name]
    out = dict(cfg)
    out[name] = specs[(specs.index(cfg[name]) + delta) % len(specs)]
    return out
