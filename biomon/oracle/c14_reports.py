"""Independent observers for C14.

* parsers of the four report formats (HTML via html.parser, LaTeX tabular,
  ALOGIT F12 fixed columns, printed form) that return {parameter label: value
  text} -- written from the documented layouts, not from biogeme's writers;
* directory snapshots (inode, mtime_ns, size, sha1) and an audit-hook recorder
  of file events (open for writing, rename, remove, copy) with the innermost
  biogeme frame attached;
* a minimal TOML writer for parameter files (documented coding: booleans as the
  strings "True"/"False");
* comparison helpers for data frames / statistics (exact, NaN-aware).
"""
from __future__ import annotations

import contextlib
import hashlib
import html.parser
import json
import math
import os
import re
import sys

import numpy as np

# ----------------------------------------------------------------------------
# number formats
# ----------------------------------------------------------------------------
_NUM = re.compile(r'^[+-]?(\d+\.?\d*|\.\d+)([eE][+-]?\d+)?$|^[+-]?(inf|nan)$')


def is_numeral(text: str) -> bool:
    return bool(_NUM.match(text.strip()))


def agrees_3g(text: str, value: float) -> bool:
    """text is a numeral equal to value at three significant digits"""
    if not is_numeral(text):
        return False
    x = float(text)
    if math.isnan(value):
        return math.isnan(x)
    if value == 0 or x == 0:
        return abs(x - value) <= 5.01e-3 * max(abs(value), abs(x)) or (x == 0 and abs(value) < 1e-300) or x == value
    return abs(x - value) <= 5.01e-3 * abs(value)


def agrees_12e(text: str, value: float) -> bool:
    if not is_numeral(text):
        return False
    x = float(text)
    return abs(x - value) <= 1e-12 * abs(value) or x == value


# ----------------------------------------------------------------------------
# HTML
# ----------------------------------------------------------------------------
class _Tables(html.parser.HTMLParser):
    def __init__(self):
        super().__init__(convert_charrefs=True)
        self.tables = []  # list of (preceding heading text, rows)
        self._heading = ''
        self._in_heading = False
        self._stack = []
        self._row = None
        self._cell = None

    def handle_starttag(self, tag, attrs):
        if tag in ('h1', 'h2'):
            self._in_heading = True
            self._heading = ''
        elif tag == 'table':
            self._stack.append({'heading': self._heading, 'rows': []})
        elif tag == 'tr' and self._stack:
            self._close_row()
            self._row = []
        elif tag in ('td', 'th') and self._stack:
            self._close_cell()
            if self._row is None:
                self._row = []
            self._cell = ''

    def _close_cell(self):
        if self._cell is not None and self._row is not None:
            self._row.append(self._cell.strip())
        self._cell = None

    def _close_row(self):
        self._close_cell()
        if self._row is not None and self._stack:
            self._stack[-1]['rows'].append(self._row)
        self._row = None

    def handle_endtag(self, tag):
        if tag in ('h1', 'h2'):
            self._in_heading = False
        elif tag in ('td', 'th'):
            self._close_cell()
        elif tag == 'tr':
            self._close_row()
        elif tag == 'table' and self._stack:
            self._close_row()
            self.tables.append(self._stack.pop())

    def handle_data(self, data):
        if self._in_heading:
            self._heading += data
        if self._cell is not None:
            self._cell += data


def html_parameter_rows(text: str):
    """rows [(name, {column: cell text})] of the table headed 'Estimated parameters'"""
    p = _Tables()
    p.feed(text)
    p.close()
    for t in p.tables:
        if t['heading'].strip().lower().startswith('estimated parameters'):
            rows = t['rows']
            if not rows:
                return []
            header = rows[0]
            out = []
            for r in rows[1:]:
                if not r:
                    continue
                out.append((r[0], dict(zip(header[1:], r[1:]))))
            return out
    return None


# ----------------------------------------------------------------------------
# LaTeX
# ----------------------------------------------------------------------------
def latex_parameter_rows(text: str):
    """rows of the tabular that follows \\section{Parameter estimates}"""
    m = re.search(r'\\section\{Parameter estimates\}', text)
    if not m:
        return None
    rest = text[m.end():]
    b = rest.find('\\begin{tabular}')
    e = rest.find('\\end{tabular}')
    if b < 0 or e < 0:
        return None
    body = rest[b:e]
    lines = [ln.strip() for ln in body.split('\n')]
    rows = []
    header = None
    for ln in lines:
        if not ln.endswith('\\\\'):
            continue
        cells = [c.strip() for c in ln[:-2].split('&')]
        if header is None:
            header = cells
            continue
        rows.append((cells[0], dict(zip(header[1:], cells[1:]))))
    return rows


# ----------------------------------------------------------------------------
# F12 (ALOGIT): fixed columns
# ----------------------------------------------------------------------------
def f12_coefficients(text: str):
    """[(label(10 chars, stripped), constrained flag, value text, std err text)] from
    the documented fixed columns: 1-4 '   0', 6-15 label, 16-17 flag, 19-38 value, 39-58 std error"""
    lines = text.split('\n')
    if len(lines) < 4 or lines[2].strip() != 'END':
        return None
    out = []
    for ln in lines[3:]:
        if ln.startswith('  -1'):
            return out
        if not ln.startswith('   0 '):
            return None
        out.append((ln[5:15].strip(), ln[15:17].strip(), ln[18:38].strip(), ln[38:58].strip(), ln[5:15]))
    return None


# ----------------------------------------------------------------------------
# printed form
# ----------------------------------------------------------------------------
def printed_parameters(text: str, names: list[str]):
    """{name: value text} from lines '<name padded to 15>: <value>[...'"""
    out = {}
    for ln in text.split('\n'):
        for n in names:
            label = f'{n:15}: '
            if ln.startswith(label):
                rest = ln[len(label):]
                out.setdefault(n, re.split(r'[\[\s]', rest, maxsplit=1)[0])
    return out


# ----------------------------------------------------------------------------
# time stamps
# ----------------------------------------------------------------------------
_TS = re.compile(r'\d{4}-\d{2}-\d{2} \d{2}:\d{2}:\d{2}(\.\d+)?')


def mask_timestamps(text: str) -> str:
    return _TS.sub('<TS>', text)


# ----------------------------------------------------------------------------
# directory snapshots and file events
# ----------------------------------------------------------------------------
def snapshot(directory: str) -> dict:
    out = {}
    for fn in sorted(os.listdir(directory)):
        p = os.path.join(directory, fn)
        try:
            st = os.stat(p)
        except OSError:
            continue
        if not os.path.isfile(p):
            out[fn] = ('dir',)
            continue
        with open(p, 'rb') as f:
            h = hashlib.sha1(f.read()).hexdigest()
        out[fn] = (st.st_ino, st.st_mtime_ns, st.st_size, h)
    return out


class FileEvents:
    """audit-hook recorder; installed once per process, switched on around a call"""

    def __init__(self):
        self.on = False
        self.events = []
        self.installed = False
        self.seen_any = 0

    def install(self):
        if self.installed:
            return
        self.installed = True
        sys.addaudithook(self._hook)

    def _frame(self):
        f = sys._getframe(2)
        depth = 0
        while f is not None and depth < 60:
            fn = f.f_code.co_filename
            if (os.sep + 'biogeme' + os.sep) in fn and (os.sep + 'biomon' + os.sep) not in fn:
                return f.f_code.co_name, os.path.basename(fn)
            f = f.f_back
            depth += 1
        return None, None

    def _hook(self, event, args):
        if not self.on:
            return
        try:
            if event == 'open':
                path, mode, flags = (list(args) + [None, None, None])[:3]
                if not isinstance(path, (str, bytes, os.PathLike)):
                    return
                writing = False
                if isinstance(mode, str):
                    writing = any(c in mode for c in 'wax+')
                elif isinstance(flags, int):
                    writing = bool(flags & (os.O_WRONLY | os.O_RDWR | os.O_CREAT | os.O_TRUNC | os.O_APPEND))
                if not writing:
                    return
                fn, mod = self._frame()
                self.events.append({'ev': 'open-write', 'path': os.fsdecode(path), 'mode': mode if isinstance(mode, str) else flags,
                                    'func': fn, 'module': mod})
            elif event in ('os.rename', 'os.remove', 'shutil.copyfile', 'shutil.move', 'os.truncate'):
                fn, mod = self._frame()
                self.events.append({'ev': event, 'args': [os.fsdecode(a) if isinstance(a, (str, bytes, os.PathLike)) else None for a in args[:2]],
                                    'func': fn, 'module': mod})
        except Exception:  # an observer never disturbs the observed
            pass

    @contextlib.contextmanager
    def recording(self):
        self.events = []
        self.on = True
        try:
            yield self.events
        finally:
            self.on = False
            self.seen_any += len(self.events)


FILE_EVENTS = FileEvents()


# ----------------------------------------------------------------------------
# fresh-name contract on the real function
# ----------------------------------------------------------------------------
class NameContract:
    """wraps biogeme.filenames.get_new_file_name (callers use the module
    attribute): the returned name must not designate an existing path"""

    def __init__(self):
        self.calls = 0
        self.failures = []
        self.returned = []
        self.installed = False
        self.total_calls = 0  # never reset
        self.all_failures = []  # never reset

    def install(self):
        if self.installed:
            return
        import biogeme.filenames as bf

        orig = bf.get_new_file_name
        me = self

        def get_new_file_name(name, ext):
            r = orig(name, ext)
            me.calls += 1
            me.total_calls += 1
            me.returned.append(r)
            if os.path.lexists(r):
                me.failures.append({'name': name, 'ext': ext, 'returned': r})
                me.all_failures.append({'name': name, 'ext': ext, 'returned': r})
            return r

        get_new_file_name.__wrapped__ = orig
        bf.get_new_file_name = get_new_file_name
        self.installed = True

    def reset(self):
        self.calls = 0
        self.failures = []
        self.returned = []


NAME_CONTRACT = NameContract()


# ----------------------------------------------------------------------------
# TOML
# ----------------------------------------------------------------------------
def toml_value(v, bool_spelling=None) -> str:
    if isinstance(v, bool):
        s = bool_spelling or ('True' if v else 'False')
        return json.dumps(s)
    if isinstance(v, int):
        return str(int(v))
    if isinstance(v, float):
        if math.isnan(v):
            return 'nan'
        if math.isinf(v):
            return 'inf' if v > 0 else '-inf'
        r = repr(float(v))
        if 'e' not in r and '.' not in r:
            r += '.0'
        if 'e' in r and '.' not in r.split('e')[0]:
            m, e = r.split('e')
            r = f'{m}.0e{e}'
        return r
    if isinstance(v, str):
        return json.dumps(v, ensure_ascii=False).replace('\x7f', '\\u007f')
    raise TypeError(type(v))


def write_parameter_file(path: str, values: dict, bool_spellings: dict | None = None):
    """values: {(name, section): value}; sections in first-appearance order"""
    sections = {}
    for (name, section), v in values.items():
        sections.setdefault(section, []).append((name, v))
    with open(path, 'w', encoding='utf-8') as f:
        f.write('# parameter file written by the C14 harness\n')
        for s, items in sections.items():
            f.write(f'\n[{s}]\n')
            for name, v in items:
                sp = (bool_spellings or {}).get((name, s))
                f.write(f'{name} = {toml_value(v, sp)}\n')


# ----------------------------------------------------------------------------
# exact comparisons
# ----------------------------------------------------------------------------
def frames_equal(a, b) -> str | None:
    """None if identical (index, columns, values bit-for-bit with NaN == NaN), else a description"""
    if list(a.index) != list(b.index):
        return f'index {list(a.index)} vs {list(b.index)}'
    if list(a.columns) != list(b.columns):
        return f'columns {list(a.columns)} vs {list(b.columns)}'
    x = a.to_numpy(dtype=float, na_value=np.nan) if len(a.columns) else np.zeros((len(a), 0))
    y = b.to_numpy(dtype=float, na_value=np.nan) if len(b.columns) else np.zeros((len(b), 0))
    if x.shape != y.shape:
        return f'shape {x.shape} vs {y.shape}'
    same = (x == y) | (np.isnan(x) & np.isnan(y))
    if not same.all():
        idx = np.argwhere(~same)[0]
        return f'value at row {a.index[idx[0]]!r} column {a.columns[idx[1]]!r}: {x[tuple(idx)]!r} vs {y[tuple(idx)]!r}'
    return None


def plain(v):
    """general-statistics value -> comparable plain object"""
    if isinstance(v, (np.floating, float)):
        f = float(v)
        return 'nan' if math.isnan(f) else f
    if isinstance(v, (np.integer,)):
        return int(v)
    if isinstance(v, (list, tuple)):
        return [plain(x) for x in v]
    if isinstance(v, (int, str, bool)) or v is None:
        return v
    return repr(v)


def arrays_equal(a, b) -> bool:
    if a is None or b is None:
        return a is None and b is None
    a = np.asarray(a, dtype=float)
    b = np.asarray(b, dtype=float)
    if a.shape != b.shape:
        return False
    return bool(np.all((a == b) | (np.isnan(a) & np.isnan(b))))
