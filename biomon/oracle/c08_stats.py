"""Independent reference model for property C08 (reported statistics).

Everything here is computed from the *raw outcome* only (final / initial / null
log likelihood, K, N, Hessian, BHHH, bootstrap replications), never from
biogeme code:

* Moore-Penrose pseudo-inverse in **exact rational arithmetic** (the float64
  entries of the Hessian are rationals): no LAPACK rank threshold is involved,
  so "singular" means exactly singular and the reference does not depend on
  anybody's ``rcond``;
* sample covariance in exact rational arithmetic;
* normal tail through ``math.erfc`` (not scipy.stats);
* chi-square CDF by an own series / continued fraction (Numerical-Recipes
  style), used *forward* to judge a reported quantile.
"""
from __future__ import annotations

import math
from fractions import Fraction

import numpy as np

EPS = 2.220446049250313e-16
FLOAT_MAX = 1.7976931348623157e308


# ----------------------------------------------------------------------------
# exact linear algebra on small matrices
# ----------------------------------------------------------------------------
def _frac_matrix(a):
    a = np.asarray(a, dtype=float)
    return [[Fraction(float(x)) for x in row] for row in a]


def _mm(a, b):
    n, m, p = len(a), len(b), len(b[0]) if b else 0
    return [[sum((a[i][k] * b[k][j] for k in range(m)), Fraction(0)) for j in range(p)] for i in range(n)]


def _tr(a):
    return [list(r) for r in zip(*a)] if a else []


def _inv(a):
    """Gauss-Jordan in exact arithmetic; a must be square and regular."""
    n = len(a)
    m = [list(a[i]) + [Fraction(int(i == j)) for j in range(n)] for i in range(n)]
    for c in range(n):
        piv = next((r for r in range(c, n) if m[r][c] != 0), None)
        if piv is None:
            raise ZeroDivisionError('singular')
        m[c], m[piv] = m[piv], m[c]
        pv = m[c][c]
        m[c] = [x / pv for x in m[c]]
        for r in range(n):
            if r != c and m[r][c] != 0:
                f = m[r][c]
                m[r] = [x - f * y for x, y in zip(m[r], m[c])]
    return [row[n:] for row in m]


def _rref(a):
    m = [list(r) for r in a]
    nr, nc = len(m), len(m[0]) if m else 0
    piv = []
    r = 0
    for c in range(nc):
        p = next((i for i in range(r, nr) if m[i][c] != 0), None)
        if p is None:
            continue
        m[r], m[p] = m[p], m[r]
        pv = m[r][c]
        m[r] = [x / pv for x in m[r]]
        for i in range(nr):
            if i != r and m[i][c] != 0:
                f = m[i][c]
                m[i] = [x - f * y for x, y in zip(m[i], m[r])]
        piv.append(c)
        r += 1
        if r == nr:
            break
    return m, piv


def exact_pinv(a):
    """Exact Moore-Penrose pseudo-inverse of a (float entries taken as exact).

    Rank factorisation A = C R (C = pivot columns, R = non-zero rows of the
    reduced row echelon form); A+ = R^T (R R^T)^-1 (C^T C)^-1 C^T.
    Returns (pinv as float64 array, exact rank).
    """
    fa = _frac_matrix(a)
    n = len(fa)
    if n == 0:
        return np.zeros((0, 0)), 0
    rr, piv = _rref(fa)
    r = len(piv)
    if r == 0:
        return np.zeros((len(fa[0]), n)), 0
    c = [[fa[i][j] for j in piv] for i in range(n)]
    rm = rr[:r]
    ct = _tr(c)
    rt = _tr(rm)
    p = _mm(_mm(rt, _inv(_mm(rm, rt))), _mm(_inv(_mm(ct, c)), ct))
    return np.array([[float(x) for x in row] for row in p], dtype=float), r


def pinv_reference(h):
    """Reference for varcov = (pseudo-)inverse of minus the Hessian.

    Returns dict: ref (K x K), rank, cond (largest / smallest *non-zero*
    singular value of -H, measured in float64), noise (largest computed
    singular value beyond the exact rank, relative), judged (bool), rtol
    (normwise relative tolerance justified by the conditioning).
    """
    h = np.asarray(h, dtype=float)
    a = -h
    k = a.shape[0]
    ref, rank = exact_pinv(a)
    s = np.linalg.svd(a, compute_uv=False) if k else np.zeros(0)
    smax = float(s[0]) if k and s[0] > 0 else 0.0
    if rank == 0 or smax == 0.0:
        cond = 1.0
        noise = 0.0
    else:
        cond = smax / float(s[rank - 1])
        noise = float(s[rank]) / smax if rank < k else 0.0
    # a float64 pseudo-inverse cannot be expected to be closer than ~cond*eps: the tolerance follows the accuracy
    # the computation can really deliver, and the comparison is dropped only when that tolerance exceeds 1e-4
    # (cond > ~2e9), where it would say nothing about the formula. The ABSOLUTE size of the curvature plays no
    # role: a regular Hessian of scale 1e-9 or with an eigenvalue 1e-8 next to O(1) ones has an exact inverse.
    # The rank must be unambiguous: every relative cut-off between 2 eps and 1/cond (>= 4e-10) gives the same answer.
    rtol = max(1e-9, 200.0 * EPS * cond)
    judged = bool(rtol <= 1e-4 and noise <= 2.0 * EPS)
    smin = float(s[rank - 1]) if rank > 0 and smax > 0 else 0.0
    return {'ref': ref, 'rank': rank, 'cond': cond, 'noise': noise, 'judged': judged, 'rtol': rtol, 'smax': smax, 'smin': smin}


def sandwich_reference(v, b):
    """robust varcov = V B V, with an entrywise scale |V||B||V| for tolerances."""
    v = np.asarray(v, dtype=float)
    b = np.asarray(b, dtype=float)
    fv, fb = _frac_matrix(v), _frac_matrix(b)
    p = _mm(_mm(fv, fb), fv)
    ref = np.array([[float(x) for x in row] for row in p], dtype=float).reshape(v.shape)
    scale = np.abs(v) @ np.abs(b) @ np.abs(v)
    return ref, scale


def sample_covariance(x):
    """Exact sample covariance (divisor B-1) of the rows of x (B x K).
    Returns (cov K x K, mean K). B < 2 -> (None, mean)."""
    x = np.asarray(x, dtype=float)
    if x.ndim != 2:
        raise ValueError('replications must be B x K')
    nb, k = x.shape
    fx = _frac_matrix(x)
    mean = [sum((fx[b][j] for b in range(nb)), Fraction(0)) / nb for j in range(k)]
    if nb < 2:
        return None, np.array([float(m) for m in mean])
    dev = [[fx[b][j] - mean[j] for j in range(k)] for b in range(nb)]
    cov = np.empty((k, k))
    for i in range(k):
        for j in range(i, k):
            s = sum((dev[b][i] * dev[b][j] for b in range(nb)), Fraction(0)) / (nb - 1)
            cov[i, j] = cov[j, i] = float(s)
    return cov, np.array([float(m) for m in mean])


# ----------------------------------------------------------------------------
# scalar formulas
# ----------------------------------------------------------------------------
def p_value(t: float) -> float:
    """2 (1 - Phi(|t|)) = erfc(|t| / sqrt 2)."""
    t = float(t)
    if math.isnan(t):
        return float('nan')
    return math.erfc(abs(t) / math.sqrt(2.0))


def general_statistics(L, L0, Lnull, K, N):
    """Summary statistics by their defining formulas, in exact arithmetic
    where the formula is rational. Values that are not defined are absent."""
    fl = Fraction(float(L))
    out = {'AIC': float(2 * K - 2 * fl)}
    if N is not None and N > 0:
        out['BIC'] = float(-2 * fl) + K * math.log(N)
    if L0 is not None:
        f0 = Fraction(float(L0))
        out['LR_init'] = float(-2 * (f0 - fl))
        if f0 != 0:
            out['rho_init'] = float(1 - fl / f0)
            out['rhobar_init'] = float(1 - (fl - K) / f0)
    if Lnull is not None:
        fn = Fraction(float(Lnull))
        out['LR_null'] = float(-2 * (fn - fl))
        if fn != 0:
            out['rho_null'] = float(1 - fl / fn)
            out['rhobar_null'] = float(1 - (fl - K) / fn)
    return out


# labels of the general-statistics view -> which quantity the label names
GENERAL_LABELS = {
    'Number of estimated parameters': 'K',
    'Sample size': 'N',
    'Observations': 'nobs',
    'Null log likelihood': 'Lnull',
    'Init log likelihood': 'L0',
    'Final log likelihood': 'L',
    'Likelihood ratio test for the null model': 'LR_null',
    'Rho-square for the null model': 'rho_null',
    'Rho-square-bar for the null model': 'rhobar_null',
    'Likelihood ratio test for the init. model': 'LR_init',
    'Rho-square for the init. model': 'rho_init',
    'Rho-square-bar for the init. model': 'rhobar_init',
    'Akaike Information Criterion': 'AIC',
    'Bayesian Information Criterion': 'BIC',
    'Final gradient norm': 'gnorm',
    'Number of free parameters': 'Kfree',
}


# ----------------------------------------------------------------------------
# chi-square distribution (for the likelihood-ratio test threshold)
# ----------------------------------------------------------------------------
def _gser(a, x):
    ap = a
    s = d = 1.0 / a
    for _ in range(10000):
        ap += 1.0
        d *= x / ap
        s += d
        if abs(d) < abs(s) * 1e-17:
            break
    return s * math.exp(-x + a * math.log(x) - math.lgamma(a))


def _gcf(a, x):
    tiny = 1e-300
    b = x + 1.0 - a
    c = 1.0 / tiny
    d = 1.0 / b
    h = d
    for i in range(1, 10000):
        an = -i * (i - a)
        b += 2.0
        d = an * d + b
        if abs(d) < tiny:
            d = tiny
        c = b + an / c
        if abs(c) < tiny:
            c = tiny
        d = 1.0 / d
        de = d * c
        h *= de
        if abs(de - 1.0) < 1e-16:
            break
    return math.exp(-x + a * math.log(x) - math.lgamma(a)) * h


def chi2_cdf(x, df):
    """P(X <= x), X ~ chi-square(df): regularised lower incomplete gamma P(df/2, x/2)."""
    if x <= 0:
        return 0.0
    a, z = df / 2.0, x / 2.0
    if z < a + 1.0:
        return _gser(a, z)
    return 1.0 - _gcf(a, z)


def chi2_sf(x, df):
    if x <= 0:
        return 1.0
    a, z = df / 2.0, x / 2.0
    if z < a + 1.0:
        return 1.0 - _gser(a, z)
    return _gcf(a, z)


# ----------------------------------------------------------------------------
# self-test (run by the check at every start)
# ----------------------------------------------------------------------------
def selftest() -> list[str]:
    bad = []

    def chk(cond, what):
        if not cond:
            bad.append(what)

    # pseudo-inverse: regular, singular, zero
    v, r = exact_pinv([[2.0, 0.0], [0.0, 4.0]])
    chk(r == 2 and np.allclose(v, [[0.5, 0], [0, 0.25]], rtol=0, atol=1e-15), 'pinv diag')
    v, r = exact_pinv([[1.0, 2.0], [2.0, 4.0]])
    chk(r == 1 and np.allclose(v, np.array([[1.0, 2.0], [2.0, 4.0]]) / 25.0, rtol=1e-15), 'pinv rank one')
    v, r = exact_pinv([[0.0]])
    chk(r == 0 and v[0, 0] == 0.0, 'pinv zero')
    rng = np.random.default_rng(5)
    for k in (1, 3, 6):
        for rank in range(1, k + 1):
            f = rng.integers(-4, 5, size=(k, rank)).astype(float)
            a = f @ f.T
            v, r = exact_pinv(a)
            if r != np.linalg.matrix_rank(a):
                continue  # random integer factor lost rank: nothing to say
            # the four Penrose conditions define the pseudo-inverse
            sc = max(1.0, np.abs(a).max()) * max(1.0, np.abs(v).max())
            chk(np.abs(a @ v @ a - a).max() <= 1e-9 * sc * np.abs(a).max(), f'penrose 1 k={k} r={rank}')
            chk(np.abs(v @ a @ v - v).max() <= 1e-9 * sc * np.abs(v).max(), f'penrose 2 k={k} r={rank}')
            chk(np.abs(a @ v - (a @ v).T).max() <= 1e-9 * sc, f'penrose 3 k={k} r={rank}')
            chk(np.abs(v @ a - (v @ a).T).max() <= 1e-9 * sc, f'penrose 4 k={k} r={rank}')
    # covariance: hand example
    c, m = sample_covariance([[1.0, 2.0], [3.0, 6.0], [5.0, 1.0]])
    chk(np.allclose(m, [3.0, 3.0]) and np.allclose(c, [[4.0, -1.0], [-1.0, 7.0]], rtol=1e-15), 'sample covariance')
    # sandwich
    s, _ = sandwich_reference([[2.0, 0.0], [0.0, 3.0]], [[1.0, 1.0], [1.0, 5.0]])
    chk(np.allclose(s, [[4.0, 6.0], [6.0, 45.0]], rtol=1e-15), 'sandwich')
    # normal tail: textbook values
    for t, p in ((0.0, 1.0), (1.0, 0.31731050786291415), (1.959963984540054, 0.05), (-2.5758293035489004, 0.01), (5.0, 5.733031437583869e-07)):
        chk(abs(p_value(t) - p) <= 1e-13 * max(p, 1e-3), f'p_value({t})')
    # chi-square: textbook quantiles, and against scipy.special as a third route
    for q, df, x in ((0.95, 1, 3.841458820694124), (0.95, 2, 5.991464547107979), (0.99, 5, 15.08627246938899), (0.9, 10, 15.987179172105261)):
        chk(abs(chi2_cdf(x, df) - q) < 1e-11, f'chi2_cdf({x},{df})')
    try:
        from scipy import special

        for df in (1, 2, 3, 7, 20):
            for x in (0.01, 0.5, 2.0, 9.0, 40.0, 120.0):
                chk(abs(chi2_cdf(x, df) - special.gammainc(df / 2.0, x / 2.0)) < 1e-12, f'chi2_cdf vs gammainc ({x},{df})')
                chk(abs(chi2_sf(x, df) - special.gammaincc(df / 2.0, x / 2.0)) < 1e-12, f'chi2_sf vs gammaincc ({x},{df})')
    except ImportError:
        pass
    # general statistics
    g = general_statistics(-100.0, -200.0, -250.0, 3, 50)
    chk(g['AIC'] == 206.0 and abs(g['BIC'] - (200.0 + 3 * math.log(50))) < 1e-12, 'AIC/BIC')
    chk(g['LR_init'] == 200.0 and g['LR_null'] == 300.0, 'LR')
    chk(g['rho_init'] == 0.5 and abs(g['rhobar_init'] - (1 - 103.0 / 200.0)) < 1e-15, 'rho init')
    chk(abs(g['rho_null'] - 0.6) < 1e-15 and abs(g['rhobar_null'] - (1 - 103.0 / 250.0)) < 1e-15, 'rho null')
    return bad
