"""C11 reference models (independent of biogeme).

* what a catalogue entry *advertises*, parsed from its name and its description;
* radical-inverse (van der Corput / Halton) sequence by digit reversal;
* stratum test for (modified) Latin hypercube samples;
* the standard normal quantile: scipy.special.ndtri, itself guarded at every run by a
  high-precision (decimal, 60 digits) normal CDF written here: series for small |x|,
  continued fraction for the tails.
"""
from __future__ import annotations

import re
from decimal import Decimal, getcontext
from fractions import Fraction

import numpy as np

FAMILIES = ('UNIFORMSYM', 'UNIFORM', 'NORMAL')  # longest prefix first


# --------------------------------------------------------------------------
# what is advertised
# --------------------------------------------------------------------------
def parse_entry(name: str, description: str) -> dict:
    """{'family','kind','anti','sym','base','skip','problems'} from name + description.

    The description is the primary source for base / skip / interval (that is what
    ``description_of_native_draws`` publishes); the name must not contradict it.
    """
    problems = []
    fam = next((f for f in FAMILIES if name == f or name.startswith(f + '_')), None)
    if fam is None:
        return {'family': None, 'problems': [f'name {name!r} has no known family prefix']}
    rest = name[len(fam):].lstrip('_')
    toks = rest.split('_') if rest else []
    anti_n = 'ANTI' in toks
    mlhs_n = 'MLHS' in toks
    hal_n = [t for t in toks if t.startswith('HALTON')]
    base_n = int(hal_n[0][6:]) if hal_n and hal_n[0][6:].isdigit() else None
    unknown = [t for t in toks if t not in ('ANTI', 'MLHS') and not t.startswith('HALTON')]
    if unknown:
        problems.append(f'unknown name tokens {unknown}')

    d = description
    dl = d.lower()
    anti_d = 'antithetic' in dl
    mlhs_d = 'latin hypercube' in dl
    hal_d = 'halton' in dl
    m = re.search(r'base\s+(\d+)', dl)
    base_d = int(m.group(1)) if m else None
    m = re.search(r'skipping\s+the\s+first\s+(\d+)', dl)
    skip_d = int(m.group(1)) if m else None
    normal_d = 'normal' in dl
    sym_d = bool(re.search(r'\[\s*-1\s*[,:]\s*1\s*\]', d))
    unit_d = bool(re.search(r'\[\s*0\s*[,:]\s*1\s*\]', d))

    if anti_n != anti_d:
        problems.append(f'name says antithetic={anti_n}, description says {anti_d}')
    if mlhs_n != mlhs_d:
        problems.append(f'name says MLHS={mlhs_n}, description says {mlhs_d}')
    if bool(hal_n) != hal_d:
        problems.append(f'name says Halton={bool(hal_n)}, description says {hal_d}')
    if hal_n and base_n != base_d:
        problems.append(f'name says base {base_n}, description says base {base_d}')
    if (fam == 'NORMAL') != normal_d:
        problems.append(f'family {fam} but description normal={normal_d}')
    if fam == 'UNIFORMSYM' and not sym_d:
        problems.append('symmetric family but the description does not advertise [-1, 1]')
    if fam == 'UNIFORM' and sym_d:
        problems.append('unit family but the description advertises [-1, 1]')
    kind = 'halton' if (hal_n or hal_d) else 'mlhs' if (mlhs_n or mlhs_d) else 'plain'
    return {
        'family': fam,
        'kind': kind,
        'anti': anti_n or anti_d,
        'sym': fam == 'UNIFORMSYM',
        'normal': fam == 'NORMAL',
        'base': base_d if base_d is not None else base_n,
        'skip': skip_d,
        'unit_interval_advertised': unit_d,
        'problems': problems,
    }


# --------------------------------------------------------------------------
# radical inverse
# --------------------------------------------------------------------------
def radical_inverse(k, base: int) -> np.ndarray:
    """phi_b(k) = sum_j d_j(k) b^-(j+1), digits d_j of k in base b (vectorised)."""
    k = np.array(k, dtype=np.int64, copy=True)
    out = np.zeros(k.shape, dtype=float)
    f = 1.0 / base
    while np.any(k > 0):
        out += (k % base) * f
        k //= base
        f /= base
    return out


def radical_inverse_exact(k: int, base: int) -> Fraction:
    x = Fraction(0)
    f = Fraction(1, base)
    while k > 0:
        x += (k % base) * f
        k //= base
        f /= base
    return x


def halton_ref(count: int, base: int, skip: int) -> np.ndarray:
    """elements skip+1 ... skip+count of the sequence phi_b(1), phi_b(2), ..."""
    return radical_inverse(np.arange(skip + 1, skip + count + 1), base)


HALTON_ATOL = 1e-13  # both sides sum <= 40 float terms in [0,1); measured difference <= 3e-16


def find_skip(u: np.ndarray, base: int, max_skip: int = 64):
    """skip s such that u == phi_b(s+1 ...), None if there is none (unadvertised skip)."""
    u = np.asarray(u, dtype=float).ravel()
    for s in range(max_skip + 1):
        if abs(u[0] - radical_inverse(np.array([s + 1]), base)[0]) <= HALTON_ATOL:
            if np.all(np.abs(u - halton_ref(u.size, base, s)) <= HALTON_ATOL):
                return s
    return None


# --------------------------------------------------------------------------
# Latin hypercube strata
# --------------------------------------------------------------------------
def strata(u) -> dict:
    """Does the sample put exactly one point in each [k/M, (k+1)/M), M = len(u)?"""
    u = np.sort(np.asarray(u, dtype=float).ravel())
    m = u.size
    t = u * m
    k = np.arange(m)
    eps = 1e-9 + 1e-15 * m  # in units of one stratum: only absorbs the rounding of u*M (and of (x+1)/2 for symmetric samples)
    bad = np.nonzero(~((t >= k - eps) & (t < k + 1 + eps)))[0]
    occ = np.clip(np.floor(t).astype(np.int64), 0, m - 1)
    counts = np.bincount(occ, minlength=m)
    return {
        'ok': bad.size == 0,
        'M': int(m),
        'first_bad_rank': int(bad[0]) if bad.size else None,
        'value_at_first_bad': float(u[bad[0]]) if bad.size else None,
        'empty_strata': int(np.sum(counts == 0)),
        'max_points_in_a_stratum': int(counts.max()) if m else 0,
    }


# --------------------------------------------------------------------------
# normal quantile
# --------------------------------------------------------------------------
def quantile(u) -> np.ndarray:
    from scipy.special import ndtri

    return ndtri(np.asarray(u, dtype=float))


# AS241's own region split (Wichura 1988): central rational approximation for
# |u - 1/2| <= 0.425, tail approximations (in sqrt(-log(min(u, 1-u)))) otherwise.
AS241_CENTRAL_HALFWIDTH = 0.425
AS241_TAIL_SPLIT = 5.0


def _phi_hp_tail(z: Decimal) -> Decimal:
    """erfc(z) for z >= 2.5 by the continued fraction
    erfc z = exp(-z^2)/sqrt(pi) * 1/(z + (1/2)/(z + 1/(z + (3/2)/(z + 2/(z + ...)))))."""
    n = 400
    t = z
    for k in range(n, 0, -1):
        t = z + (Decimal(k) / 2) / t
    pi = _pi()
    return (-(z * z)).exp() / pi.sqrt() / t


_PI = None


def _pi() -> Decimal:
    global _PI
    if _PI is None:
        # Machin: pi = 16 atan(1/5) - 4 atan(1/239)
        def atan_inv(n):
            x = Decimal(1) / n
            s = x
            term = x
            k = 1
            n2 = n * n
            while True:
                term = -term / n2
                d = term / (2 * k + 1)
                if abs(d) < Decimal(10) ** -(getcontext().prec + 5):
                    break
                s += d
                k += 1
            return s

        _PI = 16 * atan_inv(5) - 4 * atan_inv(239)
    return _PI


def phi_hp(x: float) -> Decimal:
    """Standard normal CDF of the float x, ~50 significant digits."""
    getcontext().prec = 80
    xd = Decimal(x)
    z = abs(xd) / Decimal(2).sqrt()
    if z < Decimal('2.5'):
        # erf z = 2/sqrt(pi) sum (-1)^n z^(2n+1) / (n! (2n+1)); terms <= e^{6.25}: 80 digits are plenty
        s = Decimal(0)
        term = z
        n = 0
        z2 = z * z
        while True:
            d = term / (2 * n + 1)
            s += d
            if abs(d) < Decimal(10) ** -75 and n > 5:
                break
            n += 1
            term = -term * z2 / n
        erf = 2 / _pi().sqrt() * s
        half = (1 - erf) / 2  # upper tail mass beyond |x|
    else:
        half = _phi_hp_tail(z) / 2
    return half if xd < 0 else 1 - half


def pdf_hp(x: float) -> Decimal:
    getcontext().prec = 80
    xd = Decimal(x)
    return (-(xd * xd) / 2).exp() / (2 * _pi()).sqrt()


def quantile_error_in_x(u: float, x: float) -> float:
    """First-order distance between x and the exact quantile of the float u, relative to |x|
    (absolute when x == 0): (Phi(x) - u) / pdf(x) / |x|, computed with 80 digits."""
    r = (phi_hp(x) - Decimal(u)) / pdf_hp(x)
    if x != 0.0:
        r = r / abs(Decimal(x))
    return float(r)


SELFTEST_U = (
    [10.0 ** -k for k in (300, 200, 100, 50, 30, 20, 15, 12, 11, 10, 9, 7, 5, 3, 2)]
    + [0.05, 0.074, 0.075, 0.0751, 0.1, 0.2, 0.3, 0.4, 0.44, 0.45, 0.4501, 0.49, 0.499999, 0.5000001, 0.51, 0.55, 0.6,
       0.7, 0.8, 0.9, 0.92, 0.925, 0.9251, 0.95, 0.99, 0.999, 1 - 1e-5, 1 - 1e-8, 1 - 1e-10, 1 - 1.3e-11, 1 - 1.4e-11,
       1 - 1e-12, 1 - 1e-14, 1 - 1e-15, 1 - 2.0 ** -53]
)


def selftest() -> list[str]:
    bad = []
    # (1) radical inverse: exact rational arithmetic and scipy's own Halton generator
    try:
        from scipy.stats import qmc

        ref = qmc.Halton(d=3, scramble=False).random(3000)  # rows k = 0 .. ; bases 2, 3, 5
        for j, b in enumerate((2, 3, 5)):
            mine = radical_inverse(np.arange(3000), b)
            if np.max(np.abs(mine - ref[:, j])) > 1e-14:
                bad.append(f'radical_inverse base {b} differs from scipy.stats.qmc.Halton')
    except Exception as e:  # pragma: no cover
        bad.append(f'scipy qmc unavailable: {e}')
    for b in (2, 3, 5, 7):
        for k in (1, 2, 10, 11, 12, 99, 1000, 50011, 123457):
            if abs(float(radical_inverse_exact(k, b)) - radical_inverse(np.array([k]), b)[0]) > 1e-15:
                bad.append(f'radical_inverse({k},{b}) differs from exact rational value')
    if find_skip(halton_ref(30, 3, 10), 3) != 10 or find_skip(halton_ref(30, 3, 10), 2) is not None:
        bad.append('find_skip wrong on its own sequence')
    # (2) strata
    m = 50
    rng = np.random.RandomState(5)
    good = (np.arange(m) + rng.uniform(size=m)) / m
    if not strata(rng.permutation(good))['ok']:
        bad.append('strata() rejects a Latin hypercube sample')
    dup = good.copy()
    dup[7] = dup[8]
    if strata(dup)['ok'] or strata(rng.uniform(size=m))['ok']:
        bad.append('strata() accepts a sample with an empty stratum')
    # (3) catalogue parser
    p = parse_entry('UNIFORMSYM_HALTON3', 'Halton draws on [-1, 1] with base 3, skipping the first 10')
    if (p['family'], p['kind'], p['base'], p['skip'], p['sym'], p['anti'], p['problems']) != ('UNIFORMSYM', 'halton', 3, 10, True, False, []):
        bad.append(f'parse_entry wrong: {p}')
    p = parse_entry('NORMAL_MLHS_ANTI', 'Antithetic normal draws from Modified Latin Hypercube Sampling')
    if (p['family'], p['kind'], p['anti'], p['normal'], p['problems']) != ('NORMAL', 'mlhs', True, True, []):
        bad.append(f'parse_entry wrong: {p}')
    if not parse_entry('UNIFORM_HALTON3', 'Halton draws with base 5, skipping the first 10')['problems']:
        bad.append('parse_entry does not notice a name/description contradiction')
    # (4) the quantile oracle against the high-precision CDF
    if abs(float(phi_hp(0.0)) - 0.5) > 1e-17 or abs(float(phi_hp(1.0)) - 0.8413447460685429) > 1e-16 \
            or abs(float(phi_hp(-10.0)) / 7.619853024160527e-24 - 1) > 1e-14 \
            or abs(float(phi_hp(-3.4)) / 0.0003369292656768808 - 1) > 1e-14 \
            or abs(float(phi_hp(-3.6)) / 0.00015910859015753364 - 1) > 1e-14:
        bad.append('high-precision normal CDF disagrees with tabulated values')
    worst = 0.0
    for u in SELFTEST_U:
        x = float(quantile(u))
        if u == 0.5:
            continue
        e = abs(quantile_error_in_x(u, x))
        worst = max(worst, e)
        if e > 2e-15:
            bad.append(f'scipy ndtri({u!r}) = {x!r} is off by {e:.2e} (relative, in x) according to the 80-digit CDF')
    if float(quantile(0.5)) != 0.0:
        bad.append('ndtri(0.5) != 0')
    selftest.worst_ndtri_error = worst
    return bad
