"""pytest plugin: the repository's own tests as extra workload for the C08 monitor.

Loaded with ``-p biomon.oracle.c08_pytest_plugin``. Every ``bioResults`` object
built while the tests run (estimations, pickles read back) is handed, right
after its constructor returns, to the same monitors as the generated workload
(``biomon.checks.c08.verify``): the raw outcome is read from the raw fields of
``results.data`` (Hessian, BHHH, replications, likelihoods, sample size), the
reported figures from the public views. The aggregated recorder is dumped as
JSON to ``$C08_PLUGIN_OUT`` at session end. Nothing is changed in the objects.
"""
from __future__ import annotations

import json
import os

import numpy as np

from biomon import env  # noqa: F401  (puts the code under test first on sys.path, before any test imports biogeme)

_REC = None
_ORIG = None
_BUSY = False


def _observe(results):
    global _BUSY
    from biomon.checks import c08

    d = getattr(results, 'data', None)
    if d is None or getattr(d, 'H', None) is None or getattr(d, 'bhhh', None) is None:
        _REC.c('repo_tests_results_without_second_order_information')
        return
    if not np.all(np.isfinite(np.asarray(d.H, dtype=float))) or not np.all(np.isfinite(np.asarray(d.bhhh, dtype=float))):
        _REC.c('repo_tests_results_with_non_finite_derivatives')
        return
    raw = {
        'names': list(d.betaNames), 'beta': np.array(d.betaValues, dtype=float), 'L': float(d.logLike),
        'L0': None if d.initLogLike is None else float(d.initLogLike),
        'Lnull': None if d.nullLogLike is None else float(d.nullLogLike),
        'N': int(d.sampleSize), 'nobs': int(d.numberOfObservations), 'H': np.array(d.H, dtype=float),
        'BHHH': np.array(d.bhhh, dtype=float),
        'bootstrap': None if getattr(d, 'bootstrap', None) is None else np.array(d.bootstrap, dtype=float),
        'gradient': None if d.g is None else np.array(d.g, dtype=float),
        'bounds': {b.name: [b.lb, b.ub] for b in d.betas}, 'hessian_kind': 'repo_test', 'bhhh_kind': 'repo_test',
    }
    if raw['L0'] is None:
        _REC.c('repo_tests_results_without_initial_likelihood')
        return
    _BUSY = True
    try:
        _REC.c('repo_tests_bioresults_observed')
        c08.verify(_REC, results, raw, 'repo-test:' + os.environ.get('PYTEST_CURRENT_TEST', '?').split(' ')[0], full=False)
    finally:
        _BUSY = False


def pytest_configure(config):
    global _REC, _ORIG
    from biomon import env  # noqa: F401  (import path of the code under test)
    from biomon.checks.c08 import Rec8 as Rec
    import biogeme.results as res

    _REC = Rec({'mode': 'repo-tests'})
    _ORIG = res.bioResults.__init__

    def init(self, *a, **kw):
        try:
            _ORIG(self, *a, **kw)
        except BaseException as e:
            d = getattr(self, 'data', None)
            if d is not None and getattr(d, 'H', None) is not None and not _BUSY:
                k = getattr(d, 'nparam', None)
                shape = '-single-parameter-bootstrap' if k == 1 and getattr(d, 'bootstrap', None) is not None else ''
                _REC.ev()
                _REC.violation(f'C08/bioresults-construction-raises-{type(e).__name__}{shape}',
                               f'{os.environ.get("PYTEST_CURRENT_TEST")}: {type(e).__name__}: {e}', None)
            raise
        if not _BUSY:
            try:
                _observe(self)
            except BaseException as e:  # a monitor failure must never change the test outcome
                _REC.inconc(f'monitor raised inside repo test: {type(e).__name__}: {e}')

    res.bioResults.__init__ = init


def pytest_sessionfinish(session, exitstatus):
    out = os.environ.get('C08_PLUGIN_OUT')
    if _REC is not None and out:
        o = _REC.out()
        o['pytest_exitstatus'] = int(exitstatus)
        with open(out, 'w') as f:
            json.dump(o, f, default=repr)
