"""C15 oracle: independent reader of the iteration file + history checker.

Nothing here imports biogeme. The checker is fed with what the harness wrapper
observed at the boundary of ``calculate_likelihood_and_derivatives``:
the point (floats), the returned value, whether the returned gradient is finite and
the bytes of ``__<model>.iter`` before and after the call. It decides, call by call,
whether the file is what the property demands and names the mechanism that broke it.

Mechanism names (structural, used to match known findings):
  C15/iterfile-malformed-<shape>                       file exists but is not one complete line per parameter
  C15/iterfile-values-not-an-evaluated-point           values are not bit-for-bit those of a logged point
  C15/iterfile-holds-point-with-nonfinite-derivatives  the point written has a non-finite gradient
  C15/iterfile-holds-point-with-nan-likelihood         the point written has a NaN likelihood
  C15/iterfile-overwritten-by-worse-point              the call replaced the file by its own point although a better one was evaluated before
  C15/iterfile-not-updated-by-better-point             the call evaluated a new best point and left the older one in the file
  C15/iterfile-rewritten-with-stale-point              the call rewrote the file with an older logged point
  C15/iterfile-missing-after-best-evaluation           a best-so-far point with finite derivatives was evaluated and there is no file
  C15/iterfile-never-written-after-nan-first-likelihood same, when the first evaluation of the run returned NaN with a finite gradient
  C15/iterfile-removed-by-evaluation                   the call deleted an existing file
  C15/iterfile-overwritten-by-evaluation-on-resampled-data  the call wrote its point although it was not evaluated on the estimation data
  C15/iterfile-truncated-before-write                  (crash) file left empty / partial
  C15/crash-leaves-unrelated-complete-file             (crash) complete file holding neither the previous nor the current point
"""
from __future__ import annotations

import math
import re
import struct


def bits(v: float) -> bytes:
    return struct.pack('<d', float(v))


def point_bits(values: dict, names: list[str]) -> tuple:
    return tuple(bits(values[n]) for n in names)


_VALUE = re.compile(r'^\s*=\s*(\S+)\s*$')


def parse_iter(content: bytes | None, names: list[str]) -> dict:
    """Independent reader. A sound file is: utf-8, every line terminated by a newline,
    exactly one line '<name> = <float>' per free parameter, nothing else."""
    if content is None:
        return {'exists': False, 'ok': False, 'shape': 'absent', 'values': None}
    out = {'exists': True, 'ok': False, 'shape': '', 'values': None, 'size': len(content)}
    if len(content) == 0:
        out['shape'] = 'empty'
        return out
    try:
        text = content.decode('utf-8')
    except UnicodeDecodeError:
        out['shape'] = 'not-utf8'
        return out
    if not text.endswith('\n'):
        out['shape'] = 'unterminated-last-line'
        return out
    lines = text[:-1].split('\n')
    by_len = sorted(names, key=len, reverse=True)
    values: dict[str, float] = {}
    for line in lines:
        hit = None
        # the written form '<name> = <float>' first (names may themselves contain ' = ', end with blanks ...):
        # the longest parameter name followed by ' = ' and something float() accepts
        for n in by_len:
            if line.startswith(n + ' = '):
                txt = line[len(n) + 3:]
                try:
                    float(txt)
                except ValueError:
                    continue
                hit = (n, txt)
                break
        if hit is None:
            for n in by_len:
                if line.startswith(n):
                    m = _VALUE.match(line[len(n):])
                    if m:
                        hit = (n, m.group(1))
                        break
        if hit is None:
            out['shape'] = 'line-without-parameter-name'
            out['line'] = line[:120]
            return out
        n, txt = hit
        try:
            v = float(txt)
        except ValueError:
            out['shape'] = 'unparsable-value'
            out['line'] = line[:120]
            return out
        if n in values:
            out['shape'] = 'duplicate-parameter-line'
            return out
        values[n] = v
    missing = [n for n in names if n not in values]
    if missing:
        out['shape'] = 'missing-parameter-line'
        out['missing'] = [m[:40] for m in missing[:5]]
        return out
    out['ok'] = True
    out['shape'] = 'complete'
    out['values'] = values
    return out


class Scope:
    """One run of evaluations sharing a best-so-far marker (an estimation, or a scripted
    sequence on one object)."""

    def __init__(self, names: list[str], tie_rel: float = 0.0):
        self.names = list(names)
        self.tie_rel = tie_rel
        self.points: list[dict] = []  # every logged derivative evaluation of the scope
        self.best_f: float | None = None
        self.first_candidate_f: float | None = None
        self.nan_first = False  # the first derivative evaluation returned NaN with a finite gradient
        self.n_deriv_calls = 0
        self.missing_reported = False
        self.earlier_violation = False

    # -- comparisons with an explicit tie band --------------------------------
    def _tol(self, a, b):
        return self.tie_rel * max(abs(a), abs(b))

    def better(self, a, b) -> bool:
        return a > b + self._tol(a, b)

    def worse(self, a, b) -> bool:
        return a < b - self._tol(a, b)

    def classify(self, f, cand: bool) -> str:
        if not cand:
            return 'noncandidate'
        if self.best_f is None:
            return 'first'
        if self.better(f, self.best_f):
            return 'improving'
        if not self.worse(f, self.best_f):
            return 'tie'
        if self.first_candidate_f is not None and not self.worse(f, self.first_candidate_f):
            return 'worse-than-best-not-below-first'
        return 'worse-than-first'

    def step(self, x: dict, f: float, grad_finite: bool, pre: bytes | None, post: bytes | None, foreign: bool = False) -> tuple[list, dict]:
        """returns (violations [(mech, msg)], info). foreign: the value returned is not the likelihood of
        the estimation data at x (evaluation made on other data, e.g. a bootstrap resample)"""
        names = self.names
        xb = point_bits(x, names)
        f_nan = isinstance(f, float) and math.isnan(f)
        x_finite = all(math.isfinite(v) for v in x.values())
        cand = bool(grad_finite) and not f_nan and f is not None and x_finite and not foreign
        kind = self.classify(f, cand)
        if self.n_deriv_calls == 0 and f_nan and grad_finite:
            self.nan_first = True
        self.n_deriv_calls += 1
        viol = []
        P = parse_iter(post, names)
        Q = parse_iter(pre, names)
        pre_pt = point_bits(Q['values'], names) if Q['ok'] else None
        info = {'kind': kind, 'file': P['shape'], 'changed': pre != post}
        should_write = cand and kind in ('first', 'improving')
        may_write = cand and kind in ('first', 'improving', 'tie')

        if not P['exists']:
            if Q['exists']:
                viol.append(('C15/iterfile-removed-by-evaluation', 'the evaluation removed the existing iteration file'))
            elif should_write and not self.missing_reported:
                self.missing_reported = True
                if self.nan_first:
                    viol.append(('C15/iterfile-never-written-after-nan-first-likelihood',
                                 f'a finite best-so-far point (LL {f!r}) with finite derivatives was evaluated and no iteration file exists; '
                                 'the first derivative evaluation of this run had returned NaN with a finite gradient'))
                else:
                    viol.append(('C15/iterfile-missing-after-best-evaluation',
                                 f'evaluation #{self.n_deriv_calls} of the run is the best so far (LL {f!r}, finite derivatives, kind {kind}) and no iteration file exists'))
        elif not P['ok']:
            viol.append((f'C15/iterfile-malformed-{P["shape"]}', f'after the evaluation the file is not one complete line per free parameter: {P["shape"]} {P.get("line", "")!r} {P.get("missing", "")}'))
        else:
            B = point_bits(P['values'], names)
            info['holds_current'] = B == xb
            if B == xb:
                if foreign:
                    if pre_pt != xb:
                        viol.append(('C15/iterfile-overwritten-by-evaluation-on-resampled-data',
                                     f'the evaluation (returned {f!r}) was not made on the estimation data and its point replaced the saved one '
                                     f'(best on the estimation data so far: {self.best_f!r})'))
                elif not cand:
                    if f_nan and grad_finite and x_finite:
                        viol.append(('C15/iterfile-holds-point-with-nan-likelihood', 'the file holds the point just evaluated, whose likelihood is NaN'))
                    else:
                        viol.append(('C15/iterfile-holds-point-with-nonfinite-derivatives', 'the file holds the point just evaluated, whose derivatives are not finite'))
                elif not may_write and pre_pt != xb:
                    viol.append(('C15/iterfile-overwritten-by-worse-point',
                                 f'the evaluation (LL {f!r}) replaced the saved point although a point with LL {self.best_f!r} and finite derivatives was evaluated before ({kind})'))
            elif pre_pt is not None and B == pre_pt:
                if should_write:
                    viol.append(('C15/iterfile-not-updated-by-better-point',
                                 f'the evaluation is the best so far (LL {f!r} vs {self.best_f!r}, finite derivatives) and the file still holds the older point'))
            else:
                older = [p for p in self.points if p['xb'] == B]
                if older:
                    viol.append(('C15/iterfile-rewritten-with-stale-point',
                                 f'the file was rewritten with the point of evaluation #{older[-1]["k"]} (LL {older[-1]["f"]!r}), not with the current one'))
                else:
                    viol.append(('C15/iterfile-values-not-an-evaluated-point',
                                 'the values re-read from the file are not bit-for-bit those of any point evaluated so far: '
                                 + _first_diff(P['values'], x, names)))
        # global invariant, for the counters (a broken invariant inherited from an earlier
        # violation is not reported twice)
        self.points.append({'k': self.n_deriv_calls, 'xb': xb, 'f': f, 'cand': cand})
        if cand:
            if self.best_f is None or f > self.best_f:
                self.best_f = f
            if self.first_candidate_f is None:
                self.first_candidate_f = f
        if P['ok']:
            B = point_bits(P['values'], names)
            holders = [p for p in self.points if p['xb'] == B and p['cand']]
            info['invariant'] = bool(holders) and self.best_f is not None and not self.worse(max(p['f'] for p in holders), self.best_f)
        else:
            info['invariant'] = None
        if getattr(self, 'polluted', False):
            # the best-so-far marker of the writer holds a value obtained on other data: a better point on the
            # estimation data that is not written afterwards is the same mechanism, not a new one
            viol = [(('C15/iterfile-overwritten-by-evaluation-on-resampled-data', 'after a point evaluated on other data was saved: ' + msg)
                     if mech in ('C15/iterfile-not-updated-by-better-point', 'C15/iterfile-missing-after-best-evaluation') else (mech, msg))
                    for mech, msg in viol]
        if any(mech == 'C15/iterfile-overwritten-by-evaluation-on-resampled-data' for mech, _ in viol):
            self.polluted = True
        if viol:
            self.earlier_violation = True
        return viol, info


def _first_diff(file_values: dict, x: dict, names: list[str]) -> str:
    for n in names:
        if bits(file_values[n]) != bits(x[n]):
            return f'parameter {n[:40]!r}: file {file_values[n]!r} ({float(file_values[n]).hex()}) vs evaluated {x[n]!r} ({float(x[n]).hex()})'
    return 'no difference with the current point?'


def check_crash_state(names, pre: bytes | None, crash: bytes | None, x: dict, update_acceptable: bool, foreign: bool = False) -> tuple[list, dict]:
    """State found by the parent after the process was stopped inside evaluation of x."""
    P = parse_iter(crash, names)
    Q = parse_iter(pre, names)
    info = {'file': P['shape']}
    if not P['exists']:
        info['state'] = 'absent' if not Q['exists'] else 'absent-previous-file-lost'
        return [], info
    if not P['ok']:
        info['state'] = 'incomplete'
        return [('C15/iterfile-truncated-before-write',
                 f'the stopped process left an incomplete iteration file ({P["shape"]}, {P.get("size")} bytes); '
                 + ('the previous complete file is destroyed' if Q['ok'] else 'there was no complete file before'))], info
    B = point_bits(P['values'], names)
    if Q['ok'] and B == point_bits(Q['values'], names):
        info['state'] = 'previous'
        return [], info
    if B == point_bits(x, names):
        info['state'] = 'current'
        if foreign:
            return [('C15/iterfile-overwritten-by-evaluation-on-resampled-data',
                     'the stopped process left a complete file holding the point under evaluation, which was not evaluated on the estimation data')], info
        if not update_acceptable:
            return [('C15/iterfile-overwritten-by-worse-point',
                     'the stopped process left a complete file holding the point under evaluation, which is not the best evaluated so far')], info
        return [], info
    info['state'] = 'unrelated'
    return [('C15/crash-leaves-unrelated-complete-file', 'complete file holding neither the previous nor the current point')], info


# ---------------------------------------------------------------------------
# self-test of the oracle (run at the start of every check)
# ---------------------------------------------------------------------------
def selftest() -> list[str]:
    bad = []
    names = ['a', 'a b', 'β']
    good = 'a = 1.5\na b = -0.0\nβ = 1e+308\n'.encode()
    P = parse_iter(good, names)
    if not P['ok'] or bits(P['values']['a b']) != bits(-0.0) or P['values']['β'] != 1e308:
        bad.append('reader rejects / misreads a sound file')
    for content, shape in [(b'', 'empty'), (good[:-1], 'unterminated-last-line'), (good[:8], 'missing-parameter-line'),
                           (good + b'a = 2\n', 'duplicate-parameter-line'), (b'a = 1.5\na b = x\n\xce\xb2 = 1\n', 'unparsable-value'),
                           (b'a = 1.5\nzz = 1\n', 'line-without-parameter-name'), (None, 'absent'), (b'\xff\n', 'not-utf8')]:
        got = parse_iter(content, names)['shape']
        if got != shape:
            bad.append(f'reader says {got} for a {shape} file')

    def run(seq, tamper=None):
        """seq: list of (x, f, finite); a correct writer is simulated unless tampered"""
        sc = Scope(['a'])
        cur = None
        best = None
        mechs = []
        for k, (xv, f, fin) in enumerate(seq):
            pre = cur
            cand = fin and not math.isnan(f)
            if cand and (best is None or f >= best):
                best = f
                cur = f'a = {xv!r}\n'.encode()
            if tamper:
                cur = tamper(k, xv, f, pre, cur)
            v, _ = sc.step({'a': xv}, f, fin, pre, cur)
            mechs += [m for m, _ in v]
        return mechs

    seq = [(1.0, -10.0, True), (2.0, -5.0, True), (3.0, -7.0, True), (4.0, float('nan'), True), (5.0, -1.0, False), (6.0, -5.0, True), (0.1 + 0.2, -4.0, True)]
    if run(seq):
        bad.append(f'history checker fires on a correct writer: {run(seq)}')
    if run(seq, lambda k, xv, f, pre, cur: f'a = {xv!r}\n'.encode() if k == 2 else cur) != ['C15/iterfile-overwritten-by-worse-point']:
        bad.append('history checker misses an overwrite by a worse point')
    if 'C15/iterfile-not-updated-by-better-point' not in run(seq, lambda k, xv, f, pre, cur: pre if k == 1 else cur):
        bad.append('history checker misses a missing update')
    if 'C15/iterfile-values-not-an-evaluated-point' not in run(seq, lambda k, xv, f, pre, cur: b'a = 0.3\n' if k == 6 else cur):
        bad.append('history checker misses a rounded value')
    if 'C15/iterfile-missing-after-best-evaluation' not in run(seq, lambda k, xv, f, pre, cur: None if k == 0 else cur):
        bad.append('history checker misses a missing file')
    if 'C15/iterfile-holds-point-with-nonfinite-derivatives' not in run(seq, lambda k, xv, f, pre, cur: b'a = 5.0\n' if k == 4 else cur):
        bad.append('history checker misses a saved non-finite point')
    tricky = ['x', 'x ', 'x = 1', '#x', ' = ']
    content = 'x = 1.0\nx  = 2.0\nx = 1 = 3.0\n#x = 4.0\n =  = 5.0\n'.encode()
    P = parse_iter(content, tricky)
    if not P['ok'] or [P['values'][n] for n in tricky] != [1.0, 2.0, 3.0, 4.0, 5.0]:
        bad.append(f'reader misreads names containing blanks / "=" / "#": {P}')
    v, _ = check_crash_state(['a'], b'a = 1.0\n', b'', {'a': 2.0}, True)
    if [m for m, _ in v] != ['C15/iterfile-truncated-before-write']:
        bad.append('crash checker accepts an empty file')
    for st in (None, b'a = 1.0\n', b'a = 2.0\n'):
        v, _ = check_crash_state(['a'], b'a = 1.0\n', st, {'a': 2.0}, True)
        if v:
            bad.append(f'crash checker rejects an acceptable state {st!r}')
    return bad
