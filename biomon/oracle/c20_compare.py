"""C20 oracle pieces that do not depend on the code under test.

* ``normalise``: canonical, JSON-able, address-free rendering of an arbitrary
  Python value (result of a call, state of a receiver after the call) so that
  two executions can be compared structurally;
* ``diff``: numeric-aware deep comparison of two normalised values, returns the
  list of paths that differ;
* ``name_rule``: "the replacement is the one whose documented purpose matches
  the old name" decided on names (normalised-name equality, else similarity);
* ``scrub``: removal of wall-clock material from strings.
"""
from __future__ import annotations

import datetime as _dt
import difflib
import math
import re

_TS = [
    re.compile(r'\d{4}-\d\d-\d\d[ T]\d\d:\d\d:\d\d(\.\d+)?'),
    re.compile(r'\b\d{1,2}:\d\d:\d\d(\.\d+)?\b'),
    re.compile(r'\b0x[0-9a-fA-F]{6,}\b'),
]


def scrub(s: str) -> str:
    for r in _TS:
        s = r.sub('<T>', s)
    return s


def normalise(x, _memo=None, _depth=0):
    """address-free canonical form. Objects are rendered by class name and the
    normal form of their ``__dict__`` / ``__slots__``; cycles and shared
    references become back-references numbered in order of first visit."""
    import numpy as np
    import pandas as pd

    if _memo is None:
        _memo = {}
    if _depth > 40:
        return {'~deep': type(x).__name__}
    if x is None or isinstance(x, (bool, int)):
        return x
    if isinstance(x, str):
        return scrub(x)
    if isinstance(x, bytes):
        return {'~bytes': scrub(x.decode('latin1'))}
    if isinstance(x, float):
        return x if math.isfinite(x) else {'~float': repr(x)}
    if isinstance(x, complex):
        return {'~complex': [x.real, x.imag]}
    if isinstance(x, np.generic):
        return normalise(x.item(), _memo, _depth + 1)
    if isinstance(x, (_dt.datetime, _dt.date, _dt.time, _dt.timedelta)):
        return {'~time': type(x).__name__}
    if isinstance(x, np.ndarray):
        if x.dtype == object:
            return {'~ndarray': list(x.shape), 'v': [normalise(v, _memo, _depth + 1) for v in x.ravel().tolist()]}
        return {'~ndarray': list(x.shape), 'dtype': str(x.dtype), 'v': [normalise(v, _memo, _depth + 1) for v in x.ravel().tolist()]}
    if isinstance(x, pd.DataFrame):
        return {
            '~DataFrame': [str(c) for c in x.columns],
            'index': normalise(list(x.index), _memo, _depth + 1),
            'dtypes': [str(t) for t in x.dtypes],
            'v': [normalise(x[c].tolist(), _memo, _depth + 1) for c in x.columns],
        }
    if isinstance(x, pd.Series):
        return {'~Series': str(x.name), 'index': normalise(list(x.index), _memo, _depth + 1), 'dtype': str(x.dtype),
                'v': normalise(x.tolist(), _memo, _depth + 1)}
    if isinstance(x, pd.Index):
        return {'~Index': normalise(list(x), _memo, _depth + 1)}
    if isinstance(x, (list, tuple)):
        tag = '~tuple' if isinstance(x, tuple) else None
        body = [normalise(v, _memo, _depth + 1) for v in x]
        if tag and hasattr(x, '_fields'):
            return {'~namedtuple': type(x).__name__, 'f': list(x._fields), 'v': body}
        return {tag: body} if tag else body
    if isinstance(x, (set, frozenset)):
        body = [normalise(v, _memo, _depth + 1) for v in x]
        return {'~set': sorted(body, key=lambda v: repr(v))}
    if isinstance(x, dict):
        items = [(normalise(k, _memo, _depth + 1), normalise(v, _memo, _depth + 1)) for k, v in x.items()]
        # dict order is part of the observable result for some functions, but not of equality: keep order-free
        return {'~dict': sorted(([k, v] for k, v in items), key=lambda kv: repr(kv[0]))}
    if isinstance(x, type):
        return {'~class': f'{x.__module__}.{x.__qualname__}'}
    if callable(x) and not hasattr(x, '__dict__'):
        return {'~callable': getattr(x, '__qualname__', type(x).__name__)}
    if hasattr(x, '__code__'):
        return {'~function': getattr(x, '__qualname__', '?')}
    if isinstance(x, (range,)):
        return {'~range': [x.start, x.stop, x.step]}
    # generic object
    oid = id(x)
    if oid in _memo:
        return {'~ref': _memo[oid]}
    _memo[oid] = len(_memo)
    cls = type(x)
    out = {'~obj': f'{cls.__module__}.{cls.__qualname__}'}
    d = getattr(x, '__dict__', None)
    if isinstance(d, dict):
        out['d'] = {str(k): normalise(v, _memo, _depth + 1) for k, v in sorted(d.items(), key=lambda kv: str(kv[0]))}
    slots = []
    for c in cls.__mro__:
        s = c.__dict__.get('__slots__', ())
        slots += [s] if isinstance(s, str) else list(s)
    if slots:
        out['s'] = {k: normalise(getattr(x, k), _memo, _depth + 1) for k in sorted(set(slots)) if hasattr(x, k)}
    if d is None and not slots:
        if isinstance(x, BaseException):
            out['args'] = normalise(list(x.args), _memo, _depth + 1)
        elif hasattr(x, 'value') and hasattr(x, 'name') and cls.__module__ != 'builtins':  # enum
            out['enum'] = str(getattr(x, 'name'))
    return out


def _isnum(v):
    return isinstance(v, (int, float)) and not isinstance(v, bool)


def diff(a, b, rtol=1e-10, atol=1e-13, path='', out=None, limit=12):
    """paths at which two normalised values differ (numbers: |a-b|<=atol+rtol|b|)."""
    if out is None:
        out = []
    if len(out) >= limit:
        return out
    if _isnum(a) and _isnum(b):
        if a == b:
            return out
        if isinstance(a, float) or isinstance(b, float):
            if abs(a - b) <= atol + rtol * max(abs(a), abs(b)):
                return out
        out.append(f'{path}: {a!r} != {b!r}')
        return out
    if type(a) is not type(b):
        out.append(f'{path}: {_short(a)} != {_short(b)}')
        return out
    if isinstance(a, dict):
        ka, kb = set(a), set(b)
        for k in sorted(ka ^ kb):
            out.append(f'{path}/{k}: only in {"first" if k in ka else "second"}')
        for k in sorted(ka & kb):
            diff(a[k], b[k], rtol, atol, f'{path}/{k}', out, limit)
        return out
    if isinstance(a, list):
        if len(a) != len(b):
            out.append(f'{path}: length {len(a)} != {len(b)}')
            return out
        for i, (x, y) in enumerate(zip(a, b)):
            diff(x, y, rtol, atol, f'{path}[{i}]', out, limit)
        return out
    if a != b:
        out.append(f'{path}: {_short(a)} != {_short(b)}')
    return out


def _short(v):
    s = repr(v)
    return s if len(s) < 160 else s[:157] + '...'


# ---------------------------------------------------------------------------
# "documented purpose matches the old name"
# ---------------------------------------------------------------------------

def norm_name(n: str) -> str:
    return n.replace('_', '').lower()


def _common_prefix(a, b):
    k = 0
    for x, y in zip(a, b):
        if x != y:
            break
        k += 1
    return k


def name_score(old: str, cand: str):
    """(normalised equality, common-prefix length, difflib ratio) -- larger is a better match"""
    a, b = norm_name(old), norm_name(cand)
    return (1 if a == b else 0, _common_prefix(a, b), round(difflib.SequenceMatcher(None, a, b).ratio(), 6))


def name_rule(old: str, declared: str, candidates):
    """``candidates``: the public functions (function aliases) or methods (method
    aliases) of the same namespace; classes are not candidates.
    Return (accepted, better) where ``better`` lists the public callables of the
    same namespace that match the old name strictly better than the declared
    replacement (ties allowed -> accepted)."""
    sd = name_score(old, declared)
    if sd[0] == 1:
        return True, []
    better = []
    for c in candidates:
        if c == declared or c == old:
            continue
        sc = name_score(old, c)
        if sc[0] == 1 or (sc[1] > sd[1] and sc[2] >= sd[2]) or (sc[1] >= sd[1] and sc[2] > sd[2]):
            better.append(c)
    better.sort(key=lambda c: name_score(old, c), reverse=True)
    return (not better), better


def selftest():
    """guards of the comparison machinery itself"""
    import numpy as np
    import pandas as pd

    bad = []

    class A:
        def __init__(self):
            self.x = [1, 2.0, np.arange(3.0)]
            self.me = self

    a, b = A(), A()
    if diff(normalise(a), normalise(b)):
        bad.append('normalise/diff: equal objects reported different')
    b.x[2][1] = 1.0000001
    if not diff(normalise(a), normalise(b)):
        bad.append('normalise/diff: 1e-7 relative change in an array not reported')
    b.x[2][1] = 1.0 + 1e-14
    if diff(normalise(a), normalise(b)):
        bad.append('normalise/diff: 1e-14 change reported')
    d1 = pd.DataFrame({'a': [1, 2], 'b': [0.5, 1.5]})
    d2 = d1.copy()
    if diff(normalise(d1), normalise(d2)):
        bad.append('frames equal but reported different')
    d2.loc[1, 'b'] = 2.5
    if not diff(normalise(d1), normalise(d2)):
        bad.append('frame change not reported')
    if diff(normalise({'k': {1, 2, 3}}), normalise({'k': {3, 2, 1}})):
        bad.append('set order matters')
    if not diff(normalise((1, 2)), normalise([1, 2])):
        bad.append('tuple vs list not distinguished')
    if not diff(normalise(float('nan')), normalise(0.0)):
        bad.append('nan vs 0 not distinguished')
    if diff(normalise(float('nan')), normalise(float('nan'))):
        bad.append('nan vs nan distinguished')
    if scrub('at 2024-06-17 20:50:19.123 took 0:00:01.5 <x at 0x7f00deadbeef>') != 'at <T> took <T> <x at <T>>':
        bad.append('scrub: ' + scrub('at 2024-06-17 20:50:19.123 took 0:00:01.5 <x at 0x7f00deadbeef>'))
    # name rule: the three documented situations
    cands = ['cnl', 'logcnl', 'cnlmu', 'logcnlmu', 'get_mev_for_cross_nested', 'get_mev_for_cross_nested_mu']
    if name_rule('getMevForCrossNested', 'get_mev_for_cross_nested', cands) != (True, []):
        bad.append('name rule rejects a pure re-spelling')
    if not name_rule('cnl_avail', 'cnl', cands)[0]:
        bad.append('name rule rejects cnl_avail -> cnl: ' + repr(name_rule('cnl_avail', 'cnl', cands)))
    ok, better = name_rule('logcnl_avail', 'cnl', cands)
    if ok or not better or better[0] != 'logcnl':
        bad.append('name rule does not single out logcnl for logcnl_avail: ' + repr((ok, better)))
    if not name_rule('segment_parameter', 'segmented_beta', ['segmented_beta', 'verify_segmentation', 'generate_segmentation'])[0]:
        bad.append('name rule rejects segment_parameter -> segmented_beta')
    if name_rule('getValue_c', 'get_value', ['get_value', 'get_value_c', 'get_value_and_derivatives'])[0]:
        bad.append('name rule accepts getValue_c -> get_value although get_value_c exists')
    return bad
