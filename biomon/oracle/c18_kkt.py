"""C18 oracle — the MDCEV consumer problem written independently of biogeme.

Everything here works on plain numbers taken from the *generator's*
specification (never from biogeme objects):

    goods[label] = {'alpha', 'gamma' (None = outside good), 'price', 'V', 'm', 'eps'}

with V the baseline utility of the row, m the "mu" utility of the row
(non-monotonic variant only), eps the *unscaled* error draw; `scale` divides
eps.  The four direct utility functions are those of the technical report
"Estimating the MDCEV model with Biogeme" (x = expenditure, p = price,
psi = exp(V + eps/scale)):

  translated      U = psi (x+g)^a                         outside: psi x^a
  generalized     U = psi g/a ((1+x/(p g))^a - 1)         outside: psi/a (x/p)^a
  gamma_profile   U = psi g log(1+x/(p g))                outside: psi log(x/p)
  non_monotonic   U = g e^V/a ((1+x/g)^a - 1) + (m+e) x   outside: e^V x^a/a + (m+e) x

All are strictly concave for 0<a<1, g>0, so the budget-constrained optimum is
unique and characterised by the KKT conditions; `solve` finds it by bisection
on the multiplier in a transformed variable (no code shared with biogeme).
"""
from __future__ import annotations

import math

import numpy as np

VARIANTS = ('translated', 'generalized', 'gamma_profile', 'non_monotonic')
HAS_PRICE = {'translated': False, 'generalized': True, 'gamma_profile': True, 'non_monotonic': False}
HAS_ALPHA = {'translated': True, 'generalized': True, 'gamma_profile': False, 'non_monotonic': True}


class Good:
    __slots__ = ('variant', 'a', 'g', 'p', 'V', 'm', 'e', 'logpsi')

    def __init__(self, variant, alpha, gamma, price, V, m, eps, scale):
        self.variant = variant
        self.a = alpha
        self.g = gamma  # None -> outside good
        self.p = 1.0 if price is None else price
        self.V = V
        e = eps if scale is None else eps / scale
        self.e = e
        self.m = (m or 0.0) + e  # linear term of the non-monotonic variant
        self.logpsi = V if variant == 'non_monotonic' else V + e

    # ---- utility (accepts complex x for complex-step differentiation) ----
    def U(self, x):
        v, a, g, p = self.variant, self.a, self.g, self.p
        psi = np.exp(self.logpsi)
        if v == 'translated':
            if g is None:
                return psi * x**a if x != 0 else 0.0
            return psi * (x + g) ** a
        if v == 'generalized':
            if g is None:
                return psi / a * (x / p) ** a
            return psi * g / a * ((1 + x / (p * g)) ** a - 1)
        if v == 'gamma_profile':
            if g is None:
                return psi * np.log(x / p)
            return psi * g * np.log(1 + x / (p * g))
        if v == 'non_monotonic':
            if g is None:
                return psi * x**a / a + self.m * x
            return g * psi / a * ((1 + x / g) ** a - 1) + self.m * x
        raise ValueError(v)

    # ---- marginal utility -------------------------------------------------
    def dU(self, x):
        v, a, g, p = self.variant, self.a, self.g, self.p
        if g is None and x == 0:
            return math.inf
        with np.errstate(all='ignore'):
            if v == 'translated':
                return float(np.exp(self.logpsi + math.log(a) + (a - 1) * math.log(x + (g or 0.0))))
            if v == 'generalized':
                base = x / p if g is None else 1 + x / (p * g)
                return float(np.exp(self.logpsi + (a - 1) * math.log(base)) / p)
            if v == 'gamma_profile':
                if g is None:
                    return float(np.exp(self.logpsi) / x)
                return float(np.exp(self.logpsi) * g / (x + p * g))
            if v == 'non_monotonic':
                base = x if g is None else 1 + x / g
                return float(np.exp(self.logpsi + (a - 1) * math.log(base)) + self.m)
        raise ValueError(v)

    def w0(self):
        """marginal utility at zero consumption"""
        return self.dU(0.0)

    # ---- inverse of the marginal utility ----------------------------------
    def floor(self):
        """infimum of the marginal utility (multiplier must stay above it)"""
        return self.m if self.variant == 'non_monotonic' else 0.0

    def inv(self, lam=None, *, L=None, t=None):
        """consumption at which dU = lam (may be negative: below w0).
        Either lam, or lam = L + exp(t) given as (L, t) to keep precision."""
        v, a, g, p = self.variant, self.a, self.g, self.p
        if lam is not None:
            d = lam - self.floor()
            if d <= 0:
                return math.inf
            logd = math.log(d)
        else:
            off = L - self.floor()  # >= 0
            if off == 0:
                logd = t
            else:
                d = off + math.exp(min(t, 700.0))
                logd = math.log(d)
        if v == 'gamma_profile':
            z = self.logpsi - logd  # log(psi/lam)
            ez = math.exp(min(z, 700.0))
            return ez if g is None else g * ez - p * g
        if v == 'translated':
            z = (logd - self.logpsi - math.log(a)) / (a - 1)
            ez = math.exp(min(z, 700.0))
            return ez - (g or 0.0)
        if v == 'generalized':
            z = (math.log(p) + logd - self.logpsi) / (a - 1)
            if g is None:
                return p * math.exp(min(z, 700.0))
            return p * g * math.expm1(min(z, 700.0))
        if v == 'non_monotonic':
            z = (logd - self.logpsi) / (a - 1)
            if g is None:
                return math.exp(min(z, 700.0))
            return g * math.expm1(min(z, 700.0))
        raise ValueError(v)


def goods_of(spec, row, eps_by_label):
    """Good objects of one (row, draw) from the generator's specification."""
    out = {}
    for lab in spec['labels']:
        k = str(lab)
        out[lab] = Good(
            spec['variant'],
            spec['alpha'].get(k) if spec.get('alpha') else None,
            spec['gamma'][k],
            spec['price'][k] if spec.get('price') else None,
            linear_value(spec['V'][k], spec['data'], row),
            linear_value(spec['mu'][k], spec['data'], row) if spec.get('mu') else None,
            float(eps_by_label[k]),
            spec.get('scale'),
        )
    return out


def linear_value(lin, data, row):
    """cte + sum coef*column (+ optional product term) on one row"""
    v = lin['cte']
    for col, b in lin['coef']:
        v += b * data[col][row]
    for col1, col2, b in lin.get('prod', []):
        v += b * data[col1][row] * data[col2][row]
    return float(v)


def total_demand(goods, L, t):
    s = 0.0
    xs = {}
    for lab, gd in goods.items():
        x = gd.inv(L=L, t=t)
        x = x if x > 0 else 0.0
        xs[lab] = x
        s += x
    return s, xs


def solve(goods, budget):
    """Unique optimum of max sum U_k(x_k) s.t. sum x_k = budget, x >= 0.
    Returns (x by label, multiplier)."""
    L = max(gd.floor() for gd in goods.values())
    has_out = any(gd.g is None for gd in goods.values())
    lo = -740.0
    if has_out:
        hi = 700.0
    else:
        wmax = max(gd.w0() for gd in goods.values())
        hi = math.log(wmax - L) if wmax > L else -740.0
        hi = hi + 1e-9 * abs(hi) + 1e-12
    s_lo, _ = total_demand(goods, L, lo)
    s_hi, _ = total_demand(goods, L, hi)
    if not (s_lo >= budget >= s_hi):
        raise ArithmeticError(f'no bracket: demand {s_lo} at t={lo}, {s_hi} at t={hi}, budget {budget}')
    for _ in range(200):
        mid = 0.5 * (lo + hi)
        if mid == lo or mid == hi:
            break
        s, _ = total_demand(goods, L, mid)
        if s > budget:
            lo = mid
        else:
            hi = mid
    t = 0.5 * (lo + hi)
    s, xs = total_demand(goods, L, t)
    # distribute the rounding residual proportionally over the consumed goods
    if s > 0:
        f = budget / s
        xs = {k: v * f for k, v in xs.items()}
    return xs, L + math.exp(t)


def total_utility(goods, xs):
    with np.errstate(all='ignore'):
        return float(sum(np.real(goods[lab].U(float(xs[lab]))) for lab in goods))


def kkt_report(goods, xs, budget, zero_tol=1e-9):
    """KKT residuals of a candidate solution, judged with the oracle's own
    marginal utilities.  Returns a dict of measured quantities."""
    n = len(goods)
    tot = sum(xs.values())
    cons = [lab for lab in goods if xs[lab] > zero_tol * max(budget, 1e-300)]
    mus = {lab: goods[lab].dU(max(float(xs[lab]), 0.0)) for lab in cons}
    rep = {'sum': tot, 'consumed': cons, 'mu': mus, 'min_x': min(xs.values()) if n else 0.0}
    if cons:
        lam_hi = max(mus.values())
        lam_lo = min(mus.values())
        rep['lam_lo'], rep['lam_hi'] = lam_lo, lam_hi
        rep['w0_nonconsumed'] = {lab: goods[lab].w0() for lab in goods if lab not in cons}
    return rep


def mu_scale(goods, xs):
    """magnitude against which marginal utilities are compared: for the
    non-monotonic variant the multiplier may be near zero or negative while its
    two terms are O(1), so the scale is the sum of the absolute terms."""
    s = 0.0
    for lab, gd in goods.items():
        x = max(float(xs.get(lab, 0.0)), 0.0)
        if gd.g is None and x == 0:
            continue
        d = gd.dU(x)
        if gd.variant == 'non_monotonic':
            d = abs(d - gd.m) + abs(gd.m)
        s = max(s, abs(d))
    return s


# ---------------------------------------------------------------------------
def selftest():
    """the oracle guards itself: dU against complex-step of U, inv against dU,
    solve against KKT and against scipy SLSQP / a random feasible search."""
    import random

    from scipy.optimize import minimize

    bad = []
    rnd = random.Random(20241)
    ncmp = 0
    for trial in range(60):
        variant = VARIANTS[trial % 4]
        n = rnd.randint(2, 6)
        out = rnd.randrange(n) if rnd.random() < 0.5 else None
        scale = rnd.choice([None, rnd.uniform(0.3, 4.0)])
        goods = {}
        for k in range(n):
            goods[k] = Good(
                variant,
                rnd.uniform(0.1, 0.9),
                None if k == out else rnd.uniform(0.2, 5.0),
                rnd.uniform(0.3, 3.0) if HAS_PRICE[variant] else None,
                rnd.uniform(-2, 2),
                rnd.uniform(-1.5, 1.5) if variant == 'non_monotonic' else None,
                float(-math.log(-math.log(rnd.uniform(1e-6, 1 - 1e-6)))),
                scale,
            )
        budget = 10 ** rnd.uniform(-2, 3)
        # derivative and inverse
        for gd in goods.values():
            for x in (0.013, 0.9, 7.0, 130.0):
                h = 1e-30
                cs = float(np.imag(gd.U(complex(x, h))) / h)
                d = gd.dU(x)
                if abs(cs - d) > 1e-10 * (abs(d) + abs(gd.m)):
                    bad.append(f'{variant}: dU {d} != complex-step {cs} at x={x}')
                xi = gd.inv(d)
                if abs(xi - x) > 1e-8 * (x + (gd.g or 0.0) * gd.p):
                    bad.append(f'{variant}: inv(dU(x))={xi} != x={x}')
                ncmp += 2
        try:
            xs, lam = solve(goods, budget)
        except ArithmeticError as e:
            bad.append(f'{variant}: solve failed {e}')
            continue
        if abs(sum(xs.values()) - budget) > 1e-10 * budget or min(xs.values()) < 0:
            bad.append(f'{variant}: solve not feasible')
        sc = mu_scale(goods, xs)
        for lab, gd in goods.items():
            if xs[lab] > 0:
                if abs(gd.dU(xs[lab]) - lam) > 1e-8 * sc:
                    bad.append(f'{variant}: solve: marginal utility of consumed good {gd.dU(xs[lab])} != {lam}')
            elif gd.w0() > lam + 1e-8 * sc:
                bad.append(f'{variant}: solve: unconsumed good has w0 {gd.w0()} > {lam}')
        if out is not None and not xs[out] > 0:
            bad.append(f'{variant}: solve: outside good not consumed')
        ustar = total_utility(goods, xs)
        # (i) random feasible points never beat it
        for _ in range(30):
            w = [rnd.expovariate(1.0) for _ in range(n)]
            if rnd.random() < 0.5:
                for k in range(n):
                    if k != out and rnd.random() < 0.4:
                        w[k] = 0.0
            if sum(w) == 0:
                continue
            y = {k: budget * w[k] / sum(w) for k in range(n)}
            if out is not None and y[out] == 0:
                continue
            # mixture with the optimum: local optimality is probed too
            th = rnd.choice([1.0, 0.1, 1e-3])
            y = {k: th * y[k] + (1 - th) * xs[k] for k in range(n)}
            uy = total_utility(goods, y)
            ncmp += 1
            if uy > ustar + 1e-9 * (abs(ustar) + 1):
                bad.append(f'{variant}: a feasible point beats the oracle optimum ({uy} > {ustar})')
                break
        # (ii) an off-the-shelf optimiser does not beat it either
        if trial < 24:
            lb = [1e-9 * budget if k == out else 0.0 for k in range(n)]
            try:
                with np.errstate(all='ignore'):
                    r = minimize(
                        lambda z: -total_utility(goods, {k: max(z[k], lb[k]) for k in range(n)}),
                        np.full(n, budget / n),
                        method='SLSQP',
                        bounds=[(lb[k], budget) for k in range(n)],
                        constraints=[{'type': 'eq', 'fun': lambda z: z.sum() - budget}],
                    )
                z = {k: max(float(r.x[k]), lb[k]) for k in range(n)}
                over = max(0.0, sum(z.values()) - budget)
                uz = total_utility(goods, z)
                ncmp += 1
                if uz > ustar + abs(lam) * over + 1e-7 * (abs(ustar) + 1):
                    bad.append(f'{variant}: SLSQP beats the oracle optimum ({uz} > {ustar})')
            except Exception:  # noqa
                pass
    if ncmp < 1000:
        bad.append(f'oracle self-test made only {ncmp} comparisons')
    return bad
