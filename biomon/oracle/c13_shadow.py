"""C13 — plain-Python model of a data table and of what each Database operation must do to it.

Nothing in here imports biogeme, and pandas objects are only *read* (``snap``):
all decisions are taken on lists / tuples / Counters so that the oracle shares
no mechanism (index alignment, label based selection, groupby, sort) with the
code it judges.

Snapshot format (``snap``): {'labels': [index labels], 'cols': [column names],
'rows': [tuple of floats per row]}.  A *row key* is (label, values...): two rows are
"the same row" when label and all values coincide; comparisons are made on
multisets of row keys so that duplicated rows are handled exactly.
"""
from __future__ import annotations

import math
from collections import Counter

MISSING = None  # cell of a flattened panel for which the individual has no observation


# --------------------------------------------------------------------------
# reading real objects


def _num(x):
    """python float (NaN canonicalised to the string 'nan' so that it is hashable and self-equal)"""
    try:
        f = float(x)
    except (TypeError, ValueError):
        return repr(x)
    if math.isnan(f):
        return 'nan'
    return f


def _label(x):
    try:
        import numpy as np

        if isinstance(x, np.generic):
            x = x.item()
    except Exception:
        pass
    if isinstance(x, float) and x.is_integer():
        return int(x)
    if isinstance(x, (int, float, str, bool)) or x is None:
        return x
    if isinstance(x, tuple):
        return tuple(_label(y) for y in x)
    return repr(x)


def snap(df) -> dict:
    """immutable copy of a pandas frame (labels, column names, rows of floats)"""
    cols = [c for c in df.columns]
    arr = df.to_numpy()
    rows = [tuple(_num(v) for v in r) for r in arr.tolist()]
    return {'labels': [_label(x) for x in df.index.tolist()], 'cols': cols, 'rows': rows}


def keys_of(s: dict, labels=True) -> list:
    if not labels:
        return [tuple(r) for r in s['rows']]
    return [(lab,) + tuple(r) for lab, r in zip(s['labels'], s['rows'])]


def same(a: dict, b: dict) -> bool:
    return a['cols'] == b['cols'] and a['labels'] == b['labels'] and a['rows'] == b['rows']


def same_rows(a: dict, b: dict) -> bool:
    """same columns, same rows in the same order; index labels are NOT part of the property
    (an operation may renumber the index, as panel() and remove() on panel data do)"""
    return a['cols'] == b['cols'] and a['rows'] == b['rows']


def diff(a: dict, b: dict) -> str:
    """human-readable first difference between two snapshots (a = observed, b = expected)"""
    if a['cols'] != b['cols']:
        return f'columns observed {a["cols"]} expected {b["cols"]}'
    if len(a['rows']) != len(b['rows']):
        return f'{len(a["rows"])} rows observed, {len(b["rows"])} expected; labels observed {a["labels"][:12]} expected {b["labels"][:12]}'
    for i, (x, y) in enumerate(zip(a['rows'], b['rows'])):
        if x != y:
            bad = [c for c, u, v in zip(a['cols'], x, y) if u != v]
            return f'row at position {i} (label {a["labels"][i]}): observed {x} expected {y} (columns {bad})'
    if a['labels'] != b['labels']:
        return f'only index labels differ: observed {a["labels"][:12]} expected {b["labels"][:12]}'
    return 'no difference'


def column(s: dict, name) -> list:
    j = s['cols'].index(name)
    return [r[j] for r in s['rows']]


def has_duplicate_labels(s: dict) -> bool:
    return len(set(s['labels'])) != len(s['labels'])


def is_subsequence(sub: list, full: list) -> bool:
    it = iter(full)
    return all(any(x == y for y in it) for x in sub)


# --------------------------------------------------------------------------
# what the operations must produce


def after_remove(pre: dict, mask: list) -> dict:
    keep = [i for i, m in enumerate(mask) if not m]
    return {'labels': [pre['labels'][i] for i in keep], 'cols': list(pre['cols']), 'rows': [pre['rows'][i] for i in keep]}


def after_remove_by_label(pre: dict, mask: list) -> dict:
    """what a *label based* deletion produces (model of one specific failure, used only to name it)"""
    gone = {pre['labels'][i] for i, m in enumerate(mask) if m}
    keep = [i for i in range(len(mask)) if pre['labels'][i] not in gone]
    return {'labels': [pre['labels'][i] for i in keep], 'cols': list(pre['cols']), 'rows': [pre['rows'][i] for i in keep]}


def individuals(s: dict, col) -> list:
    """[(id, first position, last position, number of rows, contiguous?)] in order of first appearance"""
    j = s['cols'].index(col)
    first, last, cnt, order = {}, {}, Counter(), []
    for p, r in enumerate(s['rows']):
        v = r[j]
        if v not in first:
            first[v] = p
            order.append(v)
        last[v] = p
        cnt[v] += 1
    return [(v, first[v], last[v], cnt[v], last[v] - first[v] + 1 == cnt[v]) for v in order]


def contiguous(s: dict, col) -> bool:
    return all(x[4] for x in individuals(s, col))


def after_panel(pre: dict, col) -> tuple[dict, list]:
    """rows stably sorted by individual, relabelled 0..n-1; map [(id, first, last)] ascending id"""
    j = pre['cols'].index(col)
    order = sorted(range(len(pre['rows'])), key=lambda i: (pre['rows'][i][j], i))
    post = {'labels': list(range(len(order))), 'cols': list(pre['cols']), 'rows': [pre['rows'][i] for i in order]}
    return post, [(v, a, b) for v, a, b, _, _ in individuals(post, col)]


def pivot(s: dict, col, identical_columns=None):
    """Flattened panel: {id: {column name: value | MISSING}}, set of column names.

    One line per individual; a column constant inside every individual (or declared so)
    appears once under its own name with the value of the individual's first row; any other
    column c appears as '<k>_<c>' for the k-th observation (1-based, table order) of the individual."""
    cols = s['cols']
    j = cols.index(col)
    groups, order = {}, []
    for r in s['rows']:
        if r[j] not in groups:
            groups[r[j]] = []
            order.append(r[j])
        groups[r[j]].append(r)
    if identical_columns is None:
        ident = [c for k, c in enumerate(cols) if all(all(r[k] == g[0][k] for r in g) for g in groups.values())]
    else:
        ident = [c for c in cols if c in set(identical_columns) or c == col]
    varying = [c for c in cols if c not in ident]
    width = max(len(g) for g in groups.values()) if groups else 0
    names = {c for c in ident if c != col}
    if varying:
        names |= {f'{k}_{c}' for k in range(1, width + 1) for c in varying}
    out = {}
    for v in order:
        g = groups[v]
        line = {c: g[0][cols.index(c)] for c in ident if c != col}
        for k in range(1, width + 1):
            for c in varying:
                line[f'{k}_{c}'] = g[k - 1][cols.index(c)] if k <= len(g) else MISSING
        out[v] = line
    return out, names


def read_flat(df):
    """the real flattened frame in the same shape as ``pivot``"""
    names = [str(c) for c in df.columns]
    out = {}
    ids = [_num(x) for x in df.index.tolist()]
    for v, r in zip(ids, df.to_numpy().tolist()):
        line = {}
        for c, x in zip(names, r):
            x = _num(x)
            line[c] = MISSING if x == 'nan' else x
        out.setdefault(v, []).append(line)
    return out, names


# --------------------------------------------------------------------------
# judgements (each returns a list of (mechanism, message))


def judge_split(pre: dict, folds: list, k: int, group_col, notes=None) -> list:
    """folds: [(estimation snapshot, validation snapshot)].  Rows are identified by (label, values); when that
    fails only because the returned frames carry other index labels, the judgement is repeated on values alone."""
    out = _judge_split(pre, folds, k, group_col, True)
    if out and not has_duplicate_labels(pre):
        relaxed = _judge_split(pre, folds, k, group_col, False)
        if not relaxed:
            if notes is not None:
                notes.append('split_frames_relabelled')
            return []
    return out


def _judge_split(pre: dict, folds: list, k: int, group_col, labels) -> list:
    out = []
    if len(folds) != k:
        out.append(('split-number-of-folds', f'{len(folds)} folds returned for slices={k}'))
    table = Counter(keys_of(pre, labels))
    union = Counter()
    for i, (e, v) in enumerate(folds):
        if e['cols'] != pre['cols'] or v['cols'] != pre['cols']:
            out.append(('split-columns-differ', f'fold {i}: columns {e["cols"]} / {v["cols"]} for table columns {pre["cols"]}'))
            continue
        ve, vv = Counter(keys_of(e, labels)), Counter(keys_of(v, labels))
        union += vv
        if ve + vv != table:
            both = sum(((ve + vv) - table).values())
            lost = sum((table - (ve + vv)).values())
            out.append(('split-estimation-not-complement-of-validation',
                        f'fold {i}: estimation ({len(e["rows"])} rows) + validation ({len(v["rows"])} rows) != table ({len(pre["rows"])} rows): '
                        f'{both} row(s) in excess, {lost} row(s) absent'))
    if union != table:
        twice = union - table
        miss = table - union
        unknown = [x for x in union if x not in table]
        if unknown:
            out.append(('split-returns-rows-not-in-table', f'{len(unknown)} validation row(s) do not exist in the table, e.g. {unknown[0]}'))
        elif twice:
            out.append(('split-validation-parts-overlap', f'{sum(twice.values())} row(s) are in more than one validation part, e.g. {next(iter(twice))}'))
        if miss:
            out.append(('split-validation-parts-miss-rows', f'{sum(miss.values())} row(s) are in no validation part, e.g. {next(iter(miss))}'))
    if group_col is not None and group_col in pre['cols']:
        seen = {}
        for i, (e, v) in enumerate(folds):
            if group_col not in v['cols']:
                continue
            for g in set(column(v, group_col)):
                if g in seen and seen[g] != i:
                    out.append(('split-group-separated', f'rows of group {group_col}={g} are in validation parts {seen[g]} and {i}'))
                    break
                seen[g] = i
    return out


def judge_sample(pre: dict, sample: dict, size) -> list:
    out = []
    want = len(pre['rows']) if size is None else size
    if len(sample['rows']) != want:
        out.append(('bootstrap-sample-size', f'{len(sample["rows"])} rows returned, {want} requested'))
    if sample['cols'] != pre['cols']:
        out.append(('bootstrap-columns-differ', f'columns {sample["cols"]} for table columns {pre["cols"]}'))
        return out
    table = set(keys_of(pre))
    alien = [x for x in keys_of(sample) if x not in table]
    if alien:
        values = set(keys_of(pre, False))
        if all(x in values for x in keys_of(sample, False)):
            alien = []  # existing rows under other index labels: labels are not part of the property
    if alien:
        out.append(('bootstrap-row-not-in-table', f'{len(alien)} sampled row(s) do not exist in the table, e.g. {alien[0]}'))
    return out


def judge_individual_sample(pre: dict, col, current_map: list, sample: list, size, notes=None) -> list:
    """current_map / sample: [(id, first, last)].  An individual *exists* when [first, last] are exactly the
    positions of all the rows of one individual of the table (that range is what is handed to the engine).
    The id under which the map lists it is only a name: it differs from the table after the id column itself
    was rescaled, which is noted, not judged."""
    out = []
    truth = {(a, b): v for v, a, b, _, ok in individuals(pre, col) if ok}
    want = len(current_map) if size is None else size
    if len(sample) != want:
        out.append(('bootstrap-individual-sample-size', f'{len(sample)} individuals returned, {want} requested'))
    stale = {(a, b) for _, a, b in current_map} != set(truth)
    bad = [x for x in sample if (x[1], x[2]) not in truth]
    if notes is not None and any((x[1], x[2]) in truth and truth[(x[1], x[2])] != x[0] for x in sample):
        notes.append('bootstrap_individual_listed_under_former_id')
    if bad:
        shown = sorted((v, a, b) for (a, b), v in truth.items())[:8]
        if stale and all(x in set(current_map) for x in bad):
            ids = set(column(pre, col))
            gone = [x for x in bad if x[0] not in ids]
            out.append(('bootstrap-individual-from-out-of-date-map',
                        f'{len(bad)} sampled individual(s) taken from an individual map that no longer describes the table '
                        f'({len(gone)} of them have no row left), e.g. {bad[0]}; table individuals {shown}'))
        else:
            out.append(('bootstrap-individual-not-in-table', f'{len(bad)} sampled individual(s) do not exist, e.g. {bad[0]}; table individuals {shown}'))
    return out


def judge_extract(pre: dict, positions: list, got: dict) -> list:
    want = {'labels': [pre['labels'][p] for p in positions], 'cols': list(pre['cols']), 'rows': [pre['rows'][p] for p in positions]}
    if not same_rows(got, want):
        return [('extract-rows-differ-from-positions', f'positions {positions[:12]}: {diff(got, want)}')]
    return []


def judge_flat(pre: dict, col, identical_columns, flat, flat_names) -> list:
    out = []
    want, names = pivot(pre, col, identical_columns)
    if len(set(flat_names)) != len(flat_names):
        out.append(('flat-panel-columns-differ', f'duplicated column names {flat_names}'))
    if set(flat_names) != names:
        out.append(('flat-panel-columns-differ', f'columns in excess {sorted(set(flat_names) - names)} absent {sorted(names - set(flat_names))}'))
        return out
    if set(flat) != set(want) or any(len(v) != 1 for v in flat.values()):
        out.append(('flat-panel-individuals-differ', f'lines for {sorted(flat, key=str)} expected one line for each of {sorted(want, key=str)}'))
        return out
    for v, line in want.items():
        got = flat[v][0]
        bad = [c for c in line if got.get(c, 'absent') != line[c]]
        if bad:
            c = bad[0]
            out.append(('flat-panel-values-differ', f'individual {v}: column {c} holds {got.get(c)} expected {line[c]} ({len(bad)} cell(s) differ)'))
            break
    return out


# --------------------------------------------------------------------------
# the shadow table (history model)


class Shadow:
    """The table as the sequence of operations *should* have left it."""

    def __init__(self, cols, rows, labels):
        self.cols = list(cols)
        self.rows = [tuple(float(x) for x in r) for r in rows]
        self.labels = list(labels)
        self.rid = list(range(len(self.rows)))  # immutable identity of each original row
        self.panel = None
        self.map = None

    def snapshot(self) -> dict:
        return {'labels': list(self.labels), 'cols': list(self.cols), 'rows': list(self.rows)}

    def n(self):
        return len(self.rows)

    def data(self) -> dict:
        return {c: [r[j] for r in self.rows] for j, c in enumerate(self.cols)}

    def col(self, c):
        j = self.cols.index(c)
        return [r[j] for r in self.rows]

    def remove(self, mask):
        keep = [i for i, m in enumerate(mask) if not m]
        self.rows = [self.rows[i] for i in keep]
        self.labels = [self.labels[i] for i in keep]
        self.rid = [self.rid[i] for i in keep]
        if self.panel is not None:
            # panel data stay organised by individual and the map describes the table that is left
            self.set_panel(self.panel)
        return len(mask) - len(keep)

    def add_column(self, name, values):
        self.cols.append(name)
        self.rows = [r + (float(v),) for r, v in zip(self.rows, values)]

    def scale(self, c, s):
        j = self.cols.index(c)
        self.rows = [r[:j] + (r[j] * s,) + r[j + 1:] for r in self.rows]

    def set_panel(self, c):
        j = self.cols.index(c)
        order = sorted(range(len(self.rows)), key=lambda i: (self.rows[i][j], i))
        self.rows = [self.rows[i] for i in order]
        self.rid = [self.rid[i] for i in order]
        self.labels = list(range(len(order)))
        self.panel = c
        self.map = [(v, a, b) for v, a, b, _, _ in individuals(self.snapshot(), c)]

    def extract(self, positions):
        s = Shadow(self.cols, [self.rows[p] for p in positions], [self.labels[p] for p in positions])
        s.rid = [self.rid[p] for p in positions]
        return s

    def count(self, c, value):
        return sum(1 for v in self.col(c) if v == value)
