"""Independent parser of the signature list biogeme hands to the C++ engine.

decode(signatures, free_values, fixed_values, columns) -> (ast, shared, info)
The AST is in biomon.oracle.evalast format with leaves resolved *by the index
written in the signature* against the vectors actually handed over:
  Beta      -> ['beta', '#free<k>' | '#fixed<k>']      (values from the vectors)
  Variable  -> ['var', columns[variableId]]
so that evaluating it tells what the engine was really asked to compute.
info['problems'] lists structural defects (undefined ids, child after parent,
quoted name != name found at the index ...).
"""
from __future__ import annotations

import re

_HEAD = re.compile(rb'^<([^>]+)>\{(\d+)\}(.*)$', re.S)

_BIN = {
    'Plus': 'add', 'Minus': 'sub', 'Times': 'mul', 'Divide': 'div', 'Power': 'pow', 'bioMin': 'min', 'bioMax': 'max',
    'And': 'and', 'Or': 'or', 'Equal': 'eq', 'NotEqual': 'ne', 'LessOrEqual': 'le', 'GreaterOrEqual': 'ge',
    'Less': 'lt', 'Greater': 'gt',
}
_UN = {
    'UnaryMinus': 'neg', 'exp': 'exp', 'log': 'log', 'logzero': 'logzero', 'sin': 'sin', 'cos': 'cos',
    'bioNormalCdf': 'ncdf', 'MonteCarlo': 'mc', 'PanelLikelihoodTrajectory': 'panel',
}


class SignatureError(Exception):
    pass


def decode(signatures, free_values=None, fixed_values=None, columns=None):
    nodes = {}
    order = []
    refs = {}
    problems = []
    leaves = {'beta': [], 'var': [], 'draws': [], 'rv': []}
    betas = {}

    def ref(i):
        i = int(i)
        if i not in nodes:
            problems.append(f'node {i} referenced before definition')
            raise SignatureError(f'undefined id {i}')
        refs[i] = refs.get(i, 0) + 1
        return ['#', i]

    for raw in signatures:
        m = _HEAD.match(raw)
        if not m:
            raise SignatureError(f'unparsable: {raw!r}')
        cls = m.group(1).decode()
        nid = int(m.group(2))
        rest = m.group(3).decode()
        if cls == 'Numeric':
            node = ['num', float(rest.lstrip(','))]
        elif cls in ('Beta', 'Variable', 'bioDraws', 'RandomVariable'):
            mm = re.match(r'^"(.*)"(?:\[(\d+)\])?,(-?\d+),(-?\d+)$', rest, re.S)
            if not mm:
                raise SignatureError(f'bad leaf: {raw!r}')
            name, status, eidx, lid = mm.group(1), mm.group(2), int(mm.group(3)), int(mm.group(4))
            if cls == 'Beta':
                st = int(status)
                key = f'#free{lid}' if st == 0 else f'#fixed{lid}'
                vec = free_values if st == 0 else fixed_values
                if vec is not None:
                    if not (0 <= lid < len(vec)):
                        problems.append(f'Beta "{name}" index {lid} outside vector of length {len(vec)}')
                    else:
                        betas[key] = float(vec[lid])
                leaves['beta'].append({'name': name, 'status': st, 'elementary': eidx, 'id': lid})
                node = ['beta', key]
            elif cls == 'Variable':
                if columns is not None:
                    if not (0 <= lid < len(columns)):
                        problems.append(f'Variable "{name}" column index {lid} outside frame with {len(columns)} columns')
                        col = name
                    else:
                        col = columns[lid]
                        if col != name:
                            problems.append(f'Variable "{name}" carries column index {lid} which is column "{col}"')
                else:
                    col = name
                leaves['var'].append({'name': name, 'elementary': eidx, 'id': lid})
                node = ['var', col]
            elif cls == 'bioDraws':
                leaves['draws'].append({'name': name, 'elementary': eidx, 'id': lid})
                node = ['draws', f'#draw{lid}', name]
            else:
                leaves['rv'].append({'name': name, 'elementary': eidx, 'id': lid})
                node = ['rv', f'#rv{lid}', name]
        elif cls == 'PowerConstant':
            _, c, e = rest.split(',')
            node = ['powc', ref(c), float(e)]
        elif cls in ('Derive', 'Integrate'):
            _, c, e = rest.split(',')
            node = ['derive' if cls == 'Derive' else 'integrate', ref(c), int(e)]
        else:
            mm = re.match(r'^\((\d+)\)(.*)$', rest, re.S)
            if not mm:
                raise SignatureError(f'bad operator: {raw!r}')
            n = int(mm.group(1))
            args = mm.group(2).split(',')[1:] if mm.group(2) else []
            if cls in _BIN:
                if n != 2 or len(args) != 2:
                    problems.append(f'{cls} with {n} children / {len(args)} ids')
                node = [_BIN[cls], ref(args[0]), ref(args[1])]
            elif cls in _UN:
                if n != 1 or len(args) != 1:
                    problems.append(f'{cls} with {n} children')
                node = [_UN[cls], ref(args[0])]
            elif cls == 'bioMultSum':
                if len(args) != n:
                    problems.append('bioMultSum arity mismatch')
                node = ['multsum', [ref(a) for a in args], 'list']
            elif cls == 'BelongsTo':
                node = ['belongs', ref(args[0]), [float(a) for a in args[1:]]]
                if len(args) - 1 != n:
                    problems.append('BelongsTo arity mismatch')
            elif cls == 'Elem':
                if len(args) != 1 + 2 * n:
                    problems.append('Elem arity mismatch')
                node = ['elem', ref(args[0]), [[int(args[i]), ref(args[i + 1])] for i in range(1, len(args) - 1, 2)]]
            elif cls == 'ConditionalSum':
                if len(args) != 2 * n:
                    problems.append('ConditionalSum arity mismatch')
                node = ['condsum', [[ref(args[i]), ref(args[i + 1])] for i in range(0, len(args) - 1, 2)]]
            elif cls == 'bioLinearUtility':
                if len(args) != 6 * n:
                    problems.append('bioLinearUtility arity mismatch')
                terms = []
                for i in range(0, len(args) - 5, 6):
                    bid, bei, bname, vid, vei, vname = args[i:i + 6]
                    terms.append(['mul', ref(bid), ref(vid)])
                    for j, nm in ((int(bid), bname), (int(vid), vname)):
                        leaf = nodes.get(j)
                        if leaf is not None and leaf[0] == 'var' and columns is not None and leaf[1] != nm:
                            problems.append(f'bioLinearUtility names {nm!r} but node {j} is column {leaf[1]!r}')
                node = ['multsum', terms, 'list']
            elif cls in ('LogLogit', '_bioLogLogit', '_bioLogLogitFullChoiceSet'):
                if len(args) != 1 + 3 * n:
                    problems.append('LogLogit arity mismatch')
                utils, avs = [], []
                for i in range(1, len(args) - 2, 3):
                    utils.append([int(args[i]), ref(args[i + 1])])
                    avs.append([int(args[i]), ref(args[i + 2])])
                node = ['loglogit', utils, avs, ref(args[0]), 'log']
            else:
                raise SignatureError(f'unknown class {cls}')
        if nid in nodes and nodes[nid] != node:
            problems.append(f'id {nid} defined twice with different content')
        nodes[nid] = node
        order.append(nid)
    root = order[-1]
    # turn multiply referenced nodes into shares
    shared_ids = [i for i in order if refs.get(i, 0) > 1 and nodes[i][0] not in ('num', 'beta', 'var')]
    share_index = {i: k for k, i in enumerate(shared_ids)}

    def resolve(x, top=False):
        if isinstance(x, list) and len(x) == 2 and x[0] == '#':
            i = x[1]
            if i in share_index and not top:
                return ['share', share_index[i]]
            return resolve(nodes[i], False) if not top else None
        if isinstance(x, list):
            return [resolve(y) for y in x]
        return x

    def expand(i):
        return [resolve(y) for y in nodes[i]]

    shared = [expand(i) for i in shared_ids]
    ast = expand(root)
    info = {'problems': problems, 'leaves': leaves, 'betas': betas, 'n_nodes': len(order),
            'n_distinct_ids': len(nodes)}
    return ast, shared, info
