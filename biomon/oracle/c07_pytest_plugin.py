"""C07 contracts attached to BIOGEME.estimate / quick_estimate while the repository's OWN tests run
(pytest -p biomon.oracle.c07_pytest_plugin). The tests are only workload; the oracle is the
generic part of the C07 post-condition, which holds for ANY model (concave or not):

  G1 bound-capable algorithm -> estimates inside the declared bounds
  G2 estimate(): final log likelihood >= initial one
  G3 logLike == likelihood recomputed at betaValues on the same object
  G4 estimate(): g, H, bhhh == derivatives recomputed at betaValues on the same object
  G5 afterwards every free Beta object of the formulas holds the estimate, every fixed one its old value
  G6 results.data.convergence is the flag the object recorded

One JSON line per monitored call goes to $C07_CONTRACT_LOG. Conditions only read; the recomputation
calls the public calculate_* functions after the call under test has returned.
"""
from __future__ import annotations

import functools
import json
import os

import numpy as np

BOUND_CAPABLE = {'scipy', 'simple_bounds', 'simple_bounds_newton', 'simple_bounds_BFGS', 'automatic'}


def _all_betas(expr, seen, out):
    from biogeme.expressions import Beta

    if id(expr) in seen:
        return
    seen.add(id(expr))
    if isinstance(expr, Beta):
        out.append(expr)
    for c in expr.get_children():
        _all_betas(c, seen, out)


def _betas_of(bg):
    seen, out = set(), []
    for f in bg.formulas.values():
        _all_betas(f, seen, out)
    return out


def _close(a, b, rtol, atol):
    a = np.asarray(a, dtype=float)
    b = np.asarray(b, dtype=float)
    if a.shape != b.shape:
        return False
    return bool(np.all((np.abs(a - b) <= atol + rtol * np.abs(b)) | (a == b)))


def check_call(bg, mode, before, res, kwargs):
    """returns (number of conditions evaluated, [(mech, msg)])"""
    viol = []
    n = 0
    d = getattr(res, 'data', None)
    if d is None or kwargs.get('recycle'):
        return 0, []  # results read from a pickle: out of scope
    resampled = bool(kwargs.get('run_bootstrap') or kwargs.get('bootstrap'))  # the engine now holds a bootstrap sample
    names = list(d.betaNames)
    x = np.array([float(v) for v in d.betaValues])
    algo = before['algo']
    if not np.all(np.isfinite(x)) or d.logLike is None or not np.isfinite(d.logLike):
        return 1, [('estimates-or-loglike-not-finite', f'betaValues={x.tolist()} logLike={d.logLike!r}')]
    # G1
    if algo in BOUND_CAPABLE:
        n += 1
        for nm, v in zip(names, x):
            lb, ub = before['bounds'].get(nm, (None, None))
            if (lb is not None and v < lb - 1e-9) or (ub is not None and v > ub + 1e-9):
                viol.append(('estimate-outside-declared-bounds', f'{nm}={v!r} not in [{lb},{ub}] ({algo})'))
    # G2
    if mode == 'estimate':
        n += 1
        if d.initLogLike is None:
            viol.append(('initloglike-differs-from-likelihood-at-start', 'initLogLike is None after estimate()'))
        elif d.logLike < d.initLogLike - 1e-9 * max(1.0, abs(d.initLogLike)):
            viol.append(('final-loglike-below-initial', f'logLike={d.logLike!r} < initLogLike={d.initLogLike!r}'))
    # G3
    again = d.logLike if resampled else float(bg.calculate_likelihood(list(x), scaled=False))
    n += 0 if resampled else 1
    if not _close(d.logLike, again, 1e-9, 1e-9):
        viol.append(('loglike-differs-from-recomputed-on-same-object', f'logLike={d.logLike!r} calculate_likelihood(betaValues)={again!r}'))
    # G4
    if mode == 'estimate' and not resampled:
        n += 1
        if d.g is None or d.H is None or d.bhhh is None:
            viol.append(('derivatives-missing-after-estimate', 'g/H/bhhh is None'))
        else:
            fo = bg.calculate_likelihood_and_derivatives(list(x), scaled=False, hessian=True, bhhh=True)
            sc = max(1.0, float(np.abs(fo.gradient).max()))
            if np.all(np.isfinite(fo.hessian)) and not (
                    _close(d.g, fo.gradient, 1e-7, 1e-7 * sc) and _close(d.H, fo.hessian, 1e-7, 1e-7 * max(1.0, float(np.abs(fo.hessian).max())))
                    and _close(d.bhhh, fo.bhhh, 1e-7, 1e-7 * max(1.0, float(np.abs(fo.bhhh).max())))):
                viol.append(('derivatives-differ-from-recomputed-on-same-object', 'g/H/bhhh differ from calculate_likelihood_and_derivatives(betaValues)'))
    # G5
    n += 1
    est = dict(zip(names, x.tolist()))
    stale, touched = [], []
    for b in _betas_of(bg):
        if b.status == 0 and b.name in est and float(b.initValue) != float(est[b.name]):
            stale.append((b.name, b.initValue, est[b.name]))
        if b.status != 0 and b.name in before['fixed'] and float(b.initValue) != float(before['fixed'][b.name]):
            touched.append((b.name, b.initValue, before['fixed'][b.name]))
    if stale:
        viol.append((f'formula-start-values-not-updated-after-{mode}', str(stale[:5])))
    if touched:
        viol.append(('fixed-parameter-changed', str(touched[:5])))
    # G6
    n += 1
    if bool(d.convergence) != bool(bg.convergence):
        viol.append(('results-convergence-flag-differs-from-algorithm', f'results {d.convergence} object {bg.convergence}'))
    return n, viol


def _wrap(fn, mode):
    @functools.wraps(fn)
    def monitored(self, *args, **kwargs):
        before = {'algo': None, 'bounds': {}, 'fixed': {}}
        try:
            before['algo'] = self.optimization_algorithm
            before['bounds'] = {nm: tuple(self.id_manager.bounds[i]) for i, nm in enumerate(self.id_manager.free_betas.names)}
            before['fixed'] = {b.name: b.initValue for b in _betas_of(self) if b.status != 0}
        except Exception:  # noqa
            pass
        res = fn(self, *args, **kwargs)
        log = os.environ.get('C07_CONTRACT_LOG')
        if log:
            line = {'test': os.environ.get('PYTEST_CURRENT_TEST', ''), 'mode': mode, 'algo': before['algo']}
            try:
                line['n'], v = check_call(self, mode, before, res, dict(kwargs, **({'recycle': args[0]} if args else {})))
                line['viol'] = [{'mech': 'C07/' + m, 'msg': f'[repo test {line["test"]}] [{before["algo"]}/{mode}] {msg}'} for m, msg in v]
            except BaseException as e:  # noqa  (an exception in the monitor itself is a harness problem, not a verdict)
                line['monitor_error'] = f'{type(e).__name__}: {e}'
            with open(log, 'a') as f:
                f.write(json.dumps(line, default=repr) + '\n')
        return res

    return monitored


def pytest_configure(config):
    import biogeme.biogeme as bio

    if getattr(bio.BIOGEME, '_c07_contracts', False):
        return
    bio.BIOGEME.estimate = _wrap(bio.BIOGEME.estimate, 'estimate')
    bio.BIOGEME.quick_estimate = _wrap(bio.BIOGEME.quick_estimate, 'quick_estimate')
    bio.BIOGEME._c07_contracts = True
