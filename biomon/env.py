"""Process environment: import path of the code under test, scratch dirs, thread pins.

The code under test is /repo/src (editable install in /venv) unless BIOGEME_SRC
points to another copy (used only to validate monitors on mutated copies).
"""
import os
import sys

VERIF = os.path.dirname(os.path.dirname(os.path.abspath(__file__)))
SRC = os.environ.get('BIOGEME_SRC', '/repo/src')
WORK = os.path.join(VERIF, '.work')
DEPS = os.path.join(VERIF, '.deps')

for _k in ('OMP_NUM_THREADS', 'OPENBLAS_NUM_THREADS', 'MKL_NUM_THREADS'):
    os.environ.setdefault(_k, '1')

if SRC not in sys.path:
    sys.path.insert(0, SRC)
# third-party monitors (icontract, deal) go LAST: .deps ships an older asttokens
if DEPS not in sys.path:
    sys.path.append(DEPS)


def seed() -> int:
    try:
        return int(os.environ.get('VERIF_SEED', '0'))
    except ValueError:
        return 0


def ncpu() -> int:
    try:
        return max(1, int(os.environ.get('VERIF_JOBS', os.cpu_count() or 4)))
    except ValueError:
        return 4


def silence_biogeme_logging():
    import logging

    logging.getLogger('biogeme').setLevel(logging.CRITICAL)
    logging.getLogger().setLevel(logging.CRITICAL)
