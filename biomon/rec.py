"""Per-case recorder: what the monitors saw while one case ran.

A check's ``run_case(case)`` builds one ``Rec`` and returns ``rec.out()``.
Everything in it must be JSON-serialisable (it crosses a pipe).
"""
from __future__ import annotations

import hashlib
import json
import math


def jsonable(x, depth=0):
    """Best-effort conversion to something json.dumps accepts (witnesses)."""
    import numpy as np

    if depth > 60:
        return repr(x)[:200]
    if x is None or isinstance(x, (bool, int, str)):
        return x
    if isinstance(x, float):
        if math.isnan(x) or math.isinf(x):
            return repr(x)
        return x
    if isinstance(x, (np.floating,)):
        return jsonable(float(x))
    if isinstance(x, (np.integer,)):
        return int(x)
    if isinstance(x, (np.bool_,)):
        return bool(x)
    if isinstance(x, np.ndarray):
        return jsonable(x.tolist(), depth + 1)
    if isinstance(x, dict):
        return {str(k): jsonable(v, depth + 1) for k, v in x.items()}
    if isinstance(x, (list, tuple, set, frozenset)):
        return [jsonable(v, depth + 1) for v in x]
    return repr(x)[:400]


def stable_hash(obj) -> str:
    s = json.dumps(jsonable(obj), sort_keys=True, default=repr)
    return hashlib.sha1(s.encode()).hexdigest()[:16]


class Rec:
    def __init__(self, case=None):
        self.case = case
        self.n = 0  # evaluations (oracle comparisons / monitored executions)
        self.keys: set[str] = set()  # distinct non-trivial case keys
        self.viol: list[dict] = []
        self.cov: dict[str, int] = {}
        self.samples: list = []
        self.inconclusive: list[str] = []
        self.info: dict = {}

    # -- counting ---------------------------------------------------------
    def ev(self, k: int = 1):
        self.n += k

    def key(self, obj):
        """Register a distinct non-trivial case (hashed canonical form)."""
        self.keys.add(obj if isinstance(obj, str) and len(obj) == 16 else stable_hash(obj))

    def c(self, name: str, k: int = 1):
        self.cov[name] = self.cov.get(name, 0) + k

    def sample(self, obj):
        if len(self.samples) < 2:
            self.samples.append(jsonable(obj))

    def inconc(self, why: str):
        self.inconclusive.append(why)

    # -- verdicts ---------------------------------------------------------
    def violation(self, mech: str, msg: str, witness=None):
        """mech: structural name of what failed (monitor + shape), used to
        match known findings. Never put random values in it."""
        if len(self.viol) < 50:
            self.viol.append(
                {'mech': mech, 'msg': str(msg)[:1500], 'witness': jsonable(witness)}
            )
        self.c('violations_raw')

    def out(self) -> dict:
        return {
            'n': self.n,
            'keys': sorted(self.keys),
            'viol': self.viol,
            'cov': self.cov,
            'samples': self.samples,
            'inconclusive': self.inconclusive,
            'info': jsonable(self.info),
        }


def close(a, b, rtol=1e-9, atol=1e-11) -> bool:
    """|a-b| <= atol + rtol*|b| elementwise; NaN/inf never close unless equal infs."""
    import numpy as np

    a = np.asarray(a, dtype=float)
    b = np.asarray(b, dtype=float)
    if a.shape != b.shape:
        try:
            a, b = np.broadcast_arrays(a, b)
        except ValueError:
            return False
    with np.errstate(all='ignore'):
        ok = np.abs(a - b) <= atol + rtol * np.abs(b)
        ok = ok | ((a == b))
    return bool(np.all(ok))


def maxrel(a, b, atol=1e-300):
    import numpy as np

    a = np.asarray(a, dtype=float)
    b = np.asarray(b, dtype=float)
    with np.errstate(all='ignore'):
        r = np.abs(a - b) / np.maximum(np.abs(b), atol)
    return float(np.nanmax(r)) if r.size else 0.0
