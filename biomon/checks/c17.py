"""C17 — specification helpers equal their documented closed forms.

Workload: seeded threshold lists / transform parameters / distribution
parameters / segmentations / nest structures (biomon/gen/c17_cases.py) plus a
fixed set of directed shapes. Every helper is called through its public entry
point on the real code, its result is evaluated by the real engine
(`get_value_c` over a table of arguments; the pure-Python `get_value` and the
plain-number function `piecewise_function` as further routes) and compared at
the boundary with closed forms written independently in
biomon/oracle/c17_helpers.py (self-tested against scipy at every run).
"""
from __future__ import annotations

import ast as pyast
import math

import numpy as np

from .. import env  # noqa: F401
from ..rec import Rec

LEVEL = 'exploration'
RULE = (
    'cases = seeded random (a) threshold lists: 2-6 thresholds, first one negative/zero/positive, integer or 3-decimal, '
    'open or closed ends, 400 arguments incl. every threshold, its two float neighbours, +-1e-9 and 0; (b) Box-Cox: 12 '
    'arguments x ~110 parameters (0, log grid 1e-12..1e-4 both signs, the float neighbours of +-1e-5, 0.1..3) given as '
    'column / Beta / float / Numeric; (c) one of 7 distribution helpers with a random parameter set (sigma 1e-3..1e3, '
    'a<c<b arbitrary) given as float / Numeric / fixed or free Beta / data column, value grid + integration grid; (d) '
    'segmentations: 0-3 variables, 1-4 segments, any reference, all segment combinations as rows; (e) nest structures: '
    '3-8 alternatives, 1-3 nests, alone alternatives, nest parameter as float / Numeric / Beta / expression. '
    'non-trivial = at least one helper result was compared with its closed form; distinct = hash of the specification'
)
ASSUMPTIONS = [
    'closed forms of biomon/oracle/c17_helpers.py (numpy, long double for Box-Cox) are the reference; they are '
    'cross-checked against scipy.stats / scipy.special / np.interp at the start of every run',
    'densities are accepted at rtol 1e-8 (the library writes sqrt(2 pi) and log(2 pi)/2 with 10 digits), everything '
    'else at rtol 1e-9..1e-10; integrals (composite Simpson on engine values) at 1e-6',
    'Box-Cox is judged for x > 0 only (x = 0 returns 0 by a convention of the library that the formula does not cover); '
    'points where the documented formula itself loses more than 1e-10 in float64 (x^l - 1 cancellation) are skipped and counted',
    'segmented_code() is executed only for category names that are Python identifiers',
]
MIN_DISTINCT = {'quick': 500, 'thorough': 4000}
CASE_TIMEOUT = 120

N = {
    'quick': {'pw': 210, 'bc': 60, 'dist': 315, 'seg': 100, 'nest': 100},
    'thorough': {'pw': 1500, 'bc': 400, 'dist': 2450, 'seg': 800, 'nest': 800},
}


def cases(seed, tier):
    from ..gen import c17_cases as g

    out = [{'fam': 'directed', 'k': k} for k in range(len(g.directed()))]
    for fam, n in N[tier].items():
        out += [{'fam': fam, 'seed': seed, 'i': i} for i in range(n)]
    return out


def warmup():
    import biogeme.database  # noqa
    import biogeme.expressions  # noqa
    import biogeme.models  # noqa
    import biogeme.distributions  # noqa
    import biogeme.loglikelihood  # noqa
    import biogeme.segmentation  # noqa
    import biogeme.nests  # noqa
    import scipy.stats  # noqa


def selftest():
    from ..oracle import c17_helpers

    return c17_helpers.selftest()


# ---------------------------------------------------------------------------
class Ctx:
    """one case: recorder + de-duplicated violations + guarded calls"""

    def __init__(self, case, spec):
        self.rec = Rec(case)
        self.spec = spec
        self.seen = set()
        self.poisoned = False

    def viol(self, mech, msg, **wit):
        if mech in self.seen:
            self.rec.c('further_witnesses_same_mechanism')
            return
        self.seen.add(mech)
        w = {'spec': self.spec}
        w.update(wit)
        self.rec.violation('C17/' + mech, msg, w)

    def call(self, label, fn, shape=''):
        """run code under test; an exception on a documented-valid input refutes 'evaluates to the formula'"""
        try:
            return True, fn()
        except BaseException as e:  # noqa
            if isinstance(e, RuntimeError):
                self.poisoned = True  # engine sticky error flag: no verdict from later evaluations
            self.viol(f'{label}-raises-{type(e).__name__}{shape}', f'{label} raised {type(e).__name__}: {str(e)[:300]}')
            return False, None

    def cmp(self, mech, obs, ref, rtol, atol, args=None, counter=None):
        """elementwise |obs-ref| <= atol + rtol |ref|; returns the mask of offending points"""
        self.rec.ev()
        obs = np.asarray(obs, dtype=float)
        ref = np.asarray(ref, dtype=float)
        if counter:
            self.rec.c(counter)
        self.rec.c('points_compared', int(ref.size))
        if obs.shape != ref.shape:
            self.viol(mech + '-shape', f'result has shape {obs.shape}, expected {ref.shape}')
            return np.ones(ref.shape, dtype=bool)
        with np.errstate(all='ignore'):
            ok = (np.abs(obs - ref) <= atol + rtol * np.abs(ref)) | (obs == ref)
        bad = ~ok
        if mech is not None and bad.any():
            self.report(mech, bad, obs, ref, args)
        return bad

    def report(self, mech, bad, obs, ref, args=None):
        obs = np.atleast_1d(np.asarray(obs, dtype=float))
        ref = np.atleast_1d(np.asarray(ref, dtype=float))
        idx = np.flatnonzero(np.atleast_1d(bad))[:5]
        pts = []
        for j in idx:
            p = {'observed': float(obs[j]), 'closed_form': float(ref[j])}
            if args is not None:
                p['at'] = {k: (float(np.atleast_1d(v)[j]) if np.size(v) > 1 else float(np.atleast_1d(v)[0])) for k, v in args.items()}
            pts.append(p)
        self.viol(mech, f'{int(np.sum(bad))} of {ref.size} points differ from the closed form; first: {pts[:2]}', points=pts)


def _database(cols):
    import pandas as pd
    import biogeme.database as bdb

    return bdb.Database('c17', pd.DataFrame({k: np.asarray(v, dtype=float) for k, v in cols.items()}))


def _ev(expr, db=None, betas=None):
    v = expr.get_value_c(database=db, betas=betas if betas else None, prepare_ids=True)
    return np.asarray(v, dtype=float)


def _betas_in(expr):
    """own walk over the expression: {name: (init, lb, ub, status)}"""
    from biogeme.expressions import Beta

    out = {}
    stack = [expr]
    seen = set()
    while stack:
        e = stack.pop()
        if id(e) in seen:
            continue
        seen.add(id(e))
        if isinstance(e, Beta):
            out.setdefault(e.name, []).append((float(e.initValue), e.lb, e.ub, int(e.status)))
        stack.extend(e.get_children())
    return out


# ---------------------------------------------------------------------------
# piecewise linear helpers
# ---------------------------------------------------------------------------
def _pw_shape(th):
    k = len(th)
    start = 'open' if th[0] is None else ('zero' if th[0] == 0 else ('neg' if th[0] < 0 else 'pos'))
    end = 'open' if th[-1] is None else 'closed'
    return k, start, end


def run_pw(ctx, spec):
    from biogeme.expressions import Beta, Numeric, Variable
    from biogeme.models import piecewise_as_variable, piecewise_formula, piecewise_function, piecewise_variables
    from ..gen import c17_cases as g
    from ..oracle import c17_helpers as h

    rec = ctx.rec
    th = spec['thresholds']
    k, start, end = _pw_shape(th)
    two_open = k == 2 and (start == 'open' or end == 'open')
    name = spec['var']
    x = g.pw_grid(spec)
    db = _database({name: x})
    rec.c(f'pw_thresholds_{k}')
    rec.c(f'pw_start_{start}_end_{end}')
    rtol, atol = 1e-10, 1e-10
    xs = {'x': x}

    def var_arg():
        return name if spec['var_as_string'] else Variable(name)

    def exc_shape():
        return '-two-thresholds-open-end' if two_open else ('-two-thresholds' if k == 2 else '')

    def lab(entry_point):
        # one mechanism: every entry point goes through piecewise_variables, which mishandles [None, t] / [t, None]
        return 'piecewise-helpers' if two_open else entry_point

    bvals = spec['betas']

    def mk_betas(vals, kinds, prefix):
        out = []
        for j, (v, kd) in enumerate(zip(vals, kinds)):
            if kd == 'free':
                out.append(Beta(f'{prefix}{j}', v, None, None, 0))
            elif kd == 'fixed':
                out.append(Beta(f'{prefix}{j}', v, None, None, 1))
            elif kd == 'numeric':
                out.append(Numeric(v))
            else:
                out.append(float(v))
        return out

    # (a) the variables: number, each documented value, their sum
    ok, vs = ctx.call(lab('piecewise_variables'), lambda: piecewise_variables(Variable(name) if not spec['var_as_string'] else name, th), exc_shape())
    ref_vars = h.pw_variables(x, th)
    if ok:
        rec.ev()
        rec.c('pw_variables_lists_observed')
        if len(vs) != k - 1:
            ctx.viol('piecewise-variables-count' + ('-two-thresholds' if k == 2 else ''),
                     f'{len(vs)} variables returned for {k} thresholds (documented: K-1 = {k - 1})', returned=len(vs))
        else:
            vals = []
            for j, v in enumerate(vs):
                okv, val = ctx.call('piecewise-variable-evaluation', lambda v=v: _ev(v, db))
                if not okv:
                    break
                vals.append(val)
                ctx.cmp('piecewise-variable-value', val, ref_vars[j], rtol, atol, xs, 'pw_variable_value_compared')
            if len(vals) == k - 1:
                ctx.cmp('piecewise-variables-sum', np.sum(vals, axis=0), h.pw_clipped_distance(x, th), rtol, atol, xs,
                        'pw_sum_vs_clipped_distance_compared')
    if ctx.poisoned:
        return

    # (b) formula with given coefficients
    ref_f = h.pw_value(x, th, bvals)
    fval = None
    ok, f = ctx.call(lab('piecewise_formula'), lambda: piecewise_formula(var_arg(), th, mk_betas(bvals, spec['beta_kinds'], 'b')), exc_shape())
    if ok:
        okv, fval = ctx.call('piecewise_formula-evaluation', lambda: _ev(f, db))
        if okv:
            bad_f = ctx.cmp('piecewise-formula-value', fval, ref_f, rtol, atol, xs, 'pw_formula_compared')
        else:
            fval = None
    if ctx.poisoned:
        return

    # (c) formula with the automatically created coefficients, addressed by their documented names
    def auto_names(ths, first):
        out = []
        for j in range(first, len(ths) - 1):
            a = 'minus_inf' if ths[j] is None else f'{ths[j]}'
            b = 'inf' if ths[j + 1] is None else f'{ths[j + 1]}'
            out.append(f'beta_{name}_{a}_{b}')
        return out

    ok, fd = ctx.call(lab('piecewise_formula'), lambda: piecewise_formula(var_arg(), th), exc_shape())
    if ok:
        names = auto_names(th, 0)
        present = _betas_in(fd)
        if set(present) != set(names):
            rec.c('pw_default_beta_names_not_as_expected')
        else:
            okv, v = ctx.call('piecewise_formula-default-betas-evaluation', lambda: _ev(fd, db, dict(zip(names, bvals))))
            if okv:
                ctx.cmp('piecewise-formula-default-betas-value', v, ref_f, rtol, atol, xs, 'pw_formula_default_betas_compared')
    if ctx.poisoned:
        return

    # (d) the plain-number function, every argument
    okf = True
    pf = np.empty_like(x)
    for j, xv in enumerate(x):
        okf, val = ctx.call(lab('piecewise_function'), lambda xv=xv: piecewise_function(float(xv), th, list(bvals)), exc_shape())
        if not okf:
            break
        pf[j] = val
    if okf:
        bad = ctx.cmp(None, pf, ref_f, rtol, atol, xs, 'pw_function_compared')
        if bad.any():
            if start in ('neg', 'pos') and th[1] is not None:
                first_piece = (x >= th[0]) & (x < th[1])
            elif start in ('neg', 'pos'):
                first_piece = x >= th[0]
            else:
                first_piece = np.zeros_like(bad)
            b1 = bad & first_piece
            b2 = bad & ~first_piece
            if b1.any():
                ctx.report('piecewise-function-value-nonzero-first-threshold-inside-first-interval', b1, pf, ref_f, xs)
            if b2.any():
                ctx.report('piecewise-function-value', b2, pf, ref_f, xs)
        if fval is not None:
            # the property's literal relation: formula == function, argument by argument
            bad2 = ctx.cmp(None, pf, fval, rtol, atol, xs, 'pw_formula_vs_function_compared')
            unexplained = bad2 & ~bad & ~bad_f
            if unexplained.any():
                ctx.report('piecewise-formula-vs-function', unexplained, pf, fval, xs)

    # (e) the specification seen as a transformed variable: x_T1 + sum_{i>=2} beta_i x_Ti
    ref_av = h.pw_as_variable_value(x, th, bvals[1:])
    shp = exc_shape()
    if k == 2:
        # degenerate (open or closed ends): no coefficient at all. A refusal by a library error is a domain restriction, not a wrong value.
        from biogeme.exceptions import BiogemeError

        try:
            av = piecewise_as_variable(var_arg(), th, [])
            ok = True
        except BiogemeError:
            rec.c('pw_as_variable_two_thresholds_refused_by_library_error')
            return
        except BaseException as e:  # noqa
            ctx.viol(f'piecewise_as_variable-raises-{type(e).__name__}-two-thresholds', f'{type(e).__name__}: {e}')
            return
    else:
        ok, av = ctx.call(lab('piecewise_as_variable'), lambda: piecewise_as_variable(var_arg(), th, mk_betas(bvals[1:], spec['beta_kinds'][1:], 'c')), shp)
    if ok:
        okv, v = ctx.call('piecewise_as_variable-evaluation', lambda: _ev(av, db))
        if okv:
            ctx.cmp('piecewise-as-variable-value', v, ref_av, rtol, atol, xs, 'pw_as_variable_compared')
    if ctx.poisoned:
        return
    ok, avd = ctx.call(lab('piecewise_as_variable'), lambda: piecewise_as_variable(var_arg(), th), shp)
    if ok:
        names = auto_names(th, 1)
        if set(_betas_in(avd)) != set(names):
            rec.c('pw_default_beta_names_not_as_expected')
        else:
            okv, v = ctx.call('piecewise_as_variable-default-betas-evaluation', lambda: _ev(avd, db, dict(zip(names, bvals[1:]))))
            if okv:
                ctx.cmp('piecewise-as-variable-value', v, ref_av, rtol, atol, xs, 'pw_as_variable_default_betas_compared')


# ---------------------------------------------------------------------------
# Box-Cox
# ---------------------------------------------------------------------------
def run_bc(ctx, spec):
    from biogeme.expressions import Beta, Numeric, Variable
    from biogeme.models import boxcox
    from ..gen.c17_cases import SWITCH
    from ..oracle import c17_helpers as h

    rec = ctx.rec
    xs = np.array(spec['xs'], dtype=float)
    ells = [float(v) for v in spec['ells']]
    kind = spec['kind']
    col = spec['x_col']
    rec.c('bc_kind_' + kind)
    obs = {}  # ell -> values over xs
    if kind == 'variable':
        xx = np.repeat(xs, len(ells))
        ll = np.tile(np.array(ells), len(xs))
        db = _database({col: xx, 'ell': ll})
        ok, e = ctx.call('boxcox', lambda: boxcox(Variable(col), Variable('ell')))
        if not ok:
            return
        ok, v = ctx.call('boxcox-evaluation', lambda: _ev(e, db))
        if not ok:
            return
        v = v.reshape(len(xs), len(ells))
        for j, l in enumerate(ells):
            obs[l] = v[:, j]
    else:
        db = _database({col: xs})
        shared = None
        if kind == 'beta_override':
            ok, shared = ctx.call('boxcox', lambda: boxcox(Variable(col), Beta('lambda_bc', 0.3, -10, 10, 0)))
            if not ok:
                return
        for l in ells:
            if kind == 'beta_override':
                ok, v = ctx.call('boxcox-evaluation', lambda: _ev(shared, db, {'lambda_bc': l}))
            else:
                arg = {'beta_init': lambda: Beta('lambda_bc', l, -10, 10, 0), 'float': lambda: float(l), 'numeric': lambda: Numeric(l)}[kind]
                ok, e = ctx.call('boxcox', lambda: boxcox(Variable(col), arg()))
                if not ok:
                    return
                ok, v = ctx.call('boxcox-evaluation', lambda: _ev(e, db))
            if not ok:
                return
            obs[l] = v

    def conditioned(l):
        """documented formula evaluated naively in float64 must itself be good to 1e-10, else the point is skipped"""
        ref = h.boxcox(xs, l)
        with np.errstate(all='ignore'):
            naive = (xs ** l - 1.0) / l
        return np.abs(naive - ref) <= 1e-10 * np.abs(ref)

    for l in ells:
        ref = h.boxcox(xs, l)
        args = {'x': xs, 'ell': np.full_like(xs, l)}
        if l == 0.0:
            ctx.cmp('boxcox-zero-parameter-value', obs[l], ref, 1e-12, 1e-13, args, 'bc_zero_parameter_compared')
        elif abs(l) < SWITCH:
            ctx.cmp('boxcox-series-region-value', obs[l], ref, 1e-9, 1e-13, args, 'bc_series_region_compared')
        else:
            keep = conditioned(l)
            rec.c('bc_points_skipped_formula_ill_conditioned', int((~keep).sum()))
            if keep.any():
                ctx.cmp('boxcox-regular-region-value', obs[l][keep], ref[keep], 1e-9, 1e-13,
                        {'x': xs[keep], 'ell': np.full(int(keep.sum()), l)}, 'bc_regular_region_compared')
    # symmetric part in the series region: (B(l) + B(-l))/2 — isolates the even-order terms of the expansion
    for l in ells:
        if 0 < l < SWITCH and -l in obs:
            even_obs = 0.5 * (obs[l] + obs[-l])
            even_ref = 0.5 * (h.boxcox(xs, l).astype(np.longdouble) + h.boxcox(xs, -l).astype(np.longdouble)).astype(float)
            ctx.cmp('boxcox-series-region-even-part', even_obs, even_ref, 1e-12, 1e-14, {'x': xs, 'ell': np.full_like(xs, l)},
                    'bc_series_even_part_compared')
    # continuity through the switching points: adjacent floats on the two sides
    below = float(np.nextafter(SWITCH, 0.0))
    for sgn in (1.0, -1.0):
        a, b = sgn * below, sgn * SWITCH
        if a in obs and b in obs:
            keep = conditioned(b)
            if keep.any():
                rec.c('bc_switch_sign_' + ('pos' if sgn > 0 else 'neg'))
                bad = ctx.cmp(None, obs[a][keep], obs[b][keep], 1e-9, 1e-13, None, 'bc_jump_across_switch_compared')
                if bad.any():
                    ctx.report('boxcox-jump-across-switch', bad, obs[a][keep], obs[b][keep],
                               {'x': xs[keep], 'ell_series_side': np.full(int(keep.sum()), a), 'ell_formula_side': np.full(int(keep.sum()), b)})


# ---------------------------------------------------------------------------
# densities, distribution functions, regression likelihood
# ---------------------------------------------------------------------------
def run_dist(ctx, spec):
    import biogeme.distributions as dist
    import biogeme.loglikelihood as ll
    from biogeme.expressions import Beta, Numeric, Variable
    from ..oracle import c17_helpers as h

    rec = ctx.rec
    helper = spec['helper']
    P = spec['params']
    mode = spec['mode']
    kinds = dict(spec['kinds'])
    rec.c('dist_helper_' + helper)
    rec.c('dist_mode_' + mode)
    order = {'normalpdf': ['mu', 's'], 'lognormalpdf': ['mu', 's'], 'logisticcdf': ['mu', 's'], 'uniformpdf': ['a', 'b'],
             'triangularpdf': ['a', 'b', 'c'], 'loglikelihoodregression': ['mu', 's'], 'likelihoodregression': ['mu', 's']}[helper]
    regression = helper in ('loglikelihoodregression', 'likelihoodregression')
    fn = getattr(ll, helper) if regression else getattr(dist, helper)
    if regression:
        # the signature wants expressions
        kinds = {p: ('numeric' if kd == 'float' else kd) for p, kd in kinds.items()}
    data_dependent = mode == 'mixed' and any(kd == 'variable' for kd in kinds.values())
    if mode == 'mixed':
        for p in order:
            rec.c(f'dist_param_kind_{kinds[p]}')

    def args_for(npts):
        """helper arguments + extra columns + override dict"""
        cols = {}
        override = {}
        a = []
        if mode == 'defaults':
            return a, cols, override
        for p in order:
            if mode == 'override':
                a.append(Beta('p_' + p, spec['inits'][p], None, None, 0))
                override['p_' + p] = P[p]
                continue
            kd = kinds[p]
            if kd == 'float':
                a.append(float(P[p]))
            elif kd == 'numeric':
                a.append(Numeric(P[p]))
            elif kd == 'beta_fixed':
                a.append(Beta('p_' + p, P[p], None, None, 1))
            elif kd == 'beta_free':
                a.append(Beta('p_' + p, P[p], None, None, 0))
            else:
                cols['col_' + p] = np.full(npts, P[p])
                a.append(Variable('col_' + p))
        return a, cols, override

    def evaluate(x, label):
        a, cols, override = args_for(len(x))
        cols['x'] = x
        db = _database(cols)
        shape = '-data-dependent-parameter' if data_dependent else ''
        ok, e = ctx.call(helper, lambda: fn(Variable('x'), *a), shape)
        if not ok:
            return None
        ok, v = ctx.call(helper + '-evaluation', lambda: _ev(e, db, override))
        return v if ok else None

    if helper in ('normalpdf', 'logisticcdf') or regression:
        mu, s = P['mu'], P['s']
        zmax = 600.0 if helper == 'logisticcdf' else 36.0
        z = np.concatenate([np.linspace(-zmax, zmax, 241), np.linspace(-6, 6, 151), [0.0, 1e-9, -1e-9, 1.0, -1.0]])
        x = mu + s * z
        if helper == 'normalpdf':
            ref, rtol, atol = h.normal_pdf(x, mu, s), 1e-8, 1e-290
        elif helper == 'logisticcdf':
            ref, rtol, atol = h.logistic_cdf(x, mu, s), 1e-10, 1e-290
        elif helper == 'loglikelihoodregression':
            ref, rtol, atol = h.normal_logpdf(x, mu, s), 1e-9, 1e-9
        else:
            ref, rtol, atol = h.normal_pdf(x, mu, s), 1e-8, 1e-290
        xi = mu + s * np.linspace(-12, 12, 801)
        hstep = s * 24.0 / 800.0
        pieces = [(xi, hstep, None)]
    elif helper == 'lognormalpdf':
        mu, s = P['mu'], P['s']
        u = np.concatenate([np.linspace(-10, 10, 391), [0.0, 1e-9, -1e-9]])
        x = np.concatenate([np.exp(mu + s * u), [0.0, -1.0, -1e-9, 1e-300]])
        ref, rtol, atol = h.lognormal_pdf(x, mu, s), 1e-8, 1e-290
        ui = mu + s * np.linspace(-12, 12, 801)
        pieces = [(np.exp(ui), s * 24.0 / 800.0, np.exp(ui))]  # integrate f(e^u) e^u du
    else:
        a_, b_ = P['a'], P['b']
        w = b_ - a_
        special = [a_, b_]
        if helper == 'triangularpdf':
            special.append(P['c'])
        pts = [a_ - 2 * w, b_ + 2 * w, 0.0]
        for t in special:
            d = max(abs(t), 1.0) * 1e-9
            pts += [t, t + d, t - d, float(np.nextafter(t, np.inf)), float(np.nextafter(t, -np.inf))]
        x = np.concatenate([np.linspace(a_ - w, b_ + w, 380), pts])
        if helper == 'uniformpdf':
            ref, rtol, atol = h.uniform_pdf(x, a_, b_), 1e-10, 0.0
            pieces = [(np.linspace(a_, b_, 401), w / 400.0, None)]
        else:
            c_ = P['c']
            ref, rtol, atol = h.triangular_pdf(x, a_, b_, c_), 1e-9, 1e-12 / w
            pieces = [(np.linspace(a_, c_, 201), (c_ - a_) / 200.0, None), (np.linspace(c_, b_, 201), (b_ - c_) / 200.0, None)]

    args = {'x': x}
    v = evaluate(x, 'value')
    if v is None:
        return
    ctx.cmp(f'{helper}-value', v, ref, rtol, atol, args, 'dist_value_compared')
    if ctx.poisoned:
        return

    # integrates to one / distribution-function limits
    if helper in ('normalpdf', 'lognormalpdf', 'uniformpdf', 'triangularpdf', 'likelihoodregression'):
        total = 0.0
        okall = True
        for grid, hstep, weight in pieces:
            vi = evaluate(grid, 'integration')
            if vi is None:
                okall = False
                break
            total += h.simpson(vi * (weight if weight is not None else 1.0), hstep)
        if okall:
            rec.ev()
            rec.c('dist_integral_compared')
            if not abs(total - 1.0) <= 1e-6:
                ctx.viol(f'{helper}-integral', f'numerical integral over the support = {total!r}, expected 1', integral=total)
    elif helper == 'logisticcdf':
        rec.ev()
        rec.c('dist_cdf_limits_checked')
        srt = np.argsort(x, kind='stable')
        vs = v[srt]
        if not (abs(vs[0]) <= 1e-200 and abs(vs[-1] - 1.0) <= 1e-15 and np.all(np.diff(vs) >= -1e-15)):
            ctx.viol('logisticcdf-limits-or-monotonicity', f'F(-600 s)={vs[0]!r} F(+600 s)={vs[-1]!r} min step={np.diff(vs).min()!r}')
    if ctx.poisoned:
        return

    # pure-Python evaluation of the data-free formula
    if not data_dependent and mode != 'override' and not regression:
        sel = x[:: max(1, len(x) // 6)][:6]
        refsel = ref[:: max(1, len(x) // 6)][:6]
        got = []
        for xv in sel:
            a, _, _ = args_for(1)
            ok, val = ctx.call(helper + '-python-evaluator', lambda: fn(float(xv), *a).get_value())
            if not ok:
                break
            got.append(val)
        if len(got) == len(sel):
            ctx.cmp(f'{helper}-python-evaluator-value', got, refsel, rtol, atol, {'x': sel}, 'dist_python_evaluator_compared')


# ---------------------------------------------------------------------------
# segmentation
# ---------------------------------------------------------------------------
def run_seg(ctx, spec):
    import random

    import biogeme.expressions as ex
    from biogeme.expressions import Beta, Variable
    from biogeme.segmentation import DiscreteSegmentationTuple, Segmentation, segmented_beta
    from ..gen import c17_cases as g
    from ..oracle import c17_helpers as h

    rec = ctx.rec
    B = spec['beta']
    segs = spec['segs']
    rows = g.seg_rows(spec)
    cols = {k: [r[k] for r in rows] for k in rows[0]}
    db = _database(cols)
    rec.c(f'seg_variables_{len(segs)}')
    for s in segs:
        rec.c(f'seg_segments_{len(s["mapping"])}')
        rec.c('seg_reference_' + ('default_first' if s['reference_arg'] is None else ('first' if s['reference'] == s['mapping'][0][1] else 'other')))
    rec.c('seg_status_' + str(B['status']))

    def tuples():
        return [DiscreteSegmentationTuple(s['var'] if s['var_as_string'] else Variable(s['var']), {k: c for k, c in s['mapping']}, s['reference_arg'])
                for s in segs]

    def beta():
        return Beta(B['name'], B['init'], B['lb'], B['ub'], B['status'])

    ok, seg = ctx.call('Segmentation', lambda: Segmentation(beta(), tuples(), prefix=spec['prefix']))
    if not ok:
        return
    if spec['via_function']:
        ok, e = ctx.call('segmented_beta', lambda: segmented_beta(beta(), tuples(), prefix=spec['prefix']))
    else:
        ok, e = ctx.call('segmented_beta', lambda: seg.segmented_beta())
    if not ok:
        return
    cats = []
    for s in segs:
        for _, c in s['mapping']:
            if c != s['reference'] and c not in cats:
                cats.append(c)
    rr = random.Random(spec['value_seed'])
    assignments = [None]  # None: initial values (every parameter = init of the segmented parameter)
    if B['status'] == 0:
        for _ in range(2):
            assignments.append({'ref': round(rr.uniform(-3, 3), 4), 'shift': {c: round(rr.uniform(-2, 2), 4) for c in cats}})

    def expected(assign):
        if assign is None:
            return h.segmented_values(B['init'], segs, {c: B['init'] for c in cats}, rows)
        return h.segmented_values(assign['ref'], segs, assign['shift'], rows)

    def override(assign):
        if assign is None:
            return None
        d = {B['name']: assign['ref']}
        d.update({f'{B["name"]}_{c}': v for c, v in assign['shift'].items()})
        return d

    args = {k: np.array(v, dtype=float) for k, v in cols.items()}
    for assign in assignments:
        okv, v = ctx.call('segmented_beta-evaluation', lambda: _ev(e, db, override(assign)))
        if not okv:
            return
        ctx.cmp('segmented-beta-value', v, expected(assign), 1e-12, 1e-12, args, 'seg_expression_compared')

    # generated code: same formula?
    ok, code = ctx.call('segmented_code', lambda: seg.segmented_code())
    if not ok:
        return
    identifiers = all(c.isidentifier() for c in cats) and B['name'].isidentifier()
    if not identifiers:
        rec.c('seg_code_not_executed_non_identifier_names')
        return
    ns = {'__builtins__': {}, 'Beta': ex.Beta, 'Variable': ex.Variable, 'bioMultSum': ex.bioMultSum, 'Numeric': ex.Numeric}
    try:
        tree = pyast.parse(code)
        last = tree.body[-1]
        if isinstance(last, pyast.Assign):
            exec(compile(tree, '<segmented_code>', 'exec'), ns)
            target = last.targets[0].id
            ce = ns[target]
            if target != f'{spec["prefix"]}_{B["name"]}':
                ctx.viol('segmented-code-target-name', f'code assigns to {target}, documented prefix_name = {spec["prefix"]}_{B["name"]}', code=code)
            rec.c('seg_code_assignment_form')
        else:
            head = pyast.Module(body=tree.body[:-1], type_ignores=[])
            exec(compile(head, '<segmented_code>', 'exec'), ns)
            ce = eval(compile(pyast.Expression(body=last.value), '<segmented_code>', 'eval'), ns)
            rec.c('seg_code_single_term_form')
    except BaseException as exn:  # noqa
        ctx.viol('segmented-code-not-executable', f'{type(exn).__name__}: {exn}', code=code)
        return
    if not isinstance(ce, ex.Expression):
        ctx.viol('segmented-code-not-an-expression', f'code yields {type(ce).__name__}', code=code)
        return
    for assign in assignments:
        okv, v = ctx.call('segmented_code-evaluation', lambda: _ev(ce, db, override(assign)))
        if not okv:
            return
        ctx.cmp('segmented-code-value', v, expected(assign), 1e-12, 1e-12, args, 'seg_code_compared')
    rec.ev()
    rec.c('seg_code_parameters_compared')
    pe, pc = _betas_in(e), _betas_in(ce)
    if {k: sorted(set(v), key=repr) for k, v in pe.items()} != {k: sorted(set(v), key=repr) for k, v in pc.items()}:
        ctx.viol('segmented-code-parameters-differ', f'expression parameters {pe} vs code parameters {pc}', code=code)


# ---------------------------------------------------------------------------
# nested logit correlation
# ---------------------------------------------------------------------------
def run_nest(ctx, spec):
    from biogeme.expressions import Beta, Numeric, exp
    from biogeme.nests import NestsForNestedLogit, OneNestForNestedLogit
    from ..oracle import c17_helpers as h

    rec = ctx.rec
    cs = list(spec['choice_set'])
    params = {}
    built = []
    for k, n in enumerate(spec['nests']):
        kd = n['kind']
        rec.c('nest_param_kind_' + kd)
        if kd == 'float':
            p = float(n['mu_m'])
        elif kd == 'numeric':
            p = Numeric(n['mu_m'])
        elif kd == 'beta':
            p = Beta(f'mu_{k}', n['mu_m'], 1, None, 0)
        elif kd == 'beta_param':
            p = Beta(f'mu_{k}', n['init'], 1, None, 0)
            params[f'mu_{k}'] = n['mu_m']
        else:
            if n.get('via_param'):
                p = Numeric(1) + exp(Beta(f'b_{k}', n['init'], None, None, 0))
                params[f'b_{k}'] = n['b']
            else:
                p = Numeric(1) + exp(Beta(f'b_{k}', n['b'], None, None, 0))
        built.append((p, list(n['alts']), n['name']))
    rec.c('nest_syntax_' + spec['syntax'])
    rec.c(f'nest_count_{len(built)}')
    if spec['alone']:
        rec.c('nest_with_alone_alternatives')
    if spec['syntax'] == 'new':
        tup = tuple(OneNestForNestedLogit(nest_param=p, list_of_alternatives=a, name=nm) if nm else OneNestForNestedLogit(p, a) for p, a, nm in built)
    else:
        tup = tuple((p, a) for p, a, _ in built)
    ok, nests = ctx.call('NestsForNestedLogit', lambda: NestsForNestedLogit(cs, tup))
    if not ok:
        return
    kw = {}
    if params:
        kw['parameters'] = params
        rec.c('nest_parameters_argument_used')
    names = None
    if spec['names'] is not None:
        names = {a: nm for a, nm in spec['names']}
        kw['alternatives_names'] = names
    if spec['mu'] != 1.0:
        kw['mu'] = spec['mu']
        rec.c('nest_scale_not_one')
    rec.c('nest_names_' + spec['names_mode'])
    ok, df = ctx.call('correlation', lambda: nests.correlation(**kw))
    if not ok:
        return
    ref = h.nested_correlation(cs, [(n['mu_m'], n['alts']) for n in spec['nests']], spec['mu'])
    label = (lambda a: names[a]) if names is not None else (lambda a: str(a))
    rec.ev()
    if df.shape != (len(cs), len(cs)) or sorted(map(str, df.index)) != sorted(label(a) for a in cs) or list(df.index) != list(df.columns):
        ctx.viol('nested-correlation-labels', f'index {list(df.index)} columns {list(df.columns)} for alternatives {[label(a) for a in cs]}')
        return
    suffix = '-names-order-differs-from-choice-set' if spec['names_mode'] == 'shuffled' else ''
    kinds = {'diagonal': [], 'within-nest': [], 'across-nests': []}
    nest_of = {a: k for k, n in enumerate(spec['nests']) for a in n['alts']}
    for i in cs:
        for j in cs:
            got = float(df.loc[label(i), label(j)])
            want = ref[(i, j)]
            kind = 'diagonal' if i == j else ('within-nest' if i in nest_of and j in nest_of and nest_of[i] == nest_of[j] else 'across-nests')
            rec.c('nest_pairs_' + kind.replace('-', '_'))
            if not abs(got - want) <= 1e-12 + 1e-12 * abs(want):
                kinds[kind].append({'i': label(i), 'j': label(j), 'reported': got, 'closed_form': want})
    rec.c('nest_matrices_compared')
    if suffix:
        # one mechanism whatever the kind of pair: rows/columns are labelled in the order of the names dictionary
        badl = [b for l in kinds.values() for b in l]
        if badl:
            ctx.viol('nested-correlation-labels' + suffix, f'{len(badl)} pairs differ; first: {badl[:2]}', pairs=badl[:6], matrix=df.to_dict())
        return
    for kind, badl in kinds.items():
        if badl:
            scale = '-with-scale' if spec['mu'] != 1.0 else ''
            ctx.viol(f'nested-correlation-{kind}{scale}', f'{len(badl)} pairs differ; first: {badl[:2]}', pairs=badl[:6],
                     matrix=df.to_dict())


RUNNERS = {'pw': run_pw, 'bc': run_bc, 'dist': run_dist, 'seg': run_seg, 'nest': run_nest}


def make_spec(case):
    from ..gen import c17_cases as g

    if case['fam'] == 'directed':
        return g.directed()[case['k']]
    return {'pw': g.gen_pw, 'bc': g.gen_bc, 'dist': g.gen_dist, 'seg': g.gen_seg, 'nest': g.gen_nest}[case['fam']](case['seed'], case['i'])


def run_case(case):
    spec = make_spec(case)
    ctx = Ctx(case, spec)
    rec = ctx.rec
    if 'directed' in spec:
        rec.c('directed_' + spec['directed'])
    rec.c('cases_' + spec['fam'])
    RUNNERS[spec['fam']](ctx, spec)
    if rec.n > 0:
        rec.key(spec)
    rec.sample({'spec': spec, 'comparisons': rec.n, 'violations': [v['mech'] for v in rec.viol]})
    return rec.out()


def finalize(cov, tier):
    out = []
    need = [
        'pw_variables_lists_observed', 'pw_variable_value_compared', 'pw_sum_vs_clipped_distance_compared', 'pw_formula_compared',
        'pw_formula_default_betas_compared', 'pw_function_compared', 'pw_formula_vs_function_compared',
        'pw_as_variable_compared', 'pw_as_variable_default_betas_compared',
        'bc_zero_parameter_compared', 'bc_series_region_compared', 'bc_regular_region_compared', 'bc_series_even_part_compared',
        'bc_jump_across_switch_compared', 'bc_switch_sign_pos', 'bc_switch_sign_neg',
        'dist_value_compared', 'dist_integral_compared', 'dist_cdf_limits_checked', 'dist_python_evaluator_compared',
        'seg_expression_compared', 'seg_code_compared', 'seg_code_parameters_compared',
        'nest_matrices_compared', 'nest_pairs_within_nest', 'nest_pairs_across_nests', 'nest_pairs_diagonal',
    ]
    need += [f'pw_thresholds_{k}' for k in range(2, 7)]
    need += [f'pw_start_{s}_end_{e}' for s in ('open', 'neg', 'zero', 'pos') for e in ('open', 'closed')]
    need += ['bc_kind_' + k for k in ('variable', 'beta_override', 'beta_init', 'float', 'numeric')]
    need += ['dist_helper_' + k for k in ('normalpdf', 'lognormalpdf', 'uniformpdf', 'triangularpdf', 'logisticcdf',
                                          'loglikelihoodregression', 'likelihoodregression')]
    need += ['dist_param_kind_' + k for k in ('float', 'numeric', 'beta_fixed', 'beta_free', 'variable')]
    need += ['dist_mode_override', 'dist_mode_defaults']
    need += [f'seg_variables_{k}' for k in (1, 2, 3)] + [f'seg_segments_{k}' for k in (2, 3, 4)]
    need += ['seg_reference_default_first', 'seg_reference_other', 'seg_status_0', 'seg_status_1', 'seg_code_assignment_form']
    need += ['nest_param_kind_' + k for k in ('float', 'numeric', 'beta', 'beta_param', 'expr')]
    need += ['nest_syntax_new', 'nest_syntax_old', 'nest_with_alone_alternatives', 'nest_scale_not_one',
             'nest_names_none', 'nest_names_ordered', 'nest_names_shuffled', 'nest_parameters_argument_used']
    missing = [k for k in need if cov.get(k, 0) == 0]
    if missing:
        out.append(f'monitors / shapes never observed: {missing}')
    if cov.get('pw_default_beta_names_not_as_expected', 0) > 0:
        out.append('automatically created piecewise coefficients do not carry the names beta_<var>_<from>_<to>: default-coefficient '
                   'comparisons were skipped')
    return out
