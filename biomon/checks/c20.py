"""C20 — every deprecated name behaves exactly like the function it points users to.

Workload: every deprecated alias (functions / methods carrying the deprecation
wrapper) and every renamed keyword argument is *discovered at run time* (cross-
checked against an ast scan of the sources), and called on every class of the
package that inherits it, with seeded representative arguments.

Monitors (biomon/oracle/c20_observe.py): each call runs in a forked child of the
same memory image; recorded are result / exception, warnings, state of receiver
and arguments after the call, files, RNG consumption, printed output, log
records and how many times which function body ran (sys.monitoring).

Oracle: the old name is called first; the replacement is the one *named in the
deprecation warning*, resolved on the receiver (``getattr(receiver, name)``) the
way the user told to "use X instead" would call it. Everything observed must be
equal, the only extra effect being exactly one DeprecationWarning. A name rule
(normalised-name equality, else similarity among the public callables of the
namespace) flags replacements whose purpose does not match the old name; the
verdict then needs the behavioural witness (old name != better match).
"""
from __future__ import annotations

import hashlib
import importlib
import inspect
import os

os.environ.setdefault('TQDM_DISABLE', '1')

from .. import env
from ..rec import Rec, stable_hash

LEVEL = 'exploration'
EXHAUSTIVE = False
RULE = (
    'cases = every (deprecated alias, receiver class inheriting it) pair and every (renamed keyword, function, receiver '
    'class) triple discovered at run time, each with 1-4 argument variants from a fixture registry keyed by the '
    'replacement (seeded tables, formulas, estimated model). quick: first two variants per pair of the expression '
    'hierarchy, a seeded third of the receivers per renamed keyword of that hierarchy; thorough: all variants, all '
    'receivers, two independent seeds of the fixtures. Every renamed keyword is also driven through every function of '
    'the package that forwards **kwargs to its wrapper (ast scan), and old + current spelling are given together to the '
    'wrapper in both orders (equal values judged, contradicting values counted only). A case is non-trivial '
    'when both the old and the new spelling were executed and compared; distinct = hash of (alias or keyword, receiver '
    'class, variant label, seed-dependent fixture id)'
)
ASSUMPTIONS = [
    'a forked child of the same process image is an exact snapshot of receiver, arguments, RNG and engine state',
    'the wall clock is frozen in both calls (environmental input); remaining time stamps / addresses in strings are scrubbed',
    'floats compared at rtol 1e-10 (same code on same inputs; slack only for summation order inside the engine)',
    'receivers are the classes of the package (walk of __subclasses__); user-defined subclasses are not generated',
]
MIN_DISTINCT = {'quick': 1000, 'thorough': 3000}
CASE_TIMEOUT = 1200  # watchdog only (machine shared with other checks); an observation gets a quarter of it, twice

REPS = {'quick': 1, 'thorough': 2}

EXPR_ROOT = 'biogeme.expressions.base_expressions.Expression'


def _short(owner, module):
    return (owner or module).split('.')[-1]


def cases(seed, tier):
    from ..oracle import c20_observe as ob

    d = ob.discover()
    out = []
    for rep in range(REPS[tier]):
        for a in d['aliases']:
            for r in a['receivers']:
                out.append({'t': 'alias', 'module': a['module'], 'owner': a['owner'], 'name': a['name'], 'recv': r, 'seed': seed, 'rep': rep, 'tier': tier})
        for p in d['params']:
            for old_kw in sorted(p['mapping']):
                for r in p['receivers']:
                    # the keyword wrappers of the expression hierarchy are not redefined by any subclass: the quick tier
                    # takes a seeded third of the receivers per keyword, the thorough tier all of them
                    if tier == 'quick' and len(p['receivers']) > 6 and r != p['owner'] \
                            and int(hashlib.sha1(f'{seed}|{p["name"]}|{old_kw}|{r}'.encode()).hexdigest()[:6], 16) % 3:
                        continue
                    out.append({'t': 'param', 'module': p['module'], 'owner': p['owner'], 'name': p['name'], 'kw': old_kw, 'recv': r,
                                'seed': seed, 'rep': rep, 'tier': tier})
        # every renamed keyword also through every function of the package that forwards **kwargs to its wrapper
        for f in ob.forwarders():
            for old_kw in sorted(f['mapping']):
                out.append({'t': 'fwd', 'module': f['module'], 'owner': f['owner'], 'name': f['name'], 'kw': old_kw, 'recv': f['owner'],
                            'via_module': f['via_module'], 'via_owner': f['via_owner'], 'via_name': f['via_name'], 'seed': seed, 'rep': rep,
                            'tier': tier})
        # hand-written old attributes (properties)
        for a in ob.old_attributes():
            out.append({'t': 'attr', 'module': a['module'], 'owner': a['owner'], 'name': a['name'], 'recv': a['owner'], 'seed': seed, 'rep': rep,
                        'tier': tier})
    # heavy cases (estimation) first so that the shards finish together
    heavy = ('BIOGEME', 'bioResults', 'results', 'multiobjectives')
    out.sort(key=lambda c: 0 if (_short(c['owner'], c['module']) in heavy or c['t'] in ('fwd', 'attr')) else 1)
    return out


def warmup():
    import warnings

    with warnings.catch_warnings():
        warnings.simplefilter('ignore')
        from ..oracle import c20_observe as ob

        ob.discover()
        ob.forwarders()
        ob.old_attributes()
        import biogeme.biogeme  # noqa
        import biogeme.results  # noqa
        import biogeme.models  # noqa
        import biogeme.catalog  # noqa
        from ..gen import c20_fixtures as fx

        # BIOGEME creates class-level properties on first construction: do it once, before any snapshot
        fx.World(0).biogeme()
        # no progress-bar monitor thread: the process image that is forked must be single-threaded
        try:
            import tqdm

            tqdm.tqdm.monitor_interval = 0
        except ImportError:
            pass


# ---------------------------------------------------------------------------
# self-test of the monitors on toy aliases written here (not biogeme code)
# ---------------------------------------------------------------------------

def selftest():
    import functools
    import warnings

    from ..oracle import c20_compare as cmp
    from ..oracle import c20_observe as ob

    bad = list(cmp.selftest())
    with ob.scratch():
        bad += _selftest_monitors()
    return bad


def _selftest_monitors():
    import functools
    import warnings

    from ..oracle import c20_observe as ob

    bad = []

    class Box:
        def __init__(self):
            self.n = 0

        def bump(self, k=1):
            import numpy as np

            self.n += k
            return self.n + float(np.random.uniform() * 0)

    def fwd(mode):
        def old(self, *a, **kw):
            if mode != 'silent':
                warnings.warn('oldBump is deprecated; use bump instead.', UserWarning if mode == 'category' else DeprecationWarning, stacklevel=2)
            if mode == 'twice':
                Box.bump(self, *a, **kw)
            if mode == 'dropkw':
                kw = {}
            return Box.bump(self, *a, **kw)

        return old

    expect = {'good': set(), 'twice': {'result-differs', 'state-after-call-differs', 'rng-consumption-differs', 'calls'},
              'dropkw': {'result-differs', 'state-after-call-differs'}, 'category': {'warning'}, 'silent': {'warning'}}
    code = Box.bump.__code__
    for mode, want in expect.items():
        b = Box()
        f = functools.partial(fwd(mode), b)
        o = ob.observe(dict(fn=f, kwargs={'k': 3}, state=[b]), f'selftest_{mode}_old', [code], 60)
        n = ob.observe(dict(fn=b.bump, kwargs={'k': 3}, state=[b]), f'selftest_{mode}_new', [code], 60)
        if 'returned' not in o or 'returned' not in n:
            bad.append(f'observe() failed in self-test {mode}: {o} {n}')
            continue
        got = {k for k, _ in ob.compare(o, n)}
        if o['calls'] != n['calls']:
            got.add('calls')
        extra, missing = ob.extra_warnings(o, n)
        if not (len(extra) == 1 and extra[0][0] == 'DeprecationWarning' and not missing):
            got.add('warning')
        if got != want:
            bad.append(f'toy alias "{mode}": monitors reported {sorted(got)}, expected {sorted(want)}')
    if ob.parse_alias_warning('a is deprecated; use b instead.') != ('a', 'b'):
        bad.append('alias warning parser')
    if ob.parse_param_warning("Parameter 'a' is deprecated; use 'b=3' instead.") != ('a', 'b'):
        bad.append('keyword warning parser')
    return bad


# ---------------------------------------------------------------------------
# helpers
# ---------------------------------------------------------------------------

def _world_seed(case, salt=''):
    h = hashlib.sha1(f"{case['seed']}|{case['rep']}|{case['module']}|{case['owner']}|{case['name']}|{case.get('recv')}|{case.get('kw')}|{case.get('via_name')}|{salt}".encode()).hexdigest()
    return int(h[:8], 16)


def _is_expr_family(owner):
    from ..oracle import c20_observe as ob

    if not owner:
        return False
    cls = ob.resolve_class(owner)
    root = ob.resolve_class(EXPR_ROOT)
    return inspect.isclass(cls) and issubclass(cls, root)


def _watch_codes(recv_cls, module, declared):
    """[code the receiver's replacement resolves to] + bodies of every other function of that name in the receiver's MRO /
    in the alias's module: tells which body an old-name call executed, without reading the wrapper."""
    from ..oracle import c20_observe as ob

    codes = []

    def add(f):
        c = ob.innermost_code(f) if f is not None else None
        if c is not None and not any(c is x for x in codes):
            codes.append(c)

    if recv_cls is not None:
        add(inspect.getattr_static(recv_cls, declared, None))
        first = len(codes)
        for k in recv_cls.__mro__:
            add(k.__dict__.get(declared))
    else:
        first = 0
    add(getattr(module, declared, None))
    return codes, (first == 1)


def _fixture_id(v):
    from ..oracle import c20_compare as cmp

    try:
        return stable_hash([v['label'], cmp.normalise([v.get('recv'), v.get('args'), v.get('kwargs')])])
    except BaseException:  # noqa
        return stable_hash([v['label']])


def _obs(rec, call, subdir, codes):
    from ..oracle import c20_observe as ob

    r = ob.observe(call, subdir, codes, CASE_TIMEOUT / 4)
    if r.get('retried_after_watchdog'):
        rec.c('observations_repeated_after_watchdog')
    if r.get('retries_after_native_crash'):
        rec.c('engine_native_crash_retries', r['retries_after_native_crash'])
    return r


def _check_warnings(obs_old, obs_new, pattern_ok, what):
    """-> list of (kind, detail): the old spelling adds exactly one DeprecationWarning naming the replacement"""
    from ..oracle import c20_observe as ob

    out = []
    extra, missing = ob.extra_warnings(obs_old, obs_new)
    dep = [w for w in extra if w[0] == 'DeprecationWarning' and pattern_ok(w[1])]
    other = [w for w in extra if w not in dep]
    if not dep:
        wrongcat = [w for w in extra if pattern_ok(w[1])]
        if wrongcat:
            out.append(('deprecation-warning-has-wrong-category', f'{what}: {wrongcat[0][:2]}'))
            other = [w for w in other if w not in wrongcat]
        else:
            out.append(('no-deprecation-warning', f'{what}: warnings seen {[w[:2] for w in obs_old.get("warnings", [])][:4]}'))
    elif len(dep) > 1:
        out.append(('deprecation-warning-repeated', f'{what}: {len(dep)} times'))
    if other:
        out.append(('extra-warnings', f'{what}: {[w[:2] for w in other][:3]}'))
    if missing:
        out.append(('warnings-of-replacement-missing', f'{what}: {missing[:3]}'))
    return out


# ---------------------------------------------------------------------------
# one case
# ---------------------------------------------------------------------------

def run_case(case):
    import warnings

    from ..oracle import c20_observe as ob

    warnings.simplefilter('ignore')
    with ob.scratch():
        if case['t'] == 'alias':
            return _run_alias(case)
        if case['t'] == 'attr':
            return _run_attr(case)
        return _run_param(case)


def _run_alias(case):
    from ..gen import c20_fixtures as fx
    from ..oracle import c20_observe as ob

    rec = Rec(case)
    module = importlib.import_module(case['module'])
    name = case['name']
    owner, recvq = case['owner'], case['recv']
    recv_cls = ob.resolve_class(recvq) if recvq else None
    ns = recv_cls if recv_cls is not None else module
    wrapper = ob._raw(inspect.getattr_static(ns, name, None))
    if wrapper is None or not ob.is_alias(wrapper):
        rec.inconc(f'alias {owner or case["module"]}.{name} vanished between discovery and execution')
        return rec.out()
    declared = wrapper.__newname__
    short = f'{_short(owner, case["module"])}.{name}'
    pair = f'{owner or case["module"]}.{name}@{recvq or "-"}'
    rec.c('pairs_scheduled')
    W = fx.World(_world_seed(case))

    # -- fixture ------------------------------------------------------------
    variants = None
    try:
        if _is_expr_family(owner):
            if inspect.isabstract(recv_cls):
                rec.c('receiver_abstract_class')
                rec.c('pair_skipped::' + pair)
                return rec.out()
            try:
                variants = fx.expression_variants(name, recv_cls.__name__, W)
            except KeyError:
                # a class whose constructor refuses to build an instance (DefineVariable is declared obsolete)
                import biogeme.exceptions as be

                try:
                    recv_cls('n', None, None)
                    rec.inconc(f'no instance factory for receiver class {recvq}')
                except be.BiogemeError:
                    rec.c('receiver_constructor_refuses_by_design')
                    rec.c('pair_skipped::' + pair)
                except BaseException:  # noqa
                    rec.inconc(f'no instance factory for receiver class {recvq}')
                return rec.out()
        else:
            f = fx.REGISTRY.get(f'{owner or case["module"]}.{declared}')
            if f is None:
                # the declared replacement may live in another namespace than the alias: look it up by bare name
                cands = [k for k in fx.REGISTRY if k.endswith('.' + declared) and k.startswith(case['module'])]
                f = fx.REGISTRY.get(cands[0]) if len(cands) == 1 else None
            variants = f(W) if f else None
    except BaseException as e:  # noqa
        import traceback

        rec.inconc(f'fixture for {pair} failed: {type(e).__name__}: {e} {traceback.format_exc()[-600:]}')
        return rec.out()
    if not variants:
        rec.inconc(f'no fixture for alias {pair} (replacement {declared})')
        return rec.out()

    all_variants = list(variants)
    if case.get('tier') == 'quick' and _is_expr_family(owner):
        variants = variants[:2]  # the thorough tier runs every variant
    codes, recv_first = _watch_codes(recv_cls, module, declared)
    compared = 0
    rule_done = False
    flagged = None  # (better match, replacement named in the warning) while a name-rule flag waits for its witness
    last_wit = {}
    for i, v in enumerate(variants):
        recv = v['recv']
        on_class = v.get('on_class')
        try:
            if recv_cls is None:
                old_fn = getattr(module, name)
            elif on_class:
                old_fn = getattr(recv_cls, name)
            else:
                old_fn = getattr(recv, name)
        except BaseException as e:  # noqa
            rec.inconc(f'{pair}: cannot bind old name: {e}')
            continue
        state = v['state'] if v.get('state') is not None else [recv, list(v['args']), v['kwargs']]
        call = dict(args=v['args'], kwargs=v['kwargs'], post=v.get('post'), state=state, files=v.get('files'))
        o = _obs(rec, dict(call, fn=old_fn), f'a{i}_old', codes)
        if 'returned' not in o:
            rec.inconc(f'{pair}/{v["label"]}: observation of the old name failed: {str(o)[:200]}')
            continue
        # the replacement is the one named in the warning
        named = [ob.parse_alias_warning(w[1]) for w in o['warnings']]
        named = [x for x in named if x and x[0] == name]
        new_name = named[0][1] if named else declared
        if named and named[0][1] != declared:
            rec.c('warning_names_other_than_declared')
        wit = {'alias': pair, 'variant': v['label'], 'replacement_named_in_warning': new_name, 'old': _trim(o)}
        new_fn = None
        how = None
        if recv_cls is not None:
            target = recv_cls if on_class else recv
            if hasattr(target, new_name):
                new_fn, how = getattr(target, new_name), 'on-receiver'
        if new_fn is None and hasattr(module, new_name):
            new_fn, how = getattr(module, new_name), 'in-module'
        if new_fn is None:
            rec.violation(f'C20/replacement-named-in-warning-does-not-exist/{short}', f'{pair}: warning says "use {new_name}" but neither the receiver nor '
                                                                                     f'{case["module"]} has it', wit)
            continue
        rec.c('replacement_resolved_' + how)
        n = _obs(rec, dict(call, fn=new_fn), f'a{i}_new', codes)
        if 'returned' not in n:
            rec.inconc(f'{pair}/{v["label"]}: observation of the replacement failed: {str(n)[:200]}')
            continue
        rec.ev()
        compared += 1
        rec.key([pair, v['label'], _fixture_id(v)])
        rec.c('outcome_both_return' if o['returned'] and n['returned'] else ('outcome_both_raise' if not o['returned'] and not n['returned'] else 'outcome_mixed'))
        if o['files_new'] or n['files_new']:
            rec.c('variants_creating_files')
        if i == 0:
            rec.sample({'alias': pair, 'variant': v['label'], 'replacement': new_name, 'old_outcome': o.get('exc') or 'returned',
                        'new_outcome': n.get('exc') or 'returned', 'old_warnings': [w[:2] for w in o['warnings']], 'calls_old': o['calls'], 'calls_new': n['calls']})
        wit['new'] = _trim(n)
        diffs = ob.compare(o, n)
        # which body ran
        bypass = False
        if recv_first and codes and n['calls'] and n['calls'][0] > 0 and o['calls'][0] == 0 and sum(o['calls'][1:]) > 0:
            bypass = True
            rec.c('old_name_ran_another_body_than_receivers_replacement')
        if not bypass and o['calls'] and o['calls'] != n['calls'] and o['returned'] == n['returned']:
            diffs.append(('replacement-body-executed-different-number-of-times', f'old {o["calls"]} vs replacement {n["calls"]}'))
        wdiffs = _check_warnings(o, n, lambda m: (ob.parse_alias_warning(m) or (None,))[0] == name, pair)
        for k, d in wdiffs:
            rec.violation(f'C20/{k}/{short}', f'{pair} [{v["label"]}]: {d}', wit)
        if not wdiffs:
            rec.c('exactly_one_deprecation_warning')
            w = [x for x in o['warnings'] if x[0] == 'DeprecationWarning' and (ob.parse_alias_warning(x[1]) or (None,))[0] == name]
            if w and w[0][2] == ob.HERE:
                rec.c('warning_points_at_the_calling_line')
        if diffs:
            kinds = sorted({k for k, _ in diffs})
            msg = f'{pair} [{v["label"]}] vs {new_name} ({how}): ' + ' | '.join(f'{k}: {d}' for k, d in diffs)
            if bypass:
                rec.violation(f'C20/method-alias-bypasses-receiver-override/{short}',
                              msg + ' | the old name ran the body of another class than the one the receiver resolves ' + new_name + ' to', dict(wit, kinds=kinds))
            else:
                for k in kinds:
                    rec.violation(f'C20/{k}/{short}', msg, dict(wit, kinds=kinds))
        else:
            rec.c('variants_identical')
            if bypass:
                rec.c('bypass_without_observable_difference')

        # -- "the replacement is the one whose documented purpose matches the old name"
        # Decided on names once per pair. A flag (declared replacement is not the best match of the old name) needs a
        # behavioural witness: a receiver state / argument set on which the old name and the better match differ. The
        # old call need not have returned: an old name that raises where the better match returns is a witness too.
        # Every variant is tried until one separates them; after the loop the search goes on over the variants the
        # quick tier skipped and over the fixtures registered for the better match itself.
        last_wit = wit
        if not rule_done:
            kind = 'function' if recv_cls is None else 'method'
            cands = ob.public_functions(ns, kind)
            from ..oracle import c20_compare as cmp

            ok, better = cmp.name_rule(name, new_name, cands)
            if cmp.norm_name(name) == cmp.norm_name(new_name):
                rec.c('name_rule_same_name_respelled')
                rule_done = True
            elif ok:
                rec.c('name_rule_accepted_best_match')
                rule_done = True
            else:
                if flagged is None:
                    rec.c('name_rule_flagged')
                flagged = (better[0], new_name)
                if _rule_witness(rec, o, call, recv if (recv_cls is not None and not on_class) else ns, better[0], new_name, name,
                                 pair, short, v['label'], f'a{i}_better', codes, wit, wrapper):
                    rule_done = True
    if flagged and not rule_done:
        # no variant so far separates the declared replacement from the better match: widen the search
        seen = {id(v) for v in variants}
        more = [v for v in all_variants if id(v) not in seen]
        try:
            fb = fx.REGISTRY.get(f'{owner or case["module"]}.{flagged[0]}')
            if fb is not None and not _is_expr_family(owner):
                more += fb(fx.World(_world_seed(case, 'better')))
        except BaseException:  # noqa
            pass
        for j, v in enumerate(more):
            recv = v['recv']
            on_class = v.get('on_class')
            try:
                old_fn = getattr(module, name) if recv_cls is None else getattr(recv_cls if on_class else recv, name)
            except BaseException:  # noqa
                continue
            state = v['state'] if v.get('state') is not None else [recv, list(v['args']), v['kwargs']]
            call = dict(args=v['args'], kwargs=v['kwargs'], post=v.get('post'), state=state, files=v.get('files'))
            o = _obs(rec, dict(call, fn=old_fn), f'r{j}_old', codes)
            if 'returned' not in o:
                continue
            rec.c('name_rule_extra_receiver_states_tried')
            wit = dict(last_wit, variant=v['label'], old=_trim(o))
            if _rule_witness(rec, o, call, recv if (recv_cls is not None and not on_class) else ns, flagged[0], flagged[1], name,
                             pair, short, v['label'], f'r{j}_better', codes, wit, wrapper):
                rule_done = True
                break
        if not rule_done:
            # flagged on names, but nothing generated tells the two candidates apart: undecided for this alias, not held
            rec.c('name_rule_flag_undecided_no_separating_receiver_state')
            rec.c('name_rule_flag_undecided/' + short)
    if compared:
        rec.c('pair_compared::' + pair)
    return rec.out()


def _rule_witness(rec, o, call, target, better, declared, name, pair, short, label, subdir, codes, wit, wrapper):
    """observe the better-matching function on the same snapshot; True when old name and better match are separated"""
    from ..oracle import c20_observe as ob

    try:
        b_fn = getattr(target, better)
    except AttributeError:
        return False
    ob_b = _obs(rec, dict(call, fn=b_fn), subdir, codes)
    if not ob_b.get('returned'):
        rec.c('name_rule_better_match_not_callable_with_same_arguments')
        return False
    rec.ev()
    db = [(k, d) for k, d in ob.compare(o, ob_b) if k in ('result-differs', 'old-raises-replacement-returns', 'state-after-call-differs')]
    if not db:
        rec.c('name_rule_receiver_state_does_not_separate')
        return False
    rec.c('name_rule_flag_confirmed_by_witness')
    rec.violation(f'C20/replacement-does-not-match-documented-purpose/{short}',
                  f'{pair} [{label}]: forwards to {declared} although {better} matches the old name better, and {name}(args) '
                  f'differs from {better}(args): ' + ' | '.join(f'{k}: {d}' for k, d in db)[:600],
                  dict(wit, better_match=better, better=_trim(ob_b), doc=(inspect.getdoc(wrapper) or '')[:200]))
    return True


def _trim(o):
    """witness size"""
    import json

    out = {}
    for k, v in o.items():
        s = json.dumps(v, default=repr)
        out[k] = v if len(s) < 1500 else s[:1500] + '...'
    return out


def _run_param(case):
    from ..gen import c20_fixtures as fx
    from ..oracle import c20_observe as ob

    rec = Rec(case)
    module = importlib.import_module(case['module'])
    owner, recvq, func, old_kw = case['owner'], case['recv'], case['name'], case['kw']
    recv_cls = ob.resolve_class(recvq) if recvq else None
    ns = recv_cls if recv_cls is not None else module
    wrapper = ob._raw(inspect.getattr_static(ns, func, None))
    mapping = ob.dp_mapping(wrapper) if wrapper is not None else None
    trip = f'{owner or case["module"]}.{func}:{old_kw}@{recvq or "-"}'
    short = f'{_short(owner, case["module"])}.{func}:{old_kw}'
    fwd = case['t'] == 'fwd'
    via = None
    if fwd:
        via = f'{case["via_owner"] or case["via_module"]}.{case["via_name"]}'
        trip = f'{owner or case["module"]}.{func}:{old_kw}@via:{via}'
        short = f'{short}/via-{_short(case["via_owner"], case["via_module"])}.{case["via_name"]}'
    if mapping is None or old_kw not in mapping:
        rec.inconc(f'renamed keyword {trip} vanished between discovery and execution')
        return rec.out()
    rec.c('forwarded_keywords_scheduled' if fwd else 'triples_scheduled')
    W = fx.World(_world_seed(case))
    try:
        if fwd:
            variants = fx.forward_variants(via, f'{owner or case["module"]}.{func}', old_kw, W)
            if not variants:
                rec.inconc(f'no fixture for the forwarding caller {via} (forwards **kwargs to {owner or case["module"]}.{func})')
                return rec.out()
        elif _is_expr_family(owner) and inspect.isabstract(recv_cls):
            rec.c('receiver_abstract_class')
            rec.c('triple_skipped::' + trip)
            return rec.out()
        try:
            if not fwd:
                variants = fx.param_variants(owner, case['module'], func, old_kw, recv_cls.__name__ if recv_cls else None, W)
        except KeyError:
            import biogeme.exceptions as be

            try:
                recv_cls('n', None, None)
                rec.inconc(f'no instance factory for receiver class {recvq}')
            except be.BiogemeError:
                rec.c('receiver_constructor_refuses_by_design')
                rec.c('triple_skipped::' + trip)
            except BaseException:  # noqa
                rec.inconc(f'no instance factory for receiver class {recvq}')
            return rec.out()
    except BaseException as e:  # noqa
        import traceback

        rec.inconc(f'fixture for {trip} failed: {type(e).__name__}: {e} {traceback.format_exc()[-600:]}')
        return rec.out()
    if not variants:
        rec.inconc(f'no fixture for renamed keyword {trip}')
        return rec.out()
    code = ob.innermost_code(wrapper)
    compared = 0
    for i, v in enumerate(variants):
        if fwd:
            fn = getattr(v['recv'], case['via_name']) if v['recv'] is not None else getattr(importlib.import_module(case['via_module']), case['via_name'])
        elif v.get('ctor') is not None:
            fn = v['ctor']
        elif v['recv'] is not None:
            fn = getattr(v['recv'], func)
        else:
            fn = getattr(module, func)
        state = [v['recv'], list(v['args']), v['kwargs'], v['value']]
        kw_old = dict(v['kwargs'])
        kw_old[old_kw] = v['value']
        base = dict(fn=fn, args=tuple(v['args']), post=v.get('post'), state=state, files=v.get('files'))
        o = _obs(rec, dict(base, kwargs=kw_old), f'p{i}_old', [code])
        if 'returned' not in o:
            rec.inconc(f'{trip}: observation with the old keyword failed: {str(o)[:200]}')
            continue
        named = [ob.parse_param_warning(w[1]) for w in o['warnings']]
        named = [x for x in named if x and x[0] == old_kw]
        new_kw = named[0][1] if named else mapping[old_kw]
        kw_new = dict(v['kwargs'])
        check_effect = False
        ps = {}
        if new_kw:
            kw_new[new_kw] = v['value']
            rec.c('forwarded_keyword_renamed' if fwd else 'keyword_renamed')
            # the keyword the warning recommends must be one the function has
            try:
                ps = inspect.signature(inspect.unwrap(wrapper)).parameters
                explicit = {k for k, p in ps.items() if p.kind not in (p.VAR_KEYWORD, p.VAR_POSITIONAL)}
                open_kw = any(p.kind == p.VAR_KEYWORD for p in ps.values())
                if new_kw not in explicit and not open_kw:
                    rec.violation(f'C20/keyword-named-in-warning-is-not-a-parameter/{short}',
                                  f'{trip}: the warning says "use {new_kw}=..." but {func}{tuple(ps)} has no such parameter',
                                  {'keyword': trip, 'new_keyword_named_in_warning': new_kw, 'parameters': list(ps)})
                    rec.violation(f'C20/keyword-table-points-to-unknown-parameter/{_short(owner, case["module"])}.{func}:{old_kw}->{new_kw}',
                                  f'{trip}: the renamed-keyword table sends {old_kw} to {new_kw}, which {func}{tuple(ps)} does not have',
                                  {'keyword': trip, 'table': mapping, 'parameters': list(ps)})
                else:
                    rec.c('recommended_keyword_is_a_parameter' if new_kw in explicit else 'recommended_keyword_goes_to_var_keywords')
                    check_effect = new_kw not in explicit
            except (TypeError, ValueError):
                pass
        else:
            rec.c('forwarded_keyword_declared_ignored' if fwd else 'keyword_declared_ignored')
        n = _obs(rec, dict(base, kwargs=kw_new), f'p{i}_new', [code])
        if 'returned' not in n:
            rec.inconc(f'{trip}: observation with the new keyword failed: {str(n)[:200]}')
            continue
        # The value driven under both spellings is one that differs from the default, so leaving the keyword out must show.
        # (a) a current spelling that is not a declared parameter but only falls into **kwargs exists only if the function
        #     does something with it: no observable difference to the call without it = the table points to a keyword the
        #     function does not have (it is swallowed); (b) for declared parameters the same observation is a coverage
        #     counter: a value without effect on this receiver decides nothing about the renaming.
        if new_kw and (check_effect or (i == 0 and (fwd or recvq in (None, owner) or (recvq or '').rsplit('.', 1)[-1] in ('Plus', 'MonteCarlo')))):
            z = _obs(rec, dict(base, kwargs=dict(v['kwargs'])), f'p{i}_omitted', [code])
            if 'returned' in z:
                rec.ev()
                eff = [k for k, _ in ob.compare(n, z)]
                if eff:
                    rec.c('keyword_value_changes_behaviour_relative_to_default')
                    rec.c('keyword_effect_seen::' + f'{owner or case["module"]}.{func}:{old_kw}')
                    if check_effect:
                        rec.c('keyword_consumed_through_var_keywords_has_effect')
                elif check_effect:
                    rec.violation(f'C20/keyword-table-points-to-unknown-parameter/{_short(owner, case["module"])}.{func}:{old_kw}->{new_kw}',
                                  f'{trip}: the table / warning send {old_kw} to {new_kw}; {func} declares no such parameter and giving '
                                  f'{new_kw}={v["value"]!r} (a non-default value) changes nothing compared with leaving it out: the keyword is swallowed by **kwargs',
                                  {'keyword': trip, 'table': mapping, 'parameters': list(ps), 'with_keyword': _trim(n), 'without': _trim(z)})
                else:
                    rec.c('keyword_value_without_effect_on_this_receiver')
        rec.ev()
        compared += 1
        rec.key([trip, v['label'], _fixture_id(dict(v, args=list(v['args']) + [v['value']]))])
        rec.c('outcome_both_return' if o['returned'] and n['returned'] else ('outcome_both_raise' if not o['returned'] and not n['returned'] else 'outcome_mixed'))
        wit = {'keyword': trip, 'new_keyword_named_in_warning': new_kw, 'old': _trim(o), 'new': _trim(n)}
        if i == 0:
            rec.sample({'keyword': trip, 'new_keyword': new_kw, 'old_outcome': o.get('exc') or 'returned', 'new_outcome': n.get('exc') or 'returned',
                        'old_warnings': [w[:2] for w in o['warnings']]})
        diffs = ob.compare(o, n)
        if o['calls'] != n['calls']:
            diffs.append(('function-body-executed-different-number-of-times', f'{o["calls"]} vs {n["calls"]}'))
        for k, d in _check_warnings(o, n, lambda m: (ob.parse_param_warning(m) or (None,))[0] == old_kw, trip):
            rec.violation(f'C20/keyword-{k}/{short}', f'{trip}: {d}', wit)
        if diffs:
            kinds = sorted({k for k, _ in diffs})
            msg = f'{trip}: {old_kw}=v vs {new_kw}=v: ' + ' | '.join(f'{k}: {d}' for k, d in diffs)
            for k in kinds:
                rec.violation(f'C20/keyword-{k}/{short}', msg, dict(wit, kinds=kinds))
        else:
            rec.c('variants_identical')
        # -- both spellings in one call to the wrapper itself (receiver-independent: once per keyword)
        if not fwd and new_kw and i == 0 and (recvq in (None, owner) or (recvq or '').endswith('.Plus')):
            _both_spellings(rec, base, v, old_kw, new_kw, n, code, trip, short, wit)
    if compared:
        rec.c(('forward_compared::' if fwd else 'triple_compared::') + trip)
    return rec.out()


def _alt_value(v):
    """another admissible value of the same kind, or None"""
    if isinstance(v, bool):
        return not v
    if isinstance(v, int):
        return v + 3
    if isinstance(v, str):
        return v + ' (other)'
    if isinstance(v, list) and len(v) > 1:
        return v[:-1]
    return None


def _both_spellings(rec, base, v, old_kw, new_kw, n_new, code, trip, short, wit):
    """Old and current spelling of one keyword in the same call, both orders.

    Equal values: whatever precedence the wrapper applies, the call must behave like ``f(new=v)`` (judged: the old
    spelling adds nothing but the warning). Different values: the statement gives no rule which of two contradicting
    spellings a *direct* call should honour (the old-spelling value must survive a current spelling that a forwarding
    caller filled in by default -- that is judged on the package's real forwarding callers): the outcome is classified
    and counted, not judged."""
    from ..oracle import c20_observe as ob

    val = v['value']
    for tag, order in (('old-first', (old_kw, new_kw)), ('new-first', (new_kw, old_kw))):
        kw = dict(v['kwargs'])
        for k in order:
            kw[k] = val
        b = _obs(rec, dict(base, kwargs=kw), f'b_{tag}_eq', [code])
        if 'returned' not in b:
            continue
        rec.ev()
        rec.c('both_spellings_equal_values_observed')
        d = [(k, x) for k, x in ob.compare(b, n_new) if k not in ('log-records-differ', 'printed-output-differs')]
        if d:
            rec.violation(f'C20/keyword-both-spellings-with-equal-values-differ-from-current-spelling/{short}',
                          f'{trip}: f({order[0]}=v, {order[1]}=v) differs from f({new_kw}=v): ' + ' | '.join(f'{k}: {x}' for k, x in d)[:600],
                          dict(wit, order=tag, both=_trim(b)))
        else:
            rec.c('both_spellings_equal_values_like_current_spelling')
    alt = _alt_value(val)
    if alt is None:
        rec.c('both_spellings_no_alternative_value_for_this_keyword')
        return
    kw = dict(v['kwargs'])
    kw[new_kw] = alt
    n_alt = _obs(rec, dict(base, kwargs=kw), 'b_new_alt', [code])
    if 'returned' not in n_alt:
        return
    if not ob.compare(n_alt, n_new):
        rec.c('both_spellings_alternative_value_indistinguishable')
        return
    for tag, order in (('old-first', ((old_kw, val), (new_kw, alt))), ('new-first', ((new_kw, alt), (old_kw, val)))):
        kw = dict(v['kwargs'])
        for k, x in order:
            kw[k] = x
        b = _obs(rec, dict(base, kwargs=kw), f'b_{tag}_ne', [code])
        if 'returned' not in b:
            continue
        rec.ev()
        like_old = not [k for k, _ in ob.compare(b, n_new) if k in ('result-differs', 'state-after-call-differs', 'old-raises-replacement-returns',
                                                                  'old-returns-replacement-raises', 'exception-type-differs', 'files-differ')]
        like_new = not [k for k, _ in ob.compare(b, n_alt) if k in ('result-differs', 'state-after-call-differs', 'old-raises-replacement-returns',
                                                                  'old-returns-replacement-raises', 'exception-type-differs', 'files-differ')]
        who = 'old-spelling-value-used' if like_old and not like_new else ('current-spelling-value-used' if like_new and not like_old else 'neither-or-both')
        rec.c(f'both_spellings_different_values_{tag}_{who}_not_judged')


_NOTICE = None


def _run_attr(case):
    """Old attribute (property) vs the attribute it stands for, on one snapshot of the receiver: reading, assigning a value
    that changes behaviour, and a follow-up history executed after the assignment. The notice of an old attribute is a log
    record ('Obsolete syntax. Use X instead of Y'), the only extra effect allowed."""
    import re

    from ..gen import c20_fixtures as fx
    from ..oracle import c20_compare as cmp
    from ..oracle import c20_observe as ob

    rec = Rec(case)
    owner, old = case['owner'], case['name']
    cls = ob.resolve_class(owner)
    prop = inspect.getattr_static(cls, old, None)
    rec_ = [a for a in ob.old_attributes() if a['owner'] == owner and a['name'] == old]
    tag = f'{owner}.{old}'
    short = f'{_short(owner, case["module"])}.{old}'
    if not isinstance(prop, property) or not rec_:
        rec.inconc(f'old attribute {tag} vanished between discovery and execution')
        return rec.out()
    rec.c('old_attributes_scheduled')
    W = fx.World(_world_seed(case))
    try:
        variants = fx.attribute_variants(owner, old, W)
    except BaseException as e:  # noqa
        import traceback

        rec.inconc(f'fixture for old attribute {tag} failed: {type(e).__name__}: {e} {traceback.format_exc()[-500:]}')
        return rec.out()
    if not variants:
        rec.inconc(f'no fixture for the old attribute {tag}')
        return rec.out()
    notice = re.compile(r'Use\s+(\w+)\s+instead\s+of\s+' + re.escape(old) + r'\b')

    def held(obj):
        return {k: id(v) for k, v in vars(obj).items() if not isinstance(v, (int, float, str, bool, type(None), tuple))}

    def strip_notice(o):
        """-> (observation without the notice records, replacement names announced)"""
        names, keep = [], []
        for lv, msg in o.get('log', []):
            m = notice.search(msg)
            if m and 'bsolete' in msg:
                names.append(m.group(1))
            else:
                keep.append([lv, msg])
        return dict(o, log=keep), names

    def judge(what, label, o, n, wit, private_ok=True):
        """old vs new observation; differences confined to private (underscore) attributes are counted, not judged"""
        o2, names = strip_notice(o)
        diffs = []
        for k, d in ob.compare(dict(o2, state=None), dict(n, state=None)):
            if k == 'exception-message-differs':
                continue  # the message of an AttributeError spells the attribute name
            diffs.append((k, d))
        sd = cmp.diff(o.get('state'), n.get('state'), limit=60)
        pub = [x for x in sd if not re.search(r'/_\w+', x.split(':')[0])]
        if pub:
            diffs.append(('state-after-call-differs', '; '.join(pub[:4])))
        elif sd:
            rec.c('old_attribute_state_differs_only_in_private_attributes_not_judged')
        if len(names) == 1:
            rec.c('old_attribute_exactly_one_obsolete_syntax_notice')
        elif not names:
            rec.c('old_attribute_without_notice_not_judged')
        else:
            diffs.append(('notice-repeated', f'{len(names)} notices'))
        extra, missing = ob.extra_warnings(o, n)
        if missing or [w for w in extra if w[0] not in ('DeprecationWarning',)]:
            diffs.append(('warnings-differ', f'extra {[w[:2] for w in extra][:2]} missing {missing[:2]}'))
        for k, d in diffs:
            rec.violation(f'C20/old-attribute-{what}-{k}/{short}', f'{tag} [{label}] {what}: {k}: {d}', wit)
        if not diffs:
            rec.c(f'old_attribute_{what}_identical')
        return names

    compared = 0
    for i, v in enumerate(variants):
        recv = v['recv']
        new = rec_[0]['declared']
        if new is None or not hasattr(recv, new):
            tw = [a for a in dir(recv) if a != old and cmp.norm_name(a) == cmp.norm_name(old)]
            new = tw[0] if len(tw) == 1 else new
        if new is None or not hasattr(recv, new):
            rec.violation(f'C20/old-attribute-replacement-does-not-exist/{short}', f'{tag}: replacement {new!r} is not an attribute of the receiver', None)
            continue
        # -- reading
        o = _obs(rec, dict(fn=lambda: getattr(recv, old), state=[recv]), f't{i}_get_old', [])
        n = _obs(rec, dict(fn=lambda: getattr(recv, new), state=[recv]), f't{i}_get_new', [])
        if 'returned' not in o or 'returned' not in n:
            rec.inconc(f'{tag}/{v["label"]}: observation of the read access failed')
            continue
        rec.ev()
        compared += 1
        rec.key([tag, 'get', v['label'], _fixture_id(dict(v, args=[], kwargs={}))])
        wit = {'attribute': tag, 'replacement': new, 'variant': v['label'], 'old': _trim(o), 'new': _trim(n)}
        names = judge('read', v['label'], o, n, wit)
        if names and names[0] != new:
            rec.violation(f'C20/old-attribute-notice-names-other-replacement/{short}', f'{tag}: notice says use {names[0]}, the twin attribute is {new}', wit)
        if i == 0:
            rec.sample({'old_attribute': tag, 'replacement': new, 'read_old': o.get('result'), 'read_new': n.get('result'), 'notice': names})
        # -- assigning
        val = v['value']
        if val is None:
            val = 1  # read-only pair: both must refuse the assignment alike

        def setter(name):
            def f():
                before = held(recv)
                setattr(recv, name, val)
                after = held(recv)
                return {'held_objects_replaced': sorted(k for k in after if k in before and before[k] != after[k]),
                        'held_objects_added': sorted(k for k in after if k not in before and not k.startswith('_'))}

            return f

        hist = v.get('history')
        call = dict(state=[recv], post=(lambda _r: hist(recv)) if hist else None)
        o = _obs(rec, dict(call, fn=setter(old)), f't{i}_set_old', [])
        n = _obs(rec, dict(call, fn=setter(new)), f't{i}_set_new', [])
        n2 = _obs(rec, dict(call, fn=setter(new)), f't{i}_set_new_again', [])
        if 'returned' not in o or 'returned' not in n or 'returned' not in n2:
            rec.inconc(f'{tag}/{v["label"]}: observation of the assignment failed: {str(o)[:100]} {str(n)[:100]}')
            continue
        rec.ev()
        rec.key([tag, 'set', v['label'], repr(val), _fixture_id(dict(v, args=[], kwargs={}))])
        rec.c('old_attribute_assignment_accepted_by_new_name' if n['returned'] else 'old_attribute_assignment_refused_by_new_name')
        if ob.compare(n, n2):
            # assigning through the NEW name is itself not reproducible on this state (e.g. an engine resized upwards):
            # nothing to hold the old name to
            rec.c('old_attribute_new_name_history_not_deterministic_not_judged')
            rec.c('not_deterministic/' + short + '/' + v['label'])
            continue
        wit = {'attribute': tag, 'replacement': new, 'variant': v['label'], 'value': repr(val), 'old': _trim(o), 'new': _trim(n)}
        if prop.fset is None:
            # No hand-written setter is kept under the old name (a read-only view); whether assigning through it should
            # work is outside the statement (no notice names a replacement for assignment): classified, not judged.
            rec.c('old_attribute_read_only_and_replacement_read_only_too' if not n['returned'] else
                  'old_attribute_read_only_but_replacement_assignable_not_judged')
            if n['returned']:
                rec.c('read_only_old_attribute_with_assignable_replacement/' + short)
            continue
        judge('assignment', v['label'], o, n, wit)
        if n['returned'] and n.get('result', {}).get('~dict') and any(k == 'held_objects_replaced' and x for k, x in n['result']['~dict']):
            rec.c('old_attribute_replacement_replaces_held_objects')
        if hist and n['returned']:
            rec.c('old_attribute_history_compared')
    if compared:
        rec.c('attr_compared::' + tag)
    return rec.out()


# ---------------------------------------------------------------------------
# aggregated coverage requirements
# ---------------------------------------------------------------------------

def finalize(cov, tier):
    from ..oracle import c20_observe as ob

    out = []
    d = ob.discover()
    if d['import_failures']:
        out.append(f'modules that could not be imported for discovery: {d["import_failures"]}')
    # run-time discovery against the decorators written in the sources
    al, pa = ob.static_scan()
    rt_al = {(a['module'], (a['owner'] or '').split('.')[-1], a['name']) for a in d['aliases']}
    rt_pa = {(p['module'], (p['owner'] or '').split('.')[-1], p['name']) for p in d['params']}
    if al != rt_al:
        out.append(f'aliases in the sources but not discovered at run time: {sorted(al - rt_al)[:10]}; discovered but not in the sources: {sorted(rt_al - al)[:10]}')
    if pa != rt_pa:
        out.append(f'renamed-keyword wrappers in the sources but not discovered: {sorted(pa - rt_pa)[:10]}; reverse: {sorted(rt_pa - pa)[:10]}')
    cov['aliases_discovered'] = len(d['aliases'])
    cov['aliases_in_sources'] = len(al)
    cov['keyword_wrappers_discovered'] = len(d['params'])
    cov['keyword_wrappers_in_sources'] = len(pa)
    cov['renamed_keywords_discovered'] = sum(len(p['mapping']) for p in d['params'])
    # every pair either compared or skipped for a stated structural reason
    pairs = {f'{a["owner"] or a["module"]}.{a["name"]}@{r or "-"}' for a in d['aliases'] for r in a['receivers']}
    done = {k.split('::', 1)[1] for k in cov if k.startswith('pair_compared::')}
    skipped = {k.split('::', 1)[1] for k in cov if k.startswith('pair_skipped::')}
    miss = sorted(pairs - done - skipped)
    if miss:
        out.append(f'{len(miss)} alias x receiver pairs never compared: {miss[:8]}')
    trips = {f'{p["owner"] or p["module"]}.{p["name"]}:{k}@{r or "-"}' for p in d['params'] for k in p['mapping'] for r in p['receivers']}
    tdone = {k.split('::', 1)[1] for k in cov if k.startswith('triple_compared::')}
    tskip = {k.split('::', 1)[1] for k in cov if k.startswith('triple_skipped::')}
    tmiss = sorted(trips - tdone - tskip)
    if tmiss and tier == 'thorough':
        out.append(f'{len(tmiss)} renamed keyword x receiver triples never compared: {tmiss[:8]}')
    per_kw = {}
    for t in tdone:
        per_kw[t.split('@')[0]] = per_kw.get(t.split('@')[0], 0) + 1
    lonely = sorted(k for k in {t.split('@')[0] for t in trips} if per_kw.get(k, 0) == 0)
    if lonely:
        out.append(f'renamed keywords never compared on any receiver: {lonely}')
    kws = {f'{p["owner"] or p["module"]}.{p["name"]}:{k}' for p in d['params'] for k, nk in p['mapping'].items() if nk}
    seen_eff = {k.split('::', 1)[1] for k in cov if k.startswith('keyword_effect_seen::')}
    noeff = sorted(kws - seen_eff)
    cov['renamed_keywords_whose_value_showed_an_effect'] = len(kws & seen_eff)
    cov['renamed_keywords_whose_value_never_showed_an_effect'] = len(noeff)
    if noeff:
        out.append(f'renamed keywords driven only with values that changed nothing relative to the default: {noeff}')
    # old attributes
    attrs = {f'{a["owner"]}.{a["name"]}' for a in ob.old_attributes()}
    adone = {k.split('::', 1)[1] for k in cov if k.startswith('attr_compared::')}
    if attrs - adone:
        out.append(f'old attributes never compared: {sorted(attrs - adone)}')
    cov['old_attributes_found_in_sources'] = len(attrs)
    cov['old_attributes_compared'] = len(attrs & adone)
    # forwarding callers
    fw = ob.forwarders()
    ftr = {f'{f["owner"] or f["module"]}.{f["name"]}:{k}@via:{f["via_owner"] or f["via_module"]}.{f["via_name"]}' for f in fw for k in f['mapping']}
    fdone = {k.split('::', 1)[1] for k in cov if k.startswith('forward_compared::')}
    fmiss = sorted(ftr - fdone)
    if fmiss:
        out.append(f'{len(fmiss)} renamed keywords never compared through a forwarding caller: {fmiss[:8]}')
    cov['forwarding_callers_found_in_sources'] = len(fw)
    cov['forwarded_keywords'] = len(ftr)
    cov['forwarded_keywords_compared'] = len(fdone & ftr)
    cov['alias_receiver_pairs'] = len(pairs)
    cov['alias_receiver_pairs_compared'] = len(done & pairs)
    cov['alias_receiver_pairs_skipped_not_instantiable'] = len(skipped & pairs)
    cov['aliases_compared_on_some_receiver'] = len({p.split('@')[0] for p in done})
    cov['keyword_receiver_triples'] = len(trips)
    cov['keyword_receiver_triples_compared'] = len(tdone & trips)
    cov['keyword_receiver_triples_skipped_not_instantiable'] = len(tskip & trips)
    cov['receiver_classes_seen'] = len({p.split('@')[1] for p in done | tdone})
    for k in [k for k in cov if '::' in k]:
        del cov[k]
    for k in ('exactly_one_deprecation_warning', 'variants_identical', 'variants_creating_files', 'outcome_both_raise', 'outcome_both_return',
              'name_rule_same_name_respelled', 'keyword_renamed', 'keyword_declared_ignored'):
        if cov.get(k, 0) == 0:
            out.append(f'monitor never evaluated: {k}')
    return out
