"""C13 — data-set transformations keep rows and values intact.

Workload: seeded random tables (1-60 rows, duplicated values / rows, group column, integer
and float dtypes, index 0..n-1 / offset / shuffled / with gaps / with repeated labels) and random
sequences (1-8) of remove / add_column / define_variable / values_from_database / scale_column /
panel / split / sample_with_replacement / sample_individual_map_with_replacement / extract_rows
(optionally continuing on the extracted database) / generate_flat_panel_dataframe / count /
dump_on_file on the REAL ``biogeme.database.Database``; formulas and conditions from the C01
grammar.  Plus a few scripted sequences that pin the situations the property names (gaps left by
remove, negative condition values, every fold of a split, a-b-a columns in a panel ...).

Monitors: icontract post-conditions on the real methods (biomon/oracle/c13_contracts.py) fed with
the reference evaluator's value of each formula, and a plain-Python shadow table
(biomon/oracle/c13_shadow.py) that executes the same history and is compared with
``Database.data`` (labels, columns, order, values) after every operation.
The same post-conditions also watch the repository's own tests/functions/test_database.py.
"""
from __future__ import annotations

import json
import os
import random
import subprocess
import sys
import time

from .. import env
from ..rec import Rec, stable_hash
import copy
from collections import Counter

LEVEL = 'exploration'
RULE = (
    'cases = seeded random tables (1-60 rows; real, positive, integer-coded, 0/1, group and per-individual-constant columns; '
    'duplicated values and rows; int64 or float64 dtypes; index 0..n-1, offset, shuffled, with gaps or with repeated labels) '
    'each with a random sequence of 1-8 Database operations generated against the state left by the previous ones '
    '(formulas from the C01 expression grammar over the columns existing at that moment), plus scripted sequences; '
    'a case is non-trivial when the table has >= 2 rows and >= 2 operations were executed and judged; '
    'distinct = hash of (table, index labels, dtypes, operation descriptors)'
)
ASSUMPTIONS = [
    'formula values come from the numpy reference evaluator biomon/oracle/evalast.py (cases it finds out-of-domain, '
    'ill-conditioned, within 1e-6 of a branch tie, or exactly at a tie whose operands involve a transcendental / composite operator '
    '(biomon/oracle/c13_ties.py) are regenerated, not judged); stored values are accepted at rtol 1e-9 / '
    'atol 1e-11 (1e-6 / 1e-8 when the formula contains the engine normal CDF) and the shadow then adopts the stored value',
    'a remove condition is used only when every row is exactly 0 or farther than 1e-6 from 0 in the reference evaluation',
    'index labels are not part of the property: tables are compared on columns, row order and values (panel() and remove() on panel '
    'data renumber the index); for split / bootstrap two rows are the same row when index label and all values coincide, and when '
    'only the labels of the returned frames differ the judgement is repeated on values alone; partitions are judged on multisets',
    'individuals handed out by sample_individual_map_with_replacement are read as (id, first position, last position), '
    'which is how biogeme hands the map to the engine',
]
MIN_DISTINCT = {'quick': 1000, 'thorough': 8000}
CASE_TIMEOUT = 120
SHARD_TIMEOUT = {'quick': 2400, 'thorough': 14400}  # generous: the machine is shared; a watchdog firing is inconclusive, never a verdict
N_RANDOM = {'quick': 2500, 'thorough': 15000}


# ---------------------------------------------------------------------------
# scripted sequences


def _t(data, labels=None, ints=()):
    cols = list(data)
    n = len(data[cols[0]])
    return {'cols': cols, 'data': {c: [float(v) for v in data[c]] for c in cols}, 'labels': list(labels) if labels else list(range(n)),
            'index_kind': 'scripted', 'ints': list(ints)}


def _sp(real=(), pos=(), key=(), av=(), group=None, keysets=None, special=None):
    from ..gen import c13_ops

    sp = c13_ops.TableSpace(random.Random(0))
    sp.real, sp.pos, sp.key, sp.av = list(real), list(pos), list(key), list(av)
    sp.keysets = dict(keysets or {})
    sp.group = group
    sp.special = dict(special or {})
    sp.betas = {'b_0': [0.5, 0]}
    return sp


def _eq(c, v):
    return {'ast': ['eq', ['var', c], ['num', float(v)]], 'shared': []}


_PANEL = {'Person': [7, 7, 7, 2, 2, 5, 5, 5, 5, 9], 'x': [1.5, -2, 1.5, 0.5, 4, 3, -1, 3, 8, 0.25], 'p': [1, 2, 1, 1, 1, 3, 2, 3, 1, 2],
          'Age': [40, 40, 40, 25, 25, 63, 63, 63, 63, 18], 'k': [1, 2, 3, 1, 2, 3, 1, 2, 3, 1], 'av': [1, 0, 1, 1, 1, 0, 1, 1, 0, 1]}


def _panel_sp():
    return _sp(real=['x'], pos=['p'], key=['k'], av=['av'], group='Person', keysets={'k': [1, 2, 3]})


DIRECTED = {
    # index labels repeated (pd.concat of two files), remove one row
    'repeated-labels-remove': lambda: (
        _t({'x': [1, 2, 3, 4], 'k': [1, 2, 1, 3], 'p': [1, 1, 2, 2], 'av': [1, 1, 0, 1]}, labels=[0, 1, 0, 1]),
        _sp(real=['x'], pos=['p'], key=['k'], av=['av'], keysets={'k': [1, 2, 3]}),
        [{'op': 'remove', **_eq('x', 1)}, {'op': 'count', 'column': 'k', 'value': 1.0}]),
    # panel, then remove one individual, then bootstrap the individuals
    'panel-remove-bootstrap-individuals': lambda: (
        _t(_PANEL), _panel_sp(),
        [{'op': 'panel', 'column': 'Person'}, {'op': 'remove', **_eq('Person', 5)}, {'op': 'sample_map', 'size': 60},
         {'op': 'flat', 'identical': None}]),
    'panel-remove-part-of-individual-bootstrap': lambda: (
        _t(_PANEL), _panel_sp(),
        [{'op': 'panel', 'column': 'Person'}, {'op': 'remove', **_eq('k', 1)}, {'op': 'sample_map', 'size': 60}]),
    'panel-remove-repanel-bootstrap': lambda: (
        _t(_PANEL), _panel_sp(),
        [{'op': 'panel', 'column': 'Person'}, {'op': 'remove', **_eq('Person', 5)}, {'op': 'panel', 'column': 'Person'},
         {'op': 'sample_map', 'size': 60}, {'op': 'split', 'k': 3, 'groups': None}]),
    'gaps-then-extract': lambda: (
        _t(_PANEL), _panel_sp(),
        [{'op': 'remove', **_eq('k', 2)}, {'op': 'extract_rows', 'positions': [1, 2, 3, 4], 'form': 'range', 'switch': False},
         {'op': 'extract_rows', 'positions': [6, 0, 3, 3], 'form': 'list', 'switch': True}, {'op': 'remove', **_eq('k', 3)},
         {'op': 'count', 'column': 'k', 'value': 1.0}]),
    'gaps-then-add-column': lambda: (
        _t(_PANEL), _panel_sp(),
        [{'op': 'remove', **_eq('k', 1)}, {'op': 'add_column', 'name': 'Xnew', 'ast': ['add', ['mul', ['var', 'x'], ['var', 'p']], ['var', 'Age']], 'shared': []},
         {'op': 'define_variable', 'name': 'a_new', 'ast': ['sub', ['var', 'Xnew'], ['beta', 'b_0']], 'shared': []},
         {'op': 'values', 'ast': ['mul', ['var', 'a_new'], ['num', 2.0]], 'shared': []},
         {'op': 'scale_column', 'column': 'Xnew', 'scale': 0.5}, {'op': 'sample', 'size': 25}, {'op': 'dump'}]),
    'negative-condition-values': lambda: (
        _t(_PANEL), _panel_sp(),
        [{'op': 'remove', 'ast': ['mul', ['lt', ['var', 'x'], ['num', 0.0]], ['var', 'x']], 'shared': []},
         {'op': 'remove', 'ast': ['neg', ['eq', ['var', 'k'], ['num', 3.0]]], 'shared': []}]),
    'remove-twice-reports-last-number': lambda: (
        _t(_PANEL), _panel_sp(),
        [{'op': 'remove', **_eq('Person', 2)}, {'op': 'remove', **_eq('Person', 9)}, {'op': 'remove', 'ast': ['num', 0.0, 'raw'], 'shared': []}]),
    'panel-split-every-fold': lambda: (
        _t(_PANEL), _panel_sp(),
        [{'op': 'split', 'k': 4, 'groups': None}, {'op': 'split', 'k': 3, 'groups': 'Person'}, {'op': 'panel', 'column': 'Person'},
         {'op': 'split', 'k': 2, 'groups': None}, {'op': 'split', 'k': 4, 'groups': 'Person'}, {'op': 'split', 'k': 10, 'groups': None}]),
    'flat-panel-a-b-a': lambda: (
        _t(_PANEL), _panel_sp(),
        [{'op': 'panel', 'column': 'Person'}, {'op': 'flat', 'identical': None}, {'op': 'flat', 'identical': ['Age']},
         {'op': 'flat', 'identical': []}, {'op': 'sample_map', 'size': None}]),
    'gaps-then-panel': lambda: (
        _t(_PANEL, labels=[3, 4, 8, 10, 11, 12, 20, 21, 22, 30]), _panel_sp(),
        [{'op': 'remove', **_eq('k', 2)}, {'op': 'panel', 'column': 'Person'}, {'op': 'sample_map', 'size': 40}, {'op': 'flat', 'identical': None},
         {'op': 'extract_rows', 'positions': [0, 1, 2], 'form': 'range', 'switch': False}]),
    # a block of consecutive rows extracted with a range object, then in-place operations on both databases
    'extract-range-then-scale-both-databases': lambda: (
        _t(_PANEL, ints=['Person', 'k', 'av']), _panel_sp(),
        [{'op': 'remove', **_eq('k', 2)}, {'op': 'extract_rows', 'positions': [1, 2, 3, 4], 'form': 'range', 'switch': False},
         {'op': 'scale_column', 'column': 'x', 'scale': 10, 'on': 1}, {'op': 'scale_column', 'column': 'p', 'scale': 0.5, 'on': 0},
         {'op': 'scale_column', 'column': 'k', 'scale': 2, 'on': 1}, {'op': 'scale_column', 'column': 'k', 'scale': 3, 'on': 0},
         {'op': 'remove', **_eq('av', 0), 'on': 1}, {'op': 'count', 'column': 'k', 'value': 3.0, 'on': 0}]),
    'extract-other-argument-forms-then-scale': lambda: (
        _t(_PANEL, ints=['Person', 'k', 'av']), _panel_sp(),
        [{'op': 'extract_rows', 'positions': [0, 2, 4, 6, 8], 'range': [0, 10, 2], 'form': 'srange', 'switch': False},
         {'op': 'extract_rows', 'positions': [3, 4, 5], 'form': 'tuple', 'switch': False},
         {'op': 'extract_rows', 'positions': [5, 6, 7, 7], 'form': 'array', 'switch': False},
         {'op': 'extract_rows', 'positions': [9, 8, 7, 6, 5, 4, 3, 2, 1, 0], 'range': [9, -1, -1], 'form': 'srange', 'switch': False},
         {'op': 'scale_column', 'column': 'x', 'scale': -2.0, 'on': 1}, {'op': 'scale_column', 'column': 'k', 'scale': 2, 'on': 2},
         {'op': 'scale_column', 'column': 'p', 'scale': 3, 'on': 3}, {'op': 'scale_column', 'column': 'x', 'scale': 0.5, 'on': 4},
         {'op': 'scale_column', 'column': 'x', 'scale': 4, 'on': 0}, {'op': 'scale_column', 'column': 'av', 'scale': 5, 'on': 0}]),
    'bootstrap-sample-and-split-part-become-databases': lambda: (
        _t(_PANEL, ints=['Person', 'k', 'av']), _panel_sp(),
        [{'op': 'sample', 'size': 12}, {'op': 'adopt', 'which': 0}, {'op': 'scale_column', 'column': 'x', 'scale': 10},
         {'op': 'split', 'k': 3, 'groups': None, 'on': 0}, {'op': 'adopt', 'which': 0}, {'op': 'scale_column', 'column': 'p', 'scale': 2},
         {'op': 'scale_column', 'column': 'k', 'scale': 2}, {'op': 'scale_column', 'column': 'x', 'scale': 0.5, 'on': 0}]),
    # values that are close but not equal: large neighbouring codes, nearly equal floats, (almost) zero
    'close-values-are-different-values': lambda: (
        _t({'code': [1200001, 1200002, 1200007, 1200001, 1200002, 1200003, 1200001, 1200007], 'near': [52000.0, 52000.4, 52000.5, 52000.4, 52000.0, 52000.5, 52000.5, 52000.4],
            'tiny': [0.0, -0.0, 1e-9, -1e-9, 3e-9, 1e-12, 0.0, 1e-300], 'x': [1.5, -2, 1.5, 0.5, 4, 3, -1, 3], 'p': [1, 2, 1, 1, 1, 3, 2, 3],
            'k': [1, 2, 3, 1, 2, 3, 1, 2], 'av': [1, 0, 1, 1, 1, 0, 1, 1]}, ints=['code', 'k', 'av']),
        _sp(real=['x'], pos=['p'], key=['k'], av=['av'], keysets={'k': [1, 2, 3]}, special={'code': 'bigcode', 'near': 'nearfloat', 'tiny': 'nearzero'}),
        [{'op': 'count', 'column': 'code', 'value': 1200001.0, 'asked': 'present'}, {'op': 'count', 'column': 'code', 'value': 1200004.0, 'asked': 'close'},
         {'op': 'count', 'column': 'near', 'value': 52000.4, 'asked': 'present'}, {'op': 'count', 'column': 'near', 'value': 52000.45, 'asked': 'close'},
         {'op': 'count', 'column': 'tiny', 'value': 0.0, 'asked': 'present'}, {'op': 'count', 'column': 'tiny', 'value': 2e-9, 'asked': 'close'},
         {'op': 'segmentation', 'column': 'near', 'keys': [52000.0, 52000.4, 52000.5], 'variant': 'exact'},
         {'op': 'segmentation', 'column': 'code', 'keys': [1200001, 1200002, 1200003, 1200007, 1200004], 'variant': 'extra_close', 'int_keys': True},
         {'op': 'split', 'k': 3, 'groups': 'near'}, {'op': 'split', 'k': 4, 'groups': 'code'},
         {'op': 'add_column', 'name': 'Xnew', 'ast': ['sub', ['var', 'near'], ['num', 52000.4]], 'shared': [], 'exact': True},
         {'op': 'define_variable', 'name': 'a_new', 'ast': ['mul', ['var', 'tiny'], ['num', 1e10]], 'shared': [], 'exact': True},
         {'op': 'remove', 'ast': ['eq', ['var', 'code'], ['num', 1200002.0]], 'shared': [], 'exact': True},
         {'op': 'remove', 'ast': ['mul', ['lt', ['var', 'tiny'], ['num', 0.0]], ['var', 'tiny']], 'shared': [], 'exact': True},
         {'op': 'scale_column', 'column': 'near', 'scale': 1e-3}, {'op': 'count', 'column': 'near', 'value': 52.0004, 'asked': 'close'},
         {'op': 'scale_column', 'column': 'code', 'scale': 3}, {'op': 'count', 'column': 'code', 'value': 3600003.0, 'asked': 'present'}]),
    'shuffled-labels-bootstrap': lambda: (
        _t(_PANEL, labels=[9, 3, 4, 0, 7, 1, 8, 2, 6, 5], ints=['Person', 'k', 'av']), _panel_sp(),
        [{'op': 'sample', 'size': 40}, {'op': 'remove', **_eq('k', 3)}, {'op': 'sample', 'size': 40},
         {'op': 'extract_rows', 'positions': [0, 1, 2, 3], 'form': 'range', 'switch': False}, {'op': 'scale_column', 'column': 'k', 'scale': 2},
         {'op': 'count', 'column': 'k', 'value': 4.0}]),
}


def cases(seed, tier):
    out = [{'mode': 'directed', 'name': nm} for nm in DIRECTED]
    out += [{'mode': 'random', 'seed': seed, 'i': i} for i in range(N_RANDOM[tier])]
    return out


def warmup():
    import warnings

    warnings.simplefilter('ignore')
    import biogeme.database  # noqa
    import biogeme.expressions  # noqa
    from ..oracle import c13_contracts

    c13_contracts.install()


# ---------------------------------------------------------------------------
# oracle self-test


def selftest():
    from ..oracle import c13_shadow as sh

    bad = []
    # docstring example of flatten_database (row_name None)
    s = {'labels': [0, 1, 2, 3, 4], 'cols': ['ID', 'Age', 'Cost'], 'rows': [(1.0, 23.0, 34.0), (1.0, 23.0, 45.0), (1.0, 23.0, 12.0), (2.0, 45.0, 65.0), (2.0, 45.0, 34.0)]}
    want, names = sh.pivot(s, 'ID')
    if names != {'Age', '1_Cost', '2_Cost', '3_Cost'} or want[2.0] != {'Age': 45.0, '1_Cost': 65.0, '2_Cost': 34.0, '3_Cost': None} or want[1.0]['3_Cost'] != 12.0:
        bad.append('pivot does not reproduce the documented example')
    w2, n2 = sh.pivot(s, 'ID', ['ID'])
    if n2 != {f'{k}_{c}' for k in (1, 2, 3) for c in ('Age', 'Cost')} or w2[2.0]['3_Age'] is not None:
        bad.append('pivot with declared identical columns wrong')
    if sh.individuals(s, 'ID') != [(1.0, 0, 2, 3, True), (2.0, 3, 4, 2, True)]:
        bad.append('individuals() wrong')
    s3 = dict(s, rows=[s['rows'][i] for i in (0, 3, 1, 2, 4)])
    if sh.contiguous(s3, 'ID') or not sh.contiguous(s, 'ID'):
        bad.append('contiguous() wrong')
    post, m = sh.after_panel(s3, 'ID')
    if post['rows'] != s['rows'] or m != [(1.0, 0, 2), (2.0, 3, 4)]:
        bad.append('after_panel wrong')
    # a correct and several deliberately wrong splits
    def fold(val):
        est = [i for i in range(5) if i not in val]
        mk = lambda ix: {'labels': [s['labels'][i] for i in ix], 'cols': s['cols'], 'rows': [s['rows'][i] for i in ix]}
        return mk(est), mk(val)

    good = [fold([0, 1, 2]), fold([3, 4])]
    if sh.judge_split(s, good, 2, 'ID'):
        bad.append('judge_split rejects a correct split')
    for name, folds, g, mech in [
        ('overlap', [fold([0, 1, 2]), fold([2, 3, 4])], None, 'split-validation-parts-overlap'),
        ('miss', [fold([0, 1]), fold([3, 4])], None, 'split-validation-parts-miss-rows'),
        ('group', [fold([0, 1]), fold([2, 3, 4])], 'ID', 'split-group-separated'),
        ('complement', [(good[0][1], good[0][1]), good[1]], None, 'split-estimation-not-complement-of-validation'),
        ('nfolds', good, None, 'split-number-of-folds'),
    ]:
        got = [m for m, _ in sh.judge_split(s, folds, 3 if name == 'nfolds' else 2, g)]
        if mech not in got:
            bad.append(f'judge_split misses a planted {name} fault (got {got})')
    if sh.judge_sample(s, good[0][0], 2) or not sh.judge_sample(s, {'labels': [0], 'cols': s['cols'], 'rows': [(1.0, 23.0, 35.0)]}, 1) \
            or sh.judge_sample(s, {'labels': [9], 'cols': s['cols'], 'rows': [s['rows'][0]]}, 1):
        bad.append('judge_sample wrong')
    cur = [(1.0, 0, 2), (2.0, 3, 4)]
    if sh.judge_individual_sample(s, 'ID', cur, [cur[1], cur[1]], 2):
        bad.append('judge_individual_sample rejects existing individuals')
    if [m for m, _ in sh.judge_individual_sample(s, 'ID', cur, [(3.0, 5, 6)], 1)] != ['bootstrap-individual-not-in-table']:
        bad.append('judge_individual_sample misses an unknown individual')
    if [m for m, _ in sh.judge_individual_sample(s, 'ID', cur + [(3.0, 5, 6)], [(3.0, 5, 6)], 1)] != ['bootstrap-individual-from-out-of-date-map']:
        bad.append('judge_individual_sample misses a stale individual')
    if sh.judge_extract(s, [4, 0, 0], {'labels': [4, 0, 0], 'cols': s['cols'], 'rows': [s['rows'][4], s['rows'][0], s['rows'][0]]}):
        bad.append('judge_extract rejects a correct extraction')
    if not sh.judge_extract(s, [1], {'labels': [0], 'cols': s['cols'], 'rows': [s['rows'][0]]}):
        bad.append('judge_extract misses a wrong row')
    if sh.after_remove(s, [1, 0, 0, 1, 0])['labels'] != [1, 2, 4]:
        bad.append('after_remove wrong')
    # shadow operations
    t = sh.Shadow(['a', 'b'], [(1, 2), (3, 4), (5, 6)], [5, 6, 7])
    t.remove([0, 1, 0])
    t.add_column('c', [9, 8])
    t.scale('a', 2)
    if t.snapshot() != {'labels': [5, 7], 'cols': ['a', 'b', 'c'], 'rows': [(2.0, 2.0, 9.0), (10.0, 6.0, 8.0)]} or t.rid != [0, 2]:
        bad.append('Shadow remove/add/scale wrong')
    return bad


# ---------------------------------------------------------------------------
# the driver


def _tol(ops):
    return (1e-6, 1e-8) if 'ncdf' in ops else (1e-9, 1e-11)


def _brief(d):
    return {k: v for k, v in d.items() if k != 'shared' or v}


class _Stop(Exception):
    pass


def run_case(case):
    import warnings

    warnings.simplefilter('ignore')
    import numpy as np
    from biogeme.database import Database
    from biogeme.exceptions import BiogemeError
    from ..gen import c13_ops, exprs, build
    from ..oracle import c13_contracts as mon, c13_shadow as sh, c13_ties, evalast

    rec = Rec(case)
    if case['mode'] == 'directed':
        table, sp, script = DIRECTED[case['name']]()
        r = random.Random(case['name'])
        np.random.seed(int(stable_hash(case['name']), 16) % (2 ** 31))
        length = len(script)
    else:
        table, sp = c13_ops.make_table(case['seed'], case['i'])
        script = None
        r = random.Random(f'c13/ops/{case["seed"]}/{case["i"]}')
        np.random.seed((case['seed'] * 1000003 + case['i']) % (2 ** 31))
        length = r.choice([1, 2, 3, 3, 4, 4, 5, 5, 6, 7, 8])
    bv = {k: v[0] for k, v in sp.betas.items()}
    mon.drain()
    mon.COUNT.clear()

    shadow = sh.Shadow(table['cols'], [tuple(table['data'][c][i] for c in table['cols']) for i in range(len(table['labels']))], table['labels'])
    try:
        db = Database('c13', c13_ops.frame(table))  # the caller's DataFrame is db.data at this moment
    except BaseException as e:  # noqa
        rec.violation(f'C13/constructor-raises-{type(e).__name__}', str(e), {'table': table})
        return rec.out()
    done = []
    judged = [0]
    n0 = shadow.n()

    class _Current:
        """the database the next operation is applied to (one of ``tables``)"""
        t = None

        def __getitem__(self, k):
            return self.t[k]

        def __setitem__(self, k, v):
            self.t[k] = v

    # every Database object the sequence has produced so far, each with its own shadow
    tables = [{'db': db, 'shadow': shadow, 'sp': sp, 'used': set(), 'removed': False, 'gaps_since_panel': False, 'origin': 'initial'}]
    # frames handed out by split / sample_with_replacement, with a deep snapshot taken when they were returned
    frames = []
    state = _Current()
    state.t = tables[0]
    caller = {'frame': db.data, 'snap': sh.snap(db.data), 'changed': False}
    rec.c('index_kind_' + table['index_kind'])
    if table['ints']:
        rec.c('tables_with_int64_columns')

    def wit(**kw):
        w = {'table': table, 'betas': sp.betas, 'operations': done, 'databases': [t['origin'] for t in tables]}
        w.update(kw)
        return w

    def viol(mech, msg, **kw):
        rec.violation(mech if mech.startswith('C13/') else 'C13/' + mech, msg, wit(**kw))

    def monitors(op):
        """collect what the post-condition monitors said about the call just made"""
        bad = False
        for v in mon.drain():
            if v['mech'] == 'MONITOR-ERROR':
                rec.inconc('monitor error: ' + v['msg'][:500])
                bad = True
                continue
            viol(v['mech'], f'[{op}] ' + v['msg'], monitor=v.get('witness'))
            bad = True
        return bad

    def compare(op):
        """Database.data against the shadow table"""
        rec.ev()
        got = sh.snap(state['db'].data)
        want = state['shadow'].snapshot()
        # rows, values, order and columns; index labels are not part of the property (panel() and remove() on
        # panel data renumber them): the shadow takes over the labels it sees
        if not sh.same_rows(got, want):
            viol(f'table-differs-from-shadow-after-{op}', sh.diff(got, want))
            raise _Stop()
        if got['labels'] != want['labels']:
            rec.c('index_relabelled_by_' + op)
            state['shadow'].labels = list(got['labels'])

    def others(op):
        """aliasing: an operation on one database must leave every OTHER database of the sequence equal to its own
        shadow, and every frame returned earlier by split / sample as it was when returned"""
        for k, t in enumerate(tables):
            if t is state.t:
                continue
            rec.ev()
            rec.c('other_database_checked_after_operation')
            got, want = sh.snap(t['db'].data), t['shadow'].snapshot()
            if not sh.same_rows(got, want):
                viol('operation-on-one-database-changes-another',
                     f'{op} on database #{tables.index(state.t)} ({state["origin"]}) changed database #{k} ({t["origin"]}): {sh.diff(got, want)}')
                raise _Stop()
        for f in frames:
            rec.ev()
            rec.c('returned_frame_checked_after_operation')
            got = sh.snap(f['obj'])
            if not sh.same_rows(got, f['snap']):
                viol(f'operation-changes-frame-returned-by-{f["origin"]}', f'{op} changed a frame returned earlier by {f["origin"]}: {sh.diff(got, f["snap"])}')
                raise _Stop()
        if not caller['changed']:
            # the DataFrame handed to Database(...): the statement speaks of Database.data and of return values only,
            # so whether the caller's own frame follows the operations is counted, not judged
            if not sh.same_rows(sh.snap(caller['frame']), caller['snap']):
                caller['changed'] = True
                rec.c('callers_frame_modified_first_by_' + op)

    def keep_frame(obj, origin):
        if len(obj) == 0:
            return
        frames.append({'obj': obj, 'snap': sh.snap(obj), 'origin': origin, 'sp': copy.deepcopy(state['sp'])})
        del frames[:-5]

    def gaps():
        s = state['shadow']
        return s.labels != list(range(s.n()))

    def call(op, fn, expect=None):
        """run the real method. returns (ok, result); an unexpected exception is a refutation and stops the sequence"""
        mon.EXPECT.pop('add_failed', None)
        try:
            res = fn()
        except BaseException as e:  # noqa
            mon.EXPECT.clear()
            if expect is not None and isinstance(e, expect):
                mon.EXPECT['_refused'] = True
                monitors(op)
                compare(op + '-refused')
                return False, None
            viol(f'{op}-raises-{type(e).__name__}', f'{op} raised {type(e).__name__}: {str(e)[:400]}', index_has_gaps=gaps())
            raise _Stop()
        if expect is not None:
            # a documented refusal that did not happen is not C13's subject; whatever the call did to the
            # table is still judged by the monitors, then the sequence ends
            rec.c(f'accepted_where_refusal_documented_{op}')
            monitors(op)
            compare(op + '-not-refused')
            raise _Stop()
        return True, res

    def leaf_magnitude(node, data):
        if not isinstance(node, list):
            return 0.0
        if node and node[0] == 'var':
            return max((abs(v) for v in data[node[1]]), default=0.0)
        if node and node[0] == 'num':
            return abs(float(node[1]))
        return max((leaf_magnitude(x, data) for x in node), default=0.0)

    def tiny_literal(node):
        """a literal below ~1e-290: the engine reads literals with std::stod, which refuses subnormal numbers
        ("IndexError: stod"); an engine input-domain limit that is not C13's subject"""
        if not isinstance(node, list):
            return False
        if node and node[0] == 'num':
            return 0 < abs(float(node[1])) < 1e-290
        return any(tiny_literal(x) for x in node)

    def reference(d, cond=False):
        if d.get('exact') and tiny_literal(d['ast']):
            rec.c('formula_rejected_subnormal_literal')
            return None
        if d.get('exact'):
            # table values, literals and single IEEE operations: no conditioning filter is needed (and the filter's
            # margins would reject exactly the close values this workload is about); judged with exact equality
            data = state['shadow'].data()
            try:
                v, _ = evalast.evaluate(d['ast'], data, bv, [])
            except (evalast.OutOfDomain, KeyError, FloatingPointError, OverflowError, ZeroDivisionError):
                rec.c('formula_rejected_domain')
                return None
            v = np.asarray(v, dtype=float)
            if not np.all(np.isfinite(v)) or max(leaf_magnitude(d['ast'], data), float(np.max(np.abs(v)))) > c13_ops.MAXMAG:
                rec.c('formula_rejected_magnitude')
                return None
            rec.c('exact_formula_on_special_values')
            return v
        j = evalast.judge(d['ast'], state['shadow'].data(), bv, d.get('shared') or [])
        if not j['ok']:
            rec.c('formula_rejected_' + j['reason'].split(':')[0])
            return None
        v = j['value']
        if cond and np.any((np.abs(v) <= 1e-6) & (v != 0)):
            rec.c('formula_rejected_condition_near_zero')
            return None
        if not c13_ties.safe(d['ast'], state['shadow'].data(), bv, d.get('shared') or [], top_is_condition=cond):
            rec.c('formula_rejected_rounding_sensitive_decision')
            return None
        return v

    def real_expression(d):
        a = d['ast']
        if d['op'] == 'remove' and a[0] == 'num' and len(a) > 2:  # a plain Python number, as in remove(0)
            return int(a[1]) if float(a[1]).is_integer() else float(a[1])
        e, _ = build.build({'ast': a, 'shared': d.get('shared') or [], 'betas': state['sp'].betas})
        return e

    def one(d):
        op = d['op']
        s = state['shadow']
        D = state['db']
        sp = state['sp']
        used_names = state['used']
        mon.EXPECT.clear()
        tag = op + ('_index_with_gaps' if gaps() else '')
        if op == 'remove':
            ref = reference(d, cond=True)
            if ref is None:
                return False
            mask = [bool(x != 0) for x in ref]
            e = real_expression(d)
            mon.EXPECT['mask'] = mask
            call(op, lambda: D.remove(e))
            bad = monitors(op)
            rec.ev()
            if bad:
                raise _Stop()
            k = s.remove(mask)
            rec.c('remove_deleting_' + ('none' if k == 0 else 'all' if s.n() == 0 else 'some'))
            if np.any(ref < 0):
                rec.c('remove_condition_with_negative_values')
            if np.any((np.abs(ref) < 1e-6) & (ref != 0)):
                rec.c('remove_condition_with_tiny_nonzero_values')
            if k:
                state['removed'] = True
                if s.panel is not None:
                    state['gaps_since_panel'] = True
            if sh.has_duplicate_labels(s.snapshot()):
                rec.c('remove_on_repeated_labels')
        elif op in ('add_column', 'define_variable', 'values'):
            ref = reference(d)
            if ref is None:
                return False
            e = real_expression(d)
            ops = exprs.ops_in(d['ast'], d.get('shared') or [])
            mon.EXPECT['values'] = {'ref': [float(x) for x in ref], 'tol': (0.0, 0.0) if d.get('exact') else _tol(ops), 'column': d.get('name') if op != 'values' else None,
                                    'expression_id': id(e) if op == 'values' else None}
            if op == 'values':
                call(op, lambda: D.values_from_database(e))
                rec.ev()
                monitors(op)
            else:
                name = d['name']
                fn = (lambda: D.add_column(e, name)) if op == 'add_column' else (lambda: D.define_variable(name, e))
                if d.get('expect') == 'ValueError':
                    call(op, fn, expect=ValueError)
                    return True
                call(op, fn)
                rec.ev()
                if monitors(op):
                    raise _Stop()
                stored = [float(x) for x in D.data[name].tolist()] if name in D.data.columns else None
                if stored is None or len(stored) != s.n():
                    viol('add-column-columns-differ', f'column {name} absent or of wrong length after {op}')
                    raise _Stop()
                s.add_column(name, stored)  # verified within tolerance by the monitor: adopt it (no drift)
                used_names.add(name)
                c13_ops.after_add(sp, name, stored, exact=bool(d.get('exact')))
                if state['removed']:
                    rec.c('add_column_after_rows_were_removed')
        elif op == 'scale_column':
            c, f = d['column'], d['scale']
            call(op, lambda: D.scale_column(c, f))
            rec.ev()
            if monitors(op):
                raise _Stop()
            s.scale(c, f)
            c13_ops.after_scale(sp, c, f, s.col(c))
            if len(tables) > 1:
                rec.c('scale_in_place_with_other_databases_alive')
            rec.c('scale_%s_factor_on_%s_column' % ('integer' if isinstance(f, int) else 'float', 'int64' if str(D.data[c].dtype).startswith('int') else 'float64'))
        elif op == 'panel':
            c = d['column']
            if not sh.contiguous(s.snapshot(), c):
                ok, _ = call(op, lambda: D.panel(c), expect=BiogemeError)
                rec.c('panel_refused_not_consecutive')
                raise _Stop()  # the object is left half-way in panel mode: nothing more is judged on it
            call(op, lambda: D.panel(c))
            rec.ev()
            said = [v['mech'] for v in mon.LOG]
            bad = monitors(op)
            if gaps():
                rec.c('panel_on_index_with_gaps')
            s.set_panel(c)
            state['gaps_since_panel'] = False
            if bad:
                now = sh.snap(D.data)
                if set(said) == {'C13/panel-reorders-observations'} and sorted(now['rows']) == sorted(s.rows) \
                        and sh.column(now, c) == s.col(c):
                    # only the order of the observations inside individuals changed (recorded above): the
                    # sequence goes on from the table as it is, so that later operations are still observed
                    s.rows = list(now['rows'])
                    rec.c('sequence_continues_after_panel_reordered_observations')
                else:
                    raise _Stop()
            got = mon.read_map(D.individualMap)
            if got != s.map:
                viol('panel-map-differs-from-table', f'individual map {got[:8]} expected {s.map[:8]}')
                raise _Stop()
        elif op == 'split':
            k, g = d['k'], d['groups']
            exp = None
            if k < 2 or (g is not None and s.panel is not None and g != s.panel):
                exp = BiogemeError
            ok, res = call(op, (lambda: D.split(k, groups=g)) if g is not None else (lambda: D.split(k)), expect=exp)
            if ok:
                rec.ev()
                monitors(op)  # read-only operation: the sequence goes on
                eff = s.panel if s.panel is not None else g
                rec.c('split_grouped' if eff is not None else 'split_plain')
                if k >= s.n():
                    rec.c('split_folds_ge_rows')
                if any(len(f.validation) == 0 for f in res):
                    rec.c('split_with_empty_validation_part')
                j = r.randrange(len(res))
                keep_frame(res[j].validation, 'split')
                keep_frame(res[j].estimation, 'split')
        elif op == 'sample':
            ok, res = call(op, lambda: D.sample_with_replacement(d['size']) if d['size'] is not None else D.sample_with_replacement())
            rec.ev()
            monitors(op)
            keep_frame(res, 'sample_with_replacement')
        elif op == 'sample_map':
            exp = BiogemeError if s.panel is None else None
            ok, _ = call(op, lambda: D.sample_individual_map_with_replacement(d['size']), expect=exp)
            if ok:
                rec.ev()
                if state['gaps_since_panel']:
                    rec.c('bootstrap_individuals_after_rows_removed_from_panel')
                monitors(op)
        elif op == 'extract_rows':
            pos = d['positions']
            form = d['form']
            if form == 'range':
                arg = range(pos[0], pos[-1] + 1)
            elif form == 'srange':  # stepped range: positions == list(range(start, stop, step))
                arg = range(*d['range'])
            elif form == 'tuple':
                arg = tuple(pos)
            elif form == 'array':
                arg = np.array(pos, dtype=np.int64)
            else:
                arg = list(pos)
            rec.c('extract_rows_argument_' + form)
            exp = IndexError if d['form'] == 'out' else None
            ok, res = call(op, lambda: D.extract_rows(arg), expect=exp)
            if ok:
                rec.ev()
                if monitors(op) and d.get('switch'):
                    raise _Stop()
                if len(set(pos)) != len(pos):
                    rec.c('extract_rows_with_repeated_positions')
                compare(op)
                others(op)
                # the extracted database joins the sequence: later operations go to either of them, and each
                # must stay equal to its own shadow whatever happens to the other
                t = {'db': res, 'shadow': s.extract(pos), 'sp': copy.deepcopy(sp), 'used': set(used_names), 'removed': False,
                     'gaps_since_panel': False, 'origin': 'extract_rows(' + form + ')'}
                tables.append(t)
                if d.get('switch'):
                    state.t = t
                    rec.c('sequence_continues_on_extracted_database')
                rec.c('op_' + tag)
                return True
        elif op == 'adopt':
            # a frame returned earlier by split / sample_with_replacement becomes a Database of its own
            if not frames:
                return False
            f = frames[d['which'] % len(frames)]
            ok, res = call(op, lambda: Database('adopted', f['obj']))
            t = {'db': res, 'shadow': sh.Shadow(f['snap']['cols'], f['snap']['rows'], f['snap']['labels']), 'sp': f['sp'], 'used': set(used_names),
                 'removed': False, 'gaps_since_panel': False, 'origin': 'Database(frame returned by ' + f['origin'] + ')'}
            frames[:] = [g for g in frames if g is not f]
            tables.append(t)
            state.t = t
            rec.c('op_adopt')
            rec.c('sequence_continues_on_database_built_from_returned_frame')
            compare(op)
            return True
        elif op == 'flat':
            exp = BiogemeError if s.panel is None else None
            ident = d['identical']
            ok, res = call(op, lambda: D.generate_flat_panel_dataframe(identical_columns=ident), expect=exp)
            if ok:
                rec.ev()
                rec.c('flat_identical_' + ('auto' if ident is None else 'declared'))
                monitors(op)
        elif op == 'segmentation':
            from biogeme.segmentation import DiscreteSegmentationTuple

            c = d['column']
            keys = [int(k) if d.get('int_keys') and float(k).is_integer() and abs(k) < 2 ** 53 else k for k in d['keys']]
            held = Counter(s.col(c))
            matches = set(float(k) for k in keys) == set(held)
            mapping = {k: f'segment_{i}' for i, k in enumerate(keys)}
            rec.c('segmentation_mapping_' + d['variant'])
            if c in sp.special:
                rec.c('segmentation_on_special_values')
            try:
                res = D.check_segmentation(DiscreteSegmentationTuple(c, mapping))
                refused = False
            except BiogemeError:
                refused = True
                mon.EXPECT['_refused'] = True
            except BaseException as e:  # noqa
                viol(f'{op}-raises-{type(e).__name__}', f'check_segmentation raised {type(e).__name__}: {str(e)[:300]}')
                raise _Stop()
            rec.ev()
            said = monitors(op)
            if refused and matches:
                viol('segmentation-refuses-the-values-of-the-column', f'mapping keys {keys} are exactly the values of column {c} but were refused')
            elif not refused and not matches and not said:
                absent = [k for k in keys if float(k) not in held]
                if absent:  # (a mapping that merely misses a value is a validation matter, not a counting one)
                    viol('segmentation-counts-differ', f'value(s) {absent} are not in column {c} but were given a segment count: {res}')
        elif op == 'count':
            ok, res = call(op, lambda: D.count(d['column'], d['value']))
            rec.ev()
            rec.c('count_value_' + d.get('asked', 'present'))
            if d['column'] in sp.special:
                rec.c('count_on_special_values')
            if not monitors(op) and int(res) != s.count(d['column'], d['value']):
                viol('count-differs', f'count({d["column"]!r}, {d["value"]}) = {res}, shadow table says {s.count(d["column"], d["value"])}')
                raise _Stop()
        elif op == 'dump':
            ok, fname = call(op, lambda: D.dump_on_file())
            rec.ev()
            with open(fname) as f:
                lines = [ln.rstrip('\n').split('\t') for ln in f if ln.strip()]
            got = {'labels': [sh._label(float(x[0])) for x in lines[1:]], 'cols': lines[0][1:], 'rows': [tuple(float(v) for v in x[1:]) for x in lines[1:]]}
            if lines[0][0] != '__rowId' or not sh.same(got, s.snapshot()):
                viol('dumped-file-differs-from-table', sh.diff(got, s.snapshot()))
                raise _Stop()
            os.remove(fname)
        else:
            raise ValueError(op)
        if mon.EXPECT.pop('_refused', False):
            rec.c('op_refused_' + op)
        else:
            rec.c('op_' + tag)
        compare(op)
        others(op)
        return True

    try:
        compare('construction')
        for step in range(length):
            if state['shadow'].n() == 0:
                rec.c('sequences_ending_on_empty_table')
                break
            d = None
            if script is not None:
                d = script[step]
                if 'on' in d:
                    state.t = tables[d['on']]
            else:
                live = [t for t in tables if t['shadow'].n() > 0]
                if len(live) > 1 and r.random() < 0.45:
                    t = r.choice(live)
                    if t is not state.t:
                        state.t = t
                        rec.c('subject_switched_to_another_database_of_the_sequence')
                for _ in range(6):
                    d = c13_ops.next_op(r, state['sp'], state['shadow'], state['used'], first=(step == 0), nframes=len(frames),
                                        aliasing=len(tables) > 1)
                    if d is not None:
                        break
            if d is None:
                continue
            if len(tables) > 1:
                d = dict(d, on=tables.index(state.t))
            prev = done[-1]['op'] if done else 'start'
            done.append(_brief(d))
            try:
                executed = one(d)
            except _Stop:
                judged[0] += 1
                raise
            if executed:
                judged[0] += 1
                rec.c(f'pair_{prev}>{d["op"]}')
            else:
                done.pop()
                if script is not None:
                    rec.inconc(f'scripted operation rejected by the reference evaluator: {case["name"]} step {step}')
    except _Stop:
        pass
    for k, v in mon.COUNT.items():
        rec.c('monitor_' + k, v)
    rec.c('operations_judged', judged[0])
    rec.c(f'sequences_of_length_{min(judged[0], 8)}')
    if n0 >= 2 and judged[0] >= 2:
        rec.key([table, done])
    rec.sample({'table': table, 'operations': done})
    return rec.out()


# ---------------------------------------------------------------------------


OPS = ['remove', 'add_column', 'define_variable', 'values', 'scale_column', 'panel', 'split', 'sample', 'sample_map', 'extract_rows',
       'flat', 'count', 'dump', 'segmentation']
MONITORS = ['remove', 'remove_with_reference_condition', 'add_column', 'add_column_with_reference_values', 'define_variable',
            'values_from_database', 'values_from_database_with_reference_values', 'scale_column', 'split', 'split_with_groups', 'sample_with_replacement',
            'sample_individual_map_with_replacement', 'extract_rows', 'generate_flat_panel_dataframe', 'count', 'check_segmentation', 'panel']


def finalize(cov, tier):
    out = []
    for o in OPS:
        if cov.get('op_' + o, 0) + cov.get('op_' + o + '_index_with_gaps', 0) == 0:
            out.append(f'operation never executed: {o}')
    for o in ('remove', 'add_column', 'extract_rows', 'sample', 'split', 'count', 'scale_column'):
        if cov.get('op_' + o + '_index_with_gaps', 0) == 0:
            out.append(f'operation never executed on an index with gaps: {o}')
    for m in MONITORS:
        if cov.get('monitor_' + m, 0) == 0:
            out.append(f'monitor never evaluated: {m}')
    for k in ('other_database_checked_after_operation', 'returned_frame_checked_after_operation', 'subject_switched_to_another_database_of_the_sequence',
              'sequence_continues_on_database_built_from_returned_frame', 'extract_rows_argument_range', 'extract_rows_argument_srange',
              'extract_rows_argument_tuple', 'extract_rows_argument_array', 'extract_rows_argument_list',
              'scale_in_place_with_other_databases_alive', 'exact_formula_on_special_values', 'count_on_special_values',
              'count_value_present', 'count_value_close', 'count_value_far', 'segmentation_on_special_values', 'segmentation_mapping_exact',
              'segmentation_mapping_extra_close', 'remove_condition_with_tiny_nonzero_values',
              'bootstrap_individuals_after_rows_removed_from_panel', 'sequence_continues_on_extracted_database', 'remove_condition_with_negative_values',
              'add_column_after_rows_were_removed', 'panel_on_index_with_gaps', 'split_grouped', 'split_plain', 'flat_identical_auto',
              'flat_identical_declared', 'extract_rows_with_repeated_positions'):
        if cov.get(k, 0) == 0:
            out.append(f'situation never observed: {k}')
    pairs = [k for k in cov if k.startswith('pair_')]
    cov['distinct_consecutive_operation_pairs'] = len(pairs)
    for k in pairs:
        del cov[k]
    return out


def extra(seed, tier, workdir):
    """the repository's own database tests as additional workload, the same post-conditions as oracle"""
    d = os.path.join(workdir, 'repo_tests')
    os.makedirs(d, exist_ok=True)
    outf = os.path.join(d, 'contracts.json')
    e = dict(os.environ)
    e['PYTHONPATH'] = os.pathsep.join([env.SRC, env.VERIF, e.get('PYTHONPATH', '')])
    e['C13_CONTRACT_OUT'] = outf
    e['PYTHONDONTWRITEBYTECODE'] = '1'
    case = {'mode': 'repo-tests', 'file': 'tests/functions/test_database.py'}
    res = {'n': 0, 'keys': [], 'viol': [], 'cov': {}, 'samples': [], 'inconclusive': [], '_case': case}
    t0 = time.monotonic()
    try:
        p = subprocess.run([sys.executable, '-m', 'pytest', '/repo/tests/functions/test_database.py', '-q', '--no-header', '-p', 'no:cacheprovider',
                            '-p', 'biomon.oracle.c13_contracts', '--rootdir', d, '-c', os.devnull],
                           cwd=d, env=e, capture_output=True, text=True, timeout=600)
    except subprocess.TimeoutExpired:
        res['inconclusive'].append('repository tests under the C13 monitors: watchdog fired')
        return [res]
    if not os.path.exists(outf):
        res['inconclusive'].append('repository tests under the C13 monitors produced no monitor log: ' + (p.stdout + p.stderr)[-600:])
        return [res]
    with open(outf) as f:
        doc = json.load(f)
    for k, v in doc['count'].items():
        res['cov']['repo_tests_monitor_' + k] = v
        res['n'] += v
    if not doc['count']:
        res['inconclusive'].append('repository tests ran but no C13 monitor was evaluated: ' + (p.stdout + p.stderr)[-600:])
    for v in doc['log']:
        if v['mech'] == 'MONITOR-ERROR':
            res['inconclusive'].append('monitor error under repository tests: ' + v['msg'][:400])
        else:
            res['viol'].append({'mech': v['mech'], 'msg': f'[repository test {v.get("test")}] ' + v['msg'], 'witness': v.get('witness')})
    res['cov']['repo_tests_wall_s'] = int(time.monotonic() - t0)
    return [res]
