"""C10 — simulated and numerical integrals equal the average / integral they denote.

Workload: seeded random formulas
  * MonteCarlo: integrands from the C01 grammar with 1-4 draw variables of
    different declared types (native and user-defined, names whose alphabetical
    order differs from their order of appearance), R in {1,2,7,50}, 1-12 rows,
    MonteCarlo at the top, nested under other operators, two MonteCarlo in one
    formula; evaluated through Expression.get_value_c and through
    BIOGEME.calculate_likelihood / simulate (alone and next to a second formula);
  * seeds: equal non-zero seed twice (numpy's global state disturbed in between),
    another seed, seed 0;
  * Integrate: normal density x smooth factors (exp, sin, cos, powers, logistic,
    logit, Elem) with row/parameter dependent coefficients, alone, nested under
    other operators, two integrals in one formula; closed forms;
  * Derive w.r.t. free / fixed parameters and columns of generated smooth formulas.
Monitors: recording spies on every registered generator (native catalogue
wrapped in place, deterministic user generators with a closed form), a contract
on Database.generate_draws (shape [obs, draw, variable], one production of the
variable's own generator per column), the engine proxy (table and signature
actually handed over, decoded independently), the reference evaluator on the
generator's AST (mean over draws / composite Gauss-Legendre / complex step),
metamorphic central differences of engine values for Derive.
"""
from __future__ import annotations

import copy
import math
import os
import random

import numpy as np

from .. import env
from ..rec import Rec, close, maxrel, stable_hash

LEVEL = 'exploration'
RULE = (
    'cases = seeded random formulas: (mc) C01-grammar integrand with 1-4 draw variables of different declared types '
    '(native + deterministic user-defined), R in {1,2,7,50} (thorough: also 3,4,16,100), 1-12 rows, MonteCarlo at '
    'top / nested / twice; (int) normal density x 1-3 smooth factors, alone / nested / two integrals; (der) Derive of '
    'a generated smooth formula w.r.t. a free or fixed parameter or a column; (hist) sequences of generator '
    'registrations on one Database interleaved with evaluations; (reuse) one Database reused by several seeded '
    'objects / evaluations vs a fresh one; (dict) seeded BIOGEME objects built from dictionaries of formulas (4 layouts x '
    '5 classes of draw types), constructed 4 times incl. a forked child; plus directed cases. A case is '
    'non-trivial when the reference evaluator, fed with the series the generators really produced, accepts it as '
    'regular and well-conditioned (float64 vs 80-bit 1e-12, no branch within 1e-6 of a tie) and the real code was '
    'compared with it; distinct = hash of (kind, AST, shared sub-trees, data, parameters, draw variables, R)'
)
ASSUMPTIONS = [
    'reference semantics = biomon/oracle/evalast.py + c10_oracle.py (composite Gauss-Legendre 72x20 on [-18,18], '
    'complex step), self-tested at every run against closed forms and scipy.integrate.quad',
    '"the series the generator produced" = the array returned by the generator registered for the declared type, '
    'recorded by a spy wrapped around that generator (native catalogue entries wrapped in place)',
    'Integrate judged at rtol 1e-9 / atol 1e-11 (ncdf inside: 1e-6 / 1e-8). Calibration on the unchanged tree: the '
    '100-point Gauss-Hermite rule of the external engine stayed within 1e-10 (relative) of the reference on 3200 '
    'generated integrands, within 1e-13 on all but 5 of them (buckets int_deviation_above_* in the counters show '
    'what this run saw); a logistic factor of slope 5 '
    'is off by 2.5e-8, so integrands are restricted to normal density x factors with slope / growth rate <= ~2.5 '
    '(the property says smooth, normally decaying)',
    'Derive judged at rtol 1e-8 against complex-step; cases where complex step and central differences of the '
    'reference disagree (1e-5) are discarded as ill-conditioned',
]
MIN_DISTINCT = {'quick': 300, 'thorough': 4000}
CASE_TIMEOUT = 180

N_MC = {'quick': 520, 'thorough': 5200}
N_INT = {'quick': 220, 'thorough': 2000}
N_DER = {'quick': 300, 'thorough': 3000}
N_HIST = {'quick': 70, 'thorough': 700}
N_REUSE = {'quick': 60, 'thorough': 600}
N_DICT = {'quick': 80, 'thorough': 800}

INT_RTOL, INT_ATOL = 1e-9, 1e-11

# ---------------------------------------------------------------------------
# monitors installed once per worker

PROD: list[dict] = []  # every array a registered generator returned (cleared before each monitored evaluation)
PROD_ALL: list[dict] = []  # the same, never cleared: one process = one case, so this is the case's whole history
GD_CALLS: list[dict] = []  # every Database.generate_draws call
_spies_installed = False


def _spy(tname, fn):
    def spy(sample_size, number_of_draws):
        out = fn(sample_size, number_of_draws)
        e = {'type': tname, 'args': (sample_size, number_of_draws),
             'out': np.array(out, copy=True) if isinstance(out, np.ndarray) else out}
        PROD.append(e)
        PROD_ALL.append(e)
        return out

    spy.__name__ = f'spy_{tname}'
    return spy


def _install_spies():
    global _spies_installed
    if _spies_installed:
        return
    import biogeme.native_draws as nd
    import biogeme.database as bdb

    for t, tup in list(nd.native_random_number_generators.items()):
        nd.native_random_number_generators[t] = nd.RandomNumberGeneratorTuple(
            generator=_spy(t, tup.generator), description=tup.description)
    orig = bdb.Database.generate_draws

    def generate_draws(self, draw_types, names, number_of_draws):
        start = len(PROD)
        res = orig(self, draw_types, names, number_of_draws)
        GD_CALLS.append({'types': dict(draw_types), 'names': list(names), 'R': number_of_draws,
                         'N': self.get_sample_size(), 'result': res, 'prods': PROD[start:],
                         'stored': getattr(self, 'theDraws', None)})
        return res

    generate_draws.__wrapped__ = orig
    bdb.Database.generate_draws = generate_draws
    _spies_installed = True


def warmup():
    import biogeme.biogeme  # noqa
    import biogeme.expressions  # noqa
    import biogeme.database  # noqa
    from ..monitors import engine_proxy
    from ..oracle import c10_oracle  # noqa  (registers integrate / derive)

    engine_proxy.install()
    _install_spies()


def _register_user(db, with_numpy_based=False):
    """deterministic user-defined generators, old (plain tuple) and new (named tuple) format;
    with_numpy_based: also 'EXPO_np', a user generator that consumes numpy's global random stream"""
    from biogeme.native_draws import RandomNumberGeneratorTuple
    from ..oracle import c10_oracle as co

    reg = {}
    for k, t in enumerate(co.USER_TYPES):
        f = _spy(t, (lambda tt: (lambda n, r: co.user_series(tt, n, r)))(t))
        reg[t] = (f, f'deterministic {t}') if k % 2 else RandomNumberGeneratorTuple(f, f'deterministic {t}')
    if with_numpy_based:
        reg['EXPO_np'] = (_spy('EXPO_np', lambda n, r: -np.log(np.random.rand(n, r))), 'exponential, numpy global stream')
    db.set_random_number_generators(reg)


# ---------------------------------------------------------------------------
# workload


def cases(seed, tier):
    out = []
    for i in range(N_MC[tier]):
        out.append({'kind': 'mc', 'seed': seed, 'i': i, 'tier': tier})
    for i in range(N_INT[tier]):
        out.append({'kind': 'int', 'seed': seed, 'i': i, 'tier': tier})
    for i in range(N_DER[tier]):
        out.append({'kind': 'der', 'seed': seed, 'i': i, 'tier': tier})
    # directed, deterministic (same in both tiers and for every seed)
    for i in range(12):
        out.append({'kind': 'mc', 'seed': 4242, 'i': i, 'tier': 'quick', 'directed': 'square'})
    for k in range(6 if tier == 'quick' else 36):
        out.append({'kind': 'seeds', 'seed': 4242, 'i': k, 'tier': 'quick'})
    for i in range(N_HIST[tier]):
        out.append({'kind': 'hist', 'seed': seed, 'i': i, 'tier': tier})
    for k in range(3):
        out.append({'kind': 'hist', 'seed': 4242, 'i': k, 'tier': 'quick', 'directed': 'reregister'})
    for i in range(N_REUSE[tier]):
        out.append({'kind': 'reuse', 'seed': seed, 'i': i, 'tier': tier})
    for k in range(4):
        out.append({'kind': 'reuse', 'seed': 4242, 'i': k, 'tier': 'quick', 'directed': 'same_request'})
    out.append({'kind': 'stale_function', 'seed': 0, 'i': 0, 'tier': 'quick'})
    for i in range(N_DICT[tier]):
        out.append({'kind': 'dict', 'seed': seed, 'i': i, 'tier': tier})
    for k in range(16):
        out.append({'kind': 'dict', 'seed': 4242, 'i': k, 'tier': 'quick', 'directed': 'layout_x_types'})
    out.append({'kind': 'closed', 'seed': 0, 'i': 0, 'tier': 'quick'})
    out.append({'kind': 'reserved', 'seed': 0, 'i': 0, 'tier': 'quick'})
    out.append({'kind': 'sametype', 'seed': 0, 'i': 0, 'tier': 'quick'})
    out.append({'kind': 'derive_linutil', 'seed': 0, 'i': 0, 'tier': 'quick'})
    for k in range(4):
        out.append({'kind': 'der', 'seed': 4242, 'i': k, 'tier': 'quick', 'linutil': True})
    # interleave kinds so that every shard gets a mix
    rnd = random.Random(seed)
    rnd.shuffle(out)
    return out


# ---------------------------------------------------------------------------
# oracle self-test


def selftest():
    from ..oracle import evalast, c10_oracle as co
    from scipy import integrate as si

    bad = []
    # quadrature vs closed forms
    for a, k in [(0.0, 0), (0.3, 0), (1.5, 2), (-2.5, 4), (3.0, 1), (0.0, 6), (4.5, 3)]:
        g = ['exp', ['mul', ['num', a], ['rv', 'w']]]
        if k:
            g = ['mul', ['powc', ['rv', 'w'], k], g]
        v, _ = evalast.evaluate(['integrate', ['mul', co.phi_ast('w'), g], 'w'], {}, {})
        if not close(v[0], co.gauss_exp(a, k), 1e-13, 1e-15):
            bad.append(f'reference quadrature off the closed form for a={a} k={k}: {v[0]} vs {co.gauss_exp(a, k)}')
    # quadrature vs scipy on logit-normal mixtures
    for b, s in [(0.5, 1.0), (-1.0, 2.0), (2.0, 0.3), (0.0, 3.0)]:
        ast = ['integrate', ['mul', co.phi_ast('w'), ['div', ['num', 1.0], ['add', ['num', 1.0], ['exp', ['neg', ['add', ['num', b], ['mul', ['num', s], ['rv', 'w']]]]]]]], 'w']
        v, _ = evalast.evaluate(ast, {}, {})
        q = si.quad(lambda w: math.exp(-w * w / 2) / math.sqrt(2 * math.pi) / (1 + math.exp(-(b + s * w))), -30, 30,
                    epsabs=1e-13, epsrel=1e-13, limit=400)[0]
        if not close(v[0], q, 1e-11, 1e-13):
            bad.append(f'reference quadrature vs scipy.quad differ for logit-normal b={b} s={s}: {v[0]} vs {q}')
    # complex step vs analytic
    data = {'x': [1.0, 2.0, 3.0]}
    child = ['add', ['exp', ['mul', ['beta', 'b'], ['var', 'x']]], ['mul', ['var', 'x'], ['var', 'x']]]
    x = np.array(data['x'])
    v, _ = evalast.evaluate(['derive', child, 'b'], data, {'b': 0.7})
    if not close(v, x * np.exp(0.7 * x), 1e-13, 0):
        bad.append('complex-step Derive w.r.t. a parameter off the analytic value')
    v, _ = evalast.evaluate(['derive', child, 'x'], data, {'b': 0.7})
    if not close(v, 0.7 * np.exp(0.7 * x) + 2 * x, 1e-13, 0):
        bad.append('complex-step Derive w.r.t. a column off the analytic value')
    cd = co.central_difference(child, data, {'b': 0.7}, 'x')
    if not close(cd, 0.7 * np.exp(0.7 * x) + 2 * x, 1e-7, 0):
        bad.append('central difference off the analytic value')
    # mean over draws
    dr = {'d': np.arange(6.0).reshape(3, 2)}
    v, _ = evalast.evaluate(['mc', ['mul', ['draws', 'd', 'T'], ['var', 'x']]], data, {}, draws=dr)
    if not close(v, x * dr['d'].mean(axis=1), 1e-15, 0):
        bad.append('reference MonteCarlo is not the mean over draws')
    # user series: injective in (type, obs, draw) and not symmetric
    allv = np.concatenate([co.user_series(t, 12, 12).ravel() for t in co.USER_TYPES])
    if len(np.unique(np.round(allv, 12))) != allv.size:
        bad.append('user-defined series are not injective in (type, observation, draw)')
    for t in co.USER_TYPES:
        s = co.user_series(t, 5, 5)
        if np.array_equal(s, s.T):
            bad.append('user series symmetric')
        lo, span = co.USER_TYPES[t][1], co.USER_TYPES[t][2]
        if s.min() < lo or s.max() > lo + span:
            bad.append('user series outside its advertised range')
    # the table matcher sees a swap and a transposition
    a, b = co.user_series('DET_A', 3, 3), co.user_series('DET_B', 3, 3)
    good = np.stack([a, b], axis=-1)
    prods = {'DET_A': [a], 'DET_B': [b]}
    ty = {'u': 'DET_A', 'v': 'DET_B'}
    if co.match_columns(good, ['u', 'v'], ty, prods):
        bad.append('table matcher rejects a correct table')
    if not co.match_columns(np.stack([b, a], axis=-1), ['u', 'v'], ty, prods):
        bad.append('table matcher accepts swapped series')
    if not co.match_columns(np.stack([a.T, b.T], axis=-1), ['u', 'v'], ty, prods):
        bad.append('table matcher accepts transposed series')
    return bad


# ---------------------------------------------------------------------------
# shared monitor code


def _bv(spec):
    return {k: v[0] for k, v in spec['betas'].items()}


def _tol(ops):
    if 'ncdf' in ops:
        return 1e-6, 1e-8
    return 1e-9, 1e-11


class _Ctx:
    """per-case helper: violation reporting with the spec as witness"""

    def __init__(self, rec, spec, extra=None):
        self.rec = rec
        self.wit = {'spec': {k: spec[k] for k in spec if k not in ('side',)}}
        if extra:
            self.wit.update(extra)

    def viol(self, mech, msg, **kw):
        w = dict(self.wit)
        w.update(kw)
        self.rec.violation('C10/' + mech, msg, w)


def _check_generate_draws_calls(cx, calls, expected_types, N, R):
    """contract on Database.generate_draws, evaluated on the recorded calls"""
    from ..oracle import c10_oracle as co

    rec = cx.rec
    for c in calls:
        rec.ev()
        rec.c('generate_draws_calls_checked')
        names, types = c['names'], c['types']
        res = c['result']
        K = len(names)
        if not isinstance(res, np.ndarray) or res.shape != (N, R, K):
            cx.viol('generate_draws-table-shape',
                    f'generate_draws returned shape {getattr(res, "shape", None)}; expected [obs={N}, draw={R}, variable={K}]')
            continue
        if c['stored'] is None or not (c['stored'] is res or np.array_equal(c['stored'], res)):
            cx.viol('generate_draws-stored-table-differs', 'database.theDraws is not the table returned')
        if sorted(names) != sorted(set(names)) or set(names) != set(expected_types):
            cx.viol('generate_draws-variable-list', f'series generated for {names}; the formulas name {sorted(expected_types)}')
            continue
        for nm in names:
            if types.get(nm) != expected_types[nm]:
                cx.viol('generate_draws-declared-type-lost', f'variable {nm} declared {expected_types[nm]}, generated as {types.get(nm)}')
        for p in c['prods']:
            if tuple(p['args']) != (N, R):
                cx.viol('generate_draws-generator-arguments',
                        f'generator of {p["type"]} called with {p["args"]}; expected (sample size {N}, draws {R})')
        # one series per named variable
        for t in set(expected_types.values()):
            want = sum(1 for nm in names if expected_types[nm] == t)
            got = sum(1 for p in c['prods'] if p['type'] == t)
            if want != got:
                cx.viol('generate_draws-series-per-variable',
                        f'{want} variables of type {t} but its generator was asked for {got} series')
        prods = {}
        for p in c['prods']:
            if isinstance(p['out'], np.ndarray):
                prods.setdefault(p['type'], []).append(p['out'])
        for pb in co.match_columns(res, names, expected_types, prods):
            cx.viol('draw-table-column-is-not-own-generator-series', pb, names=names)


def _series_from(call, table, expected_types, N, R, user_closed=None):
    """series per variable for the reference: closed form for user types
    (user_closed: type -> array overrides, for generators registered by a
    registration history); for
    native types the production of that type's generator (inside the given
    generate_draws call) that the table column carries; None if no production
    of the right generator matches."""
    from ..oracle import c10_oracle as co

    out = {}
    used = set()
    names = call['names']
    for k, nm in enumerate(names):
        t = expected_types.get(nm)
        if t is None:
            return None
        if user_closed is not None and t in user_closed:
            out[nm] = user_closed[t]
            continue
        if t in co.USER_TYPES:
            out[nm] = co.user_series(t, N, R)
            continue
        col = table[:, :, k] if table.ndim == 3 and table.shape[2] > k else None
        pick = None
        cands = [(j, p) for j, p in enumerate(call['prods']) if p['type'] == t and isinstance(p['out'], np.ndarray)]
        for j, p in cands:
            if j not in used and col is not None and p['out'].shape == col.shape and np.array_equal(p['out'], col):
                pick = j
                break
        if pick is None:
            # the contract monitor has flagged it; fall back to the generator's own production
            for j, p in cands:
                if j not in used:
                    pick = j
                    break
        if pick is None:
            return None
        used.add(pick)
        out[nm] = np.asarray(call['prods'][pick]['out'], dtype=float)
        if out[nm].shape != (N, R):
            return None
    return out


def _owner_calls(kind):
    from ..monitors import engine_proxy as ep

    owner = None
    for e in reversed(ep.LOG):
        if e['kind'] == kind and e['op'] == 'new':
            owner = e['obj']
            break
    return owner.calls if owner is not None else []


def _handover(kind):
    """what the most recent engine object of the kind was given"""
    out = {'table': None, 'signature': None, 'weight': None, 'free': None, 'fixed': None, 'columns': None, 'nthreads': None}
    for c in _owner_calls(kind):
        op = c['op']
        if op == 'setDraws':
            out['table'] = c['args'][0]['obj'] if isinstance(c['args'][0], dict) else c['args'][0]
        elif op == 'setExpression':
            out['signature'] = c['args'][0]
        elif op == 'setExpressions':
            out['signature'] = c['args'][0]
            out['nthreads'] = c['args'][1] if len(c['args']) > 1 else None
        elif op == 'setFreeBetas':
            out['free'] = list(c['args'][0])
        elif op == 'setFixedBetas':
            out['fixed'] = list(c['args'][0])
        elif op == 'setData':
            out['columns'] = c['args'][0]['columns']
        elif op in ('calculateLikelihood',):
            out['free'] = list(c['args'][0])
            out['fixed'] = list(c['args'][1])
    return out


def _fix_decoded(ast, shared, info, columns):
    """decoded Derive carries the elementary index: name it through the leaves"""
    table = {}
    for lf in info['leaves']['beta']:
        table[lf['elementary']] = ('#free%d' if lf['status'] == 0 else '#fixed%d') % lf['id']
    for lf in info['leaves']['var']:
        if columns is not None and 0 <= lf['id'] < len(columns):
            table[lf['elementary']] = columns[lf['id']]

    def walk(n):
        if isinstance(n, list):
            if n and n[0] == 'derive' and isinstance(n[2], int):
                n[2] = table.get(n[2], f'#elementary{n[2]}')
            for x in n:
                walk(x)

    walk(ast)
    for s in shared:
        walk(s)


def _decoded_value(cx, ho, data, table, gd_names, label):
    """evaluate what the engine was really asked to compute: the signature handed
    over, parsed independently, leaves resolved by the indices it carries"""
    from ..oracle import evalast, signature

    if ho['signature'] is None:
        return None
    try:
        ast2, sh2, info = signature.decode(ho['signature'], ho['free'], ho['fixed'], ho['columns'])
    except signature.SignatureError as e:
        cx.viol(f'{label}-handover-signature-unparsable', str(e))
        return None
    for p in info['problems']:
        cx.viol(f'{label}-handover-invariant', p)
    # draw variable -> column of the table
    for lf in info['leaves']['draws']:
        cx.rec.ev()
        cx.rec.c('drawid_checked')
        if gd_names is not None and not (0 <= lf['id'] < len(gd_names) and gd_names[lf['id']] == lf['name']):
            who = gd_names[lf['id']] if 0 <= lf['id'] < len(gd_names) else 'nothing'
            cx.viol('drawid-designates-other-variable',
                    f'bioDraws "{lf["name"]}" serialised with draw index {lf["id"]}; column {lf["id"]} of the table '
                    f'holds the series of {who} (columns: {gd_names})')
    _fix_decoded(ast2, sh2, info, ho['columns'])
    draws = None
    if table is not None and getattr(table, 'ndim', 0) == 3:
        draws = {f'#draw{k}': np.asarray(table[:, :, k], dtype=float) for k in range(table.shape[2])}
    betas = dict(info['betas'])
    for n in _walk_derive_targets(ast2, sh2):
        betas.setdefault(n, 0.0) if n.startswith('#') else None
    try:
        v, _ = evalast.evaluate(ast2, data, betas, sh2, draws=draws)
        return v
    except (evalast.OutOfDomain, KeyError, IndexError):
        cx.rec.c('decoded_out_of_domain')
        return None


def _walk_derive_targets(ast, shared):
    out = []

    def walk(n):
        if isinstance(n, list):
            if n and n[0] == 'derive' and isinstance(n[2], str):
                out.append(n[2])
            for x in n:
                walk(x)

    walk(ast)
    for s in shared:
        walk(s)
    return out


def _mk_parameters(R=None, seed=None, threads=None):
    from biogeme.parameters import Parameters

    p = Parameters()
    if R is not None:
        p.set_value('number_of_draws', int(R), 'MonteCarlo')
    if seed is not None:
        p.set_value('seed', int(seed), 'MonteCarlo')
    if threads is not None:
        p.set_value('number_of_threads', int(threads), 'MultiThreading')
    return p


def _mk_biogeme(formulas, db, R=None, seed=None, threads=1):
    from biogeme.biogeme import BIOGEME

    bg = BIOGEME(db, formulas, parameters=_mk_parameters(R, seed, threads))
    bg.modelName = 'c10'
    for a in ('generate_html', 'generate_pickle', 'save_iterations'):
        try:
            setattr(bg, a, False)
        except Exception:
            pass
    return bg


def _table_call(calls, table):
    """the generate_draws call whose result is the table handed to the engine"""
    for c in reversed(calls):
        if c['result'] is table:
            return c
    for c in reversed(calls):
        if isinstance(c['result'], np.ndarray) and table is not None and c['result'].shape == table.shape \
                and np.array_equal(c['result'], table):
            return c
    return None


def _names_by_column(ho, types, table):
    """which variable each column of the table at the engine boundary belongs to, read from the draw indices in
    the signature handed over with it (variables of other formulas of the same object: remaining names, sorted)"""
    from ..oracle import signature

    if table is None or getattr(table, 'ndim', 0) != 3 or table.shape[2] != len(types) or ho['signature'] is None:
        return None
    try:
        _, _, info = signature.decode(ho['signature'], ho['free'], ho['fixed'], ho['columns'])
    except Exception:
        return None
    cols = [None] * table.shape[2]
    for lf in info['leaves']['draws']:
        if 0 <= lf['id'] < len(cols) and lf['name'] in types:
            cols[lf['id']] = lf['name']
    rest = sorted(n for n in types if n not in cols)
    for k in range(len(cols)):
        if cols[k] is None:
            if not rest:
                return None
            cols[k] = rest.pop(0)
    if rest or len(set(cols)) != len(cols):
        return None
    return cols


def _resolve_call(cx, calls, ho, types):
    """the generation that produced the table the engine was given. Normally a generate_draws call made during
    the monitored evaluation; when the code under test hands over a table it generated EARLIER (nothing in the
    property forbids that) the table is attributed at the engine boundary: column -> variable from the signature,
    column -> production from everything the generator spies recorded in this process."""
    from ..oracle import c10_oracle as co

    table = ho['table']
    c = _table_call(calls, table)
    if c is not None or table is None:
        return c
    names = _names_by_column(ho, types, table)
    if names is None:
        return None
    cx.rec.c('draw_table_from_an_earlier_generation')
    prods = {}
    for p in PROD_ALL:
        if isinstance(p['out'], np.ndarray):
            prods.setdefault(p['type'], []).append(p['out'])
    cx.rec.ev()
    for pb in co.match_columns(table, names, types, prods):
        cx.viol('draw-table-column-is-not-own-generator-series', pb + ' (table from an earlier generation)', names=names)
    return {'names': names, 'types': dict(types), 'R': table.shape[1], 'N': table.shape[0], 'result': table,
            'prods': list(PROD_ALL), 'stored': table, 'pseudo': True}


# ---------------------------------------------------------------------------
# Monte-Carlo


def _run_mc(case, rec):
    from ..gen import build, c10_gen as gen, exprs
    from ..oracle import evalast, c10_oracle as co
    from ..monitors import engine_proxy as ep

    spec = gen.make_mc(case['seed'], case['i'], case['tier'], case.get('directed'))
    cx = _Ctx(rec, spec)
    N, R = spec['N'], spec['R']
    types = {n: t for n, t in spec['dvars']}
    bv = _bv(spec)
    ops = exprs.ops_in(spec['ast'], spec['shared'])
    rtol, atol = _tol(ops)
    expr, _ = build.build(spec)
    db = build.database(spec)
    _register_user(db)
    PROD.clear()
    GD_CALLS.clear()
    ep.reset()
    err = None
    try:
        va = np.asarray(expr.get_value_c(database=db, number_of_draws=R, prepare_ids=True), dtype=float)
    except BaseException as e:  # classified below, once the reference has judged the case
        err = e
        va = None
    calls = list(GD_CALLS)
    ho = _handover('one')
    table = ho['table']
    call = _resolve_call(cx, calls, ho, types)
    if call is None and calls:
        call = calls[-1]
    if call is None:
        if err is not None:
            # nothing was generated: the formula was refused before any draw
            rec.c('mc_refused_before_draws')
            cx.viol(f'montecarlo-raises-{type(err).__name__}', f'get_value_c raised before generating draws: {err}')
        else:
            cx.viol('engine-given-no-attributable-draw-table',
                    'get_value_c returned, but no table whose columns can be attributed to the draw variables reached the engine')
        return
    series = _series_from(call, table if table is not None else call['result'], types, N, R)
    if series is None:
        _check_generate_draws_calls(cx, calls, types, N, R)
        if not rec.viol:
            cx.viol('generate_draws-no-series-for-variable', 'no production of the declared generator for some variable')
        return
    j = evalast.judge(spec['ast'], spec['data'], bv, spec['shared'], draws=series)
    if not j['ok']:
        rec.c('rejected_' + j['reason'].split(':')[0])
        return
    ref = j['value']
    atol = atol + 1e-14 * j.get('maxabs', 0.0)
    # --- from here on the case is inside the regular domain
    if err is not None:
        cx.viol(f'montecarlo-raises-{type(err).__name__}', f'get_value_c raised {type(err).__name__}: {str(err)[:400]}')
        return
    _check_generate_draws_calls(cx, calls, types, N, R)
    rec.c('get_value_c_generate_draws_calls', len(calls))
    if table is None:
        cx.viol('engine-given-no-draw-table', 'no setDraws call reached the engine')
    elif call.get('pseudo') is None and _table_call(calls, table) is None:
        cx.viol('engine-given-other-table-than-generated', 'the table handed to setDraws is not a result of generate_draws')
    rec.ev()
    rec.key(['mc', spec['ast'], spec['shared'], spec['data'], spec['betas'], spec['dvars'], R])
    rec.c('mc_compared')
    rec.c(f'mc_R_{R}')
    rec.c(f'mc_K_{len(types)}')
    rec.c(f'mc_mode_{spec["mode"]}')
    rec.c(f'mc_N_{N}')
    nuser = sum(1 for t in types.values() if t in co.USER_TYPES)
    if nuser and nuser < len(types):
        rec.c('mc_native_and_user_in_one_formula')
    if len(set(types.values())) < len(types):
        rec.c('mc_two_variables_same_type')
    for t in types.values():
        rec.c('type_' + t)
    app = gen.appearance_order(spec['ast'], spec['shared'])
    if app != sorted(app):
        rec.c('mc_appearance_order_differs_from_alphabetical')
    if case.get('directed'):
        rec.c('mc_directed_' + case['directed'])
    rec.sample({'kind': 'mc', 'ast': spec['ast'], 'shared': spec['shared'], 'draw_variables': spec['dvars'], 'R': R,
                'rows': N, 'betas': spec['betas'], 'reference': ref, 'get_value_c': va})
    if va.shape != ref.shape or not close(va, ref, rtol, atol):
        cx.viol('montecarlo-value-differs-from-mean-over-own-series',
                f'get_value_c={va.tolist()} reference={ref.tolist()} maxrel={maxrel(va, ref) if va.shape == ref.shape else "shape"}',
                engine=va, reference=ref)
    # what the engine was asked to compute (second route: separates serialisation from evaluation)
    v2 = _decoded_value(cx, ho, spec['data'], table, call['names'], 'montecarlo')
    if v2 is not None:
        rec.ev()
        rec.c('mc_decoded_compared')
        if not close(v2, ref, 1e-10, atol):
            cx.viol('montecarlo-handed-over-formula-differs-from-specification',
                    f'signature+table handed over evaluate to {np.asarray(v2).tolist()}; specification {ref.tolist()}')
    if rec.viol:
        return
    # aggregated
    if case['i'] % 3 == 0:
        try:
            PROD.clear(); GD_CALLS.clear(); ep.reset()
            e2, _ = build.build(spec)
            vs = e2.get_value_c(database=db, number_of_draws=R, prepare_ids=True, aggregation=True)
            ho2 = _handover('one')
            c2 = _resolve_call(cx, list(GD_CALLS), ho2, types)
            _check_generate_draws_calls(cx, list(GD_CALLS), types, N, R)
            s2 = _series_from(c2, ho2['table'], types, N, R) if c2 is not None and ho2['table'] is not None else None
            if s2 is None:
                cx.viol('engine-given-no-attributable-draw-table', 'aggregated evaluation: no attributable draw table at the engine boundary')
            else:
                j2 = evalast.judge(spec['ast'], spec['data'], bv, spec['shared'], draws=s2)
                if j2['ok']:
                    rec.ev()
                    rec.c('mc_aggregated_compared')
                    if not close(vs, j2['value'].sum(), rtol * 10, atol * 10 * N + 1e-12 * np.abs(j2['value']).sum()):
                        cx.viol('montecarlo-aggregated-differs-from-sum', f'aggregated={vs} sum={j2["value"].sum()}')
        except BaseException as e:
            cx.viol(f'montecarlo-aggregated-raises-{type(e).__name__}', str(e)[:300])
            return
    # BIOGEME.calculate_likelihood / simulate
    if case['i'] % 2 == 0 or case.get('directed'):
        _mc_biogeme(case, rec, cx, spec, types, ops)


def _mc_biogeme(case, rec, cx, spec, types, ops):
    from ..gen import build, exprs
    from ..oracle import evalast
    from ..monitors import engine_proxy as ep

    N, R = spec['N'], spec['R']
    rng = random.Random(f'c10/bg/{case["seed"]}/{case["i"]}')
    with_side = rng.random() < 0.5
    threads = rng.choice([1, 1, 2, 3, 4])
    seed = rng.choice([0, 0, 17, 123456, 2**31 - 5])
    rtol, atol = _tol(ops)
    expr, _ = build.build(spec)
    forms = {'log_like': expr}
    all_types = dict(types)
    if with_side:
        sspec = dict(spec)
        sspec['ast'] = spec['side']['ast']
        sspec['shared'] = []
        forms['side'] = build.build(sspec)[0]
        for n, t in spec['side']['dvars']:
            all_types[n] = t
    db = build.database(spec)
    _register_user(db)
    PROD.clear(); GD_CALLS.clear(); ep.reset()
    try:
        bg = _mk_biogeme(forms if with_side else expr, db, R=R, seed=seed, threads=threads)
        names = list(bg.free_beta_names)
        x = [round(spec['betas'][n][0] + rng.uniform(-0.2, 0.2), 4) for n in names]
        ll = bg.calculate_likelihood(x, scaled=False)
        sim = bg.simulate(dict(zip(names, x))) if case['i'] % 4 == 0 else None
    except BaseException as e:
        bvx = None
        err = e
    else:
        err = None
    calls = list(GD_CALLS)
    ho = _handover('biogeme')
    table = ho['table']
    call = _resolve_call(cx, calls, ho, all_types)
    if err is not None and (call is None or table is None):
        cx.viol(f'likelihood-montecarlo-raises-{type(err).__name__}', f'BIOGEME raised {type(err).__name__}: {str(err)[:400]}')
        return
    if call is None:
        cx.viol('engine-given-other-table-than-generated',
                'BIOGEME: the table handed to setDraws is not a result of generate_draws' if table is not None
                else 'BIOGEME: no draw table reached the engine')
        return
    series = _series_from(call, table, all_types, N, R)
    if series is None:
        _check_generate_draws_calls(cx, calls, all_types, N, R)
        if not rec.viol:
            cx.viol('generate_draws-no-series-for-variable', 'BIOGEME: no production of the declared generator for some variable')
        return
    if err is not None:
        names = sorted(k for k, v in spec['betas'].items() if v[1] == 0)
        x = []
    bvx = _bv(spec)
    bvx.update(dict(zip(names, x)))
    j = evalast.judge(spec['ast'], spec['data'], bvx, spec['shared'], draws=series)
    if not j['ok']:
        rec.c('bg_rejected_' + j['reason'].split(':')[0])
        return
    if err is not None:
        cx.viol(f'likelihood-montecarlo-raises-{type(err).__name__}', f'BIOGEME raised {type(err).__name__}: {str(err)[:400]}')
        return
    _check_generate_draws_calls(cx, calls, all_types, N, R)
    rec.c('biogeme_generate_draws_calls', len(calls))
    ref = j['value']
    atol = atol + 1e-14 * j.get('maxabs', 0.0)
    rec.ev()
    rec.c('bg_likelihood_compared')
    rec.c(f'bg_threads_{threads}')
    if with_side:
        rec.c('bg_two_formulas_sharing_draws')
    if not close(ll, ref.sum(), rtol * 10, atol * 10 * N + 1e-12 * np.abs(ref).sum()):
        cx.viol('likelihood-differs-from-sum-of-montecarlo-means',
                f'calculate_likelihood={ll} reference={ref.sum()} (x={dict(zip(names, x))}, threads={threads}, side formula={with_side})')
    # decoded route on the BIOGEME hand-over
    ho['columns'] = list(spec['data'].keys()) if ho['columns'] is None else ho['columns']
    v2 = _decoded_value(cx, ho, spec['data'], table, call['names'], 'likelihood')
    if v2 is not None:
        rec.ev()
        rec.c('bg_decoded_compared')
        if not close(v2, ref, 1e-10, atol):
            cx.viol('likelihood-handed-over-formula-differs-from-specification',
                    f'signature+table handed to pyBiogeme evaluate to {np.asarray(v2).tolist()}; specification {ref.tolist()}')
    if sim is not None:
        rec.ev()
        rec.c('bg_simulate_compared')
        if not close(sim['log_like'].to_numpy(), ref, rtol, atol):
            cx.viol('simulate-differs-from-montecarlo-mean', f'simulate={sim["log_like"].tolist()} reference={ref.tolist()}')
        if with_side:
            js = evalast.judge(spec['side']['ast'], spec['data'], bvx, [], draws=series)
            if js['ok']:
                rec.ev()
                if not close(sim['side'].to_numpy(), js['value'], rtol, atol):
                    cx.viol('simulate-differs-from-montecarlo-mean', f'side formula: simulate={sim["side"].tolist()} reference={js["value"].tolist()}')


# ---------------------------------------------------------------------------
# seeds


def _run_seeds(case, rec):
    """equal non-zero seed -> equal tables and equal likelihood, whatever numpy's
    global state was before; (informational) other seed / seed 0 -> other draws"""
    from ..gen import build
    from ..monitors import engine_proxy as ep
    from ..oracle import evalast

    k = case['i']
    rng = random.Random(f'c10/seeds/{k}')
    N = [1, 3, 5, 8, 12, 2][k % 6]
    R = [2, 50, 7, 10, 4, 1][k % 6]
    rtypes = [['NORMAL', 'UNIFORM'], ['NORMAL_MLHS', 'UNIFORMSYM', 'NORMAL_HALTON3'], ['UNIFORM_MLHS', 'NORMAL'],
              ['NORMAL_ANTI', 'UNIFORM_ANTI', 'DET_A'], ['NORMAL_MLHS_ANTI', 'UNIFORMSYM_MLHS', 'UNIFORMSYM_ANTI'],
              ['NORMAL', 'UNIFORM_MLHS']][k % 6]
    names = ['xi', 'B_draw', 'eta_2'][: len(rtypes)]
    dvars = [[n, t] for n, t in zip(names, rtypes)]
    data = {'x_time': [round(rng.uniform(-2, 2), 3) for _ in range(N)], 'Cost': [round(rng.uniform(0.2, 3), 3) for _ in range(N)]}
    betas = {'mu': [0.4, 0], 'B_time': [-0.7, 0], 'sig': [0.9, 1]}
    u = ['add', ['mul', ['beta', 'B_time'], ['var', 'x_time']], ['mul', ['beta', 'sig'], ['draws', dvars[0][0], dvars[0][1]]]]
    for n, t in dvars[1:]:
        u = ['add', u, ['mul', ['mul', ['beta', 'mu'], ['var', 'Cost']], ['draws', n, t]]]
    ast = ['log', ['mc', ['div', ['num', 1.0], ['add', ['num', 1.0], ['exp', ['neg', u]]]]]]
    spec = {'ast': ast, 'shared': [], 'data': data, 'betas': betas, 'dvars': dvars, 'R': R, 'N': N}
    cx = _Ctx(rec, spec)
    types = {n: t for n, t in dvars}
    x = [-0.55, 0.35]  # B_time, mu (sorted names)

    def one(seed, disturb):
        np.random.seed(disturb)
        np.random.uniform(size=disturb % 97 + 1)
        expr, _ = build.build(spec)
        db = build.database(spec)
        _register_user(db)
        PROD.clear(); GD_CALLS.clear(); ep.reset()
        bg = _mk_biogeme(expr, db, R=R, seed=seed, threads=1 + k % 3)
        ll = bg.calculate_likelihood(x, scaled=False)
        ho = _handover('biogeme')
        call = _resolve_call(cx, list(GD_CALLS), ho, types)
        return ll, ho['table'], call, list(GD_CALLS)

    s = [17, 123456, 1, 2**31 - 1, 99, 4242][k % 6]
    try:
        a = one(s, 1000 + k)
        b = one(s, 2000 + 7 * k)
        c = one(s + 1, 3000 + k)
        z1 = one(0, 4000 + k)
        z2 = one(0, 5000 + k)
    except BaseException as e:
        cx.viol(f'seeds-raises-{type(e).__name__}', str(e)[:400])
        return
    for r in (a, b, c, z1, z2):
        _check_generate_draws_calls(cx, r[3], types, N, R)
        if r[2] is None:
            cx.viol('engine-given-other-table-than-generated', 'seeds: table handed over is not a generate_draws result')
            return
        # value against the reference, every run
        ser = _series_from(r[2], r[1], types, N, R)
        bvx = {'mu': x[1], 'B_time': x[0], 'sig': 0.9}
        j = evalast.judge(ast, data, bvx, [], draws=ser) if ser is not None else {'ok': False, 'reason': 'noseries'}
        if j['ok']:
            rec.ev()
            rec.c('seeds_likelihood_compared')
            if not close(r[0], j['value'].sum(), 1e-9, 1e-11):
                cx.viol('likelihood-differs-from-sum-of-montecarlo-means', f'seeds case: LL={r[0]} reference={j["value"].sum()}')
    rec.ev()
    rec.key(['seeds', k])
    rec.c('seeds_pairs_compared')
    if a[1].shape != b[1].shape or not np.array_equal(a[1], b[1]):
        cx.viol('seed-same-nonzero-seed-different-draws',
                f'two BIOGEME objects built with seed={s} handed different draw tables to the engine '
                f'(max abs difference {float(np.max(np.abs(a[1] - b[1]))) if a[1].shape == b[1].shape else "shape"})')
    if not close(a[0], b[0], 1e-14, 0):
        cx.viol('seed-same-nonzero-seed-different-likelihood', f'seed={s}: LL {a[0]!r} then {b[0]!r}')
    if not np.array_equal(a[1], c[1]):
        rec.c('seeds_other_seed_other_draws')
    if not np.array_equal(z1[1], z2[1]):
        rec.c('seeds_zero_seed_runs_differ')
    rec.sample({'kind': 'seeds', 'ast': ast, 'draw_variables': dvars, 'R': R, 'rows': N, 'seed': s,
                'LL_first': a[0], 'LL_second': b[0], 'LL_other_seed': c[0], 'LL_seed0': [z1[0], z2[0]]})


# ---------------------------------------------------------------------------
# Integrate


def _run_int(case, rec):
    from ..gen import build, c10_gen as gen, exprs
    from ..oracle import evalast
    from ..monitors import engine_proxy as ep

    spec = gen.make_integrate(case['seed'], case['i'], case['tier'])
    cx = _Ctx(rec, spec)
    bv = _bv(spec)
    j = evalast.judge(spec['ast'], spec['data'], bv, spec['shared'])
    if not j['ok']:
        rec.c('rejected_' + j['reason'].split(':')[0])
        return
    ref = j['value']
    rtol, atol = (1e-6, 1e-8) if spec['ncdf'] else (INT_RTOL, INT_ATOL)
    expr, _ = build.build(spec)
    db = build.database(spec)
    ep.reset()
    try:
        va = np.asarray(expr.get_value_c(database=db, prepare_ids=True), dtype=float)
    except BaseException as e:
        cx.viol(f'integrate-raises-{type(e).__name__}', f'get_value_c raised {type(e).__name__}: {str(e)[:400]}')
        return
    rec.ev()
    rec.key(['int', spec['ast'], spec['data'], spec['betas']])
    rec.c('int_compared')
    rec.c('int_mode_' + spec['mode'])
    for k in spec['kinds']:
        rec.c('int_factor_' + k)
    rec.sample({'kind': 'integrate', 'ast': spec['ast'], 'betas': spec['betas'], 'data': spec['data'],
                'reference': ref, 'get_value_c': va})
    dev = maxrel(va, ref) if va.shape == ref.shape else float('inf')
    # calibration record: how far the engine's quadrature really is from the reference on this workload
    for thr in ('1e-13', '1e-12', '1e-11', '1e-10', '1e-9'):
        if dev > float(thr) and not spec['ncdf']:
            rec.c('int_deviation_above_' + thr)
    if va.shape != ref.shape or not close(va, ref, rtol, atol):
        cx.viol('integrate-value-differs-from-integral',
                f'get_value_c={va.tolist()} reference quadrature={ref.tolist()} maxrel={dev}', engine=va, reference=ref)
    ho = _handover('one')
    v2 = _decoded_value(cx, ho, spec['data'], None, None, 'integrate')
    if v2 is not None:
        rec.ev()
        rec.c('int_decoded_compared')
        if not close(v2, ref, 1e-10, 1e-12):
            cx.viol('integrate-handed-over-formula-differs-from-specification',
                    f'signature handed over evaluates to {np.asarray(v2).tolist()}; specification {ref.tolist()}')
    if rec.viol:
        return
    if case['i'] % 3 == 0:
        rng = random.Random(f'c10/bgint/{case["seed"]}/{case["i"]}')
        try:
            e2, _ = build.build(spec)
            bg = _mk_biogeme(e2, build.database(spec), threads=rng.choice([1, 2, 3]))
            names = list(bg.free_beta_names)
            x = [round(spec['betas'][n][0] + rng.uniform(-0.2, 0.2), 4) for n in names]
            bvx = dict(bv)
            bvx.update(dict(zip(names, x)))
            jx = evalast.judge(spec['ast'], spec['data'], bvx, spec['shared'])
            if not jx['ok']:
                rec.c('bg_rejected_' + jx['reason'].split(':')[0])
                return
            ll = bg.calculate_likelihood(x, scaled=False)
        except BaseException as e:
            cx.viol(f'likelihood-integrate-raises-{type(e).__name__}', str(e)[:400])
            return
        rec.ev()
        rec.c('bg_integrate_likelihood_compared')
        r = jx['value']
        if not close(ll, r.sum(), rtol * 10, atol * 10 * len(r) + rtol * np.abs(r).sum()):
            cx.viol('likelihood-differs-from-sum-of-integrals', f'calculate_likelihood={ll} reference={r.sum()} x={dict(zip(names, x))}')


def _run_closed(case, rec):
    """integral of phi(w) w^k exp(a w) against its closed form (and the reference quadrature)"""
    from ..gen import build, c10_gen as gen
    from ..oracle import evalast, c10_oracle as co

    cx = _Ctx(rec, {'closed_forms': True})
    for a, k in gen.closed_form_cases():
        g = ['exp', ['mul', ['num', a], ['rv', 'omega']]]
        if k:
            g = ['mul', ['powc', ['rv', 'omega'], k], g]
        ast = ['integrate', ['mul', co.phi_ast('omega'), g], 'omega']
        spec = {'ast': ast, 'shared': [], 'betas': {}, 'data': {}}
        expr, _ = build.build(spec)
        try:
            v = float(expr.get_value_c(prepare_ids=True))
        except BaseException as e:
            cx.viol(f'integrate-raises-{type(e).__name__}', f'a={a} k={k}: {e}')
            return
        cf = co.gauss_exp(a, k)
        rec.ev()
        rec.key(['closed', a, k])
        rec.c('int_closed_form_compared')
        if not close(v, cf, INT_RTOL, INT_ATOL):
            cx.viol('integrate-value-differs-from-closed-form', f'integral of phi(w) w^{k} exp({a} w): engine {v!r}, closed form {cf!r}')
    rec.sample({'kind': 'closed forms', 'cases': gen.closed_form_cases()[:5]})


# ---------------------------------------------------------------------------
# Derive


def _run_der(case, rec):
    from ..gen import build, c10_gen as gen, exprs
    from ..oracle import evalast, c10_oracle as co
    from ..monitors import engine_proxy as ep

    spec = gen.make_derive(case['seed'], case['i'], case['tier'], allow_linutil=True if case.get('linutil') else None)
    _derive_compare(case, rec, spec)


def _derive_compare(case, rec, spec, known_shape=None):
    from ..gen import build, exprs
    from ..oracle import evalast, c10_oracle as co
    from ..monitors import engine_proxy as ep
    import pandas as pd
    import biogeme.database as bdb

    cx = _Ctx(rec, spec)
    bv = _bv(spec)
    target, kind = spec['target'], spec['target_kind']
    j = evalast.judge(spec['ast'], spec['data'], bv, spec['shared'])
    if not j['ok']:
        rec.c('rejected_' + j['reason'].split(':')[0])
        return
    ref = j['value']
    # second reference route: central differences (real arithmetic) on the child
    try:
        dj, _ = evalast.evaluate(['derive', spec['child'], target], spec['data'], bv, spec['shared'])
        cd = co.central_difference(spec['child'], spec['data'], bv, target, spec['shared'])
    except (evalast.OutOfDomain, KeyError, FloatingPointError, OverflowError, ZeroDivisionError):
        rec.c('rejected_central_difference_out_of_domain')
        return
    scale = max(1.0, float(np.max(np.abs(dj))) if dj.size else 1.0)
    if not close(cd, dj, 1e-5, 1e-6 * scale):
        rec.c('rejected_derive_oracle_routes_disagree')
        return
    ops = exprs.ops_in(spec['ast'], spec['shared'])
    rtol, atol = (1e-6, 1e-8) if 'ncdf' in ops else (1e-8, 1e-10)
    atol = atol + 1e-13 * j.get('maxabs', 0.0)
    linutil = 'linutil' in exprs.ops_in(spec['child'], spec['shared'])
    shape = 'through-bioLinearUtility' if linutil else 'plain'
    expr, _ = build.build(spec)
    db = build.database(spec)
    ep.reset()
    try:
        va = np.asarray(expr.get_value_c(database=db, prepare_ids=True), dtype=float)
    except BaseException as e:
        if 'is not differentiable' in str(e):
            # the engine refuses to differentiate logical operators, with a message that says so: a refusal is
            # not a wrong derivative; such formulas are outside the Derive workload (counted)
            rec.c('der_refused_by_engine_as_not_differentiable')
            return
        cx.viol(f'derive-{shape}-raises-{type(e).__name__}', f'get_value_c raised {type(e).__name__}: {str(e)[:400]}')
        return
    rec.ev()
    rec.key(['der', spec['ast'], spec['shared'], spec['data'], spec['betas'], target])
    rec.c('der_compared')
    rec.c('der_target_' + kind)
    rec.c('der_mode_' + spec['mode'])
    if linutil:
        rec.c('der_child_has_bioLinearUtility')
    if np.any(ref != 0):
        rec.c('der_nonzero_derivative')
    rec.sample({'kind': 'derive', 'ast': spec['ast'], 'shared': spec['shared'], 'target': target, 'target_kind': kind,
                'betas': spec['betas'], 'data': spec['data'], 'reference': ref, 'get_value_c': va})
    bad = va.shape != ref.shape or not close(va, ref, rtol, atol)
    if bad:
        cx.viol(f'derive-{shape}-differs-from-partial-derivative',
                f'Derive(., "{target}") [{kind}]: get_value_c={va.tolist()} reference={ref.tolist()}', engine=va, reference=ref)
    ho = _handover('one')
    v2 = _decoded_value(cx, ho, spec['data'], None, None, 'derive')
    if v2 is not None:
        rec.ev()
        rec.c('der_decoded_compared')
        if not close(v2, ref, 1e-9, atol):
            cx.viol('derive-handed-over-formula-differs-from-specification',
                    f'signature handed over evaluates to {np.asarray(v2).tolist()}; specification {ref.tolist()}')
    if bad:
        return
    # metamorphic partner on the real code: central difference of engine values of the child (plain Derive only)
    if spec['mode'] == 'plain' and kind in ('free', 'var') and case['i'] % 2 == 0:
        try:
            cspec = dict(spec)
            cspec['ast'] = spec['child']
            if kind == 'free':
                h = 1e-6 * max(1.0, abs(bv[target]))
                ec, _ = build.build(cspec)
                vp = np.asarray(ec.get_value_c(database=db, prepare_ids=True, betas={target: bv[target] + h}), dtype=float)
                ec, _ = build.build(cspec)
                vm = np.asarray(ec.get_value_c(database=db, prepare_ids=True, betas={target: bv[target] - h}), dtype=float)
                hh = h
            else:
                col = np.asarray(spec['data'][target], dtype=float)
                hh = 1e-6 * np.maximum(1.0, np.abs(col))
                vals = []
                for sgn in (1, -1):
                    d2 = dict(spec['data'])
                    d2[target] = list(col + sgn * hh)
                    ec, _ = build.build(cspec)
                    vals.append(np.asarray(ec.get_value_c(
                        database=bdb.Database('p', pd.DataFrame({k: list(v) for k, v in d2.items()})), prepare_ids=True), dtype=float))
                vp, vm = vals
            fd = (vp - vm) / (2 * hh)
            rec.ev()
            rec.c('der_engine_central_difference_compared')
            big = max(1.0, float(np.max(np.abs(vp))), float(np.max(np.abs(ref))))
            if not close(va, fd, 1e-4, 1e-5 * big):
                cx.viol('derive-differs-from-central-difference-of-engine-values',
                        f'Derive={va.tolist()} central difference of get_value_c(child)={fd.tolist()}')
        except BaseException as e:
            rec.c('der_engine_central_difference_failed_' + type(e).__name__)
    # through BIOGEME.calculate_likelihood
    if case['i'] % 3 == 0:
        try:
            e2, _ = build.build(spec)
            bg = _mk_biogeme(e2, build.database(spec), threads=1 + case['i'] % 3)
            names = list(bg.free_beta_names)
            ll = bg.calculate_likelihood([bv[n] for n in names], scaled=False)
        except BaseException as e:
            cx.viol(f'likelihood-derive-raises-{type(e).__name__}', str(e)[:400])
            return
        rec.ev()
        rec.c('bg_derive_likelihood_compared')
        if not close(ll, ref.sum(), rtol * 10, atol * 10 * len(ref) + 1e-12 * np.abs(ref).sum()):
            cx.viol(f'likelihood-differs-from-sum-of-derivatives-{shape}', f'calculate_likelihood={ll} reference={ref.sum()}')


def _run_derive_linutil(case, rec):
    """directed: Derive of a bioLinearUtility w.r.t. each of its parameters and columns"""
    data = {'x_time': [1.0, 2.0, 3.0], 'Cost': [0.5, 0.2, 0.1]}
    betas = {'a_cost': [0.3, 0], 'B_time': [0.7, 0], 'k1': [1.1, 1]}
    lin = ['linutil', [['a_cost', 'Cost'], ['B_time', 'x_time'], ['k1', 'Cost']]]
    for target, kind in (('B_time', 'free'), ('a_cost', 'free'), ('k1', 'fixed'), ('x_time', 'var'), ('Cost', 'var')):
        child = ['exp', lin]
        spec = {'ast': ['derive', child, target], 'child': child, 'shared': [], 'data': data, 'betas': betas,
                'target': target, 'target_kind': kind, 'mode': 'plain', 'linutil': True}
        _derive_compare({'i': 1}, rec, spec)
    # the same utility written with ordinary products: must be right
    prod = ['multsum', [['mul', ['beta', 'a_cost'], ['var', 'Cost']], ['mul', ['beta', 'B_time'], ['var', 'x_time']],
                        ['mul', ['beta', 'k1'], ['var', 'Cost']]], 'list']
    for target, kind in (('B_time', 'free'), ('a_cost', 'free'), ('k1', 'fixed'), ('x_time', 'var'), ('Cost', 'var')):
        child = ['exp', prod]
        spec = {'ast': ['derive', child, target], 'child': child, 'shared': [], 'data': data, 'betas': betas,
                'target': target, 'target_kind': kind, 'mode': 'plain', 'linutil': False}
        _derive_compare({'i': 0}, rec, spec)
    rec.c('directed_derive_linutil')


# ---------------------------------------------------------------------------
# user generators and reserved names; two variables of one random type


def _run_reserved(case, rec):
    import pandas as pd
    import biogeme.database as bdb
    from biogeme.native_draws import native_random_number_generators as nat
    from ..oracle import c10_oracle as co

    cx = _Ctx(rec, {'reserved_names': True})
    marker = lambda n, r: np.full((n, r), 123.25)
    for t in list(nat):
        db = bdb.Database('r', pd.DataFrame({'x': [1.0, 2.0]}))
        rec.ev()
        rec.key(['reserved', t])
        rec.c('reserved_names_checked')
        try:
            db.set_random_number_generators({t: (marker, 'mine'), 'DET_A': (lambda n, r: co.user_series('DET_A', n, r), 'ok')})
        except ValueError:
            continue
        except BaseException as e:
            cx.viol(f'reserved-name-registration-raises-{type(e).__name__}', f'{t}: {e}')
            continue
        # accepted: then the variable declared with that type must be fed by the generator registered for it
        try:
            tab = db.generate_draws({'v': t}, ['v'], 2)
            if not np.array_equal(tab[:, :, 0], marker(2, 2)):
                cx.viol('user-generator-under-reserved-name-accepted-but-not-used',
                        f'a user generator registered as "{t}" was accepted, yet the variable of that type received other numbers')
        except BaseException as e:
            cx.viol(f'reserved-name-generate-raises-{type(e).__name__}', f'{t}: {e}')
    # registration in both formats is used, and a second registration replaces / keeps by name
    db = bdb.Database('r', pd.DataFrame({'x': [1.0, 2.0, 3.0]}))
    _register_user(db)
    PROD.clear(); GD_CALLS.clear()
    names = ['v%d' % k for k in range(len(co.USER_TYPES))]
    types = dict(zip(names, co.USER_TYPES))
    try:
        tab = db.generate_draws(types, names, 4)
    except BaseException as e:
        cx.viol(f'user-generators-raise-{type(e).__name__}', str(e)[:300])
        return
    _check_generate_draws_calls(cx, list(GD_CALLS), types, 3, 4)
    for k, nm in enumerate(names):
        rec.ev()
        if tab.shape != (3, 4, len(names)) or not np.array_equal(tab[:, :, k], co.user_series(types[nm], 3, 4)):
            cx.viol('draw-table-column-is-not-own-generator-series', f'user type {types[nm]}: column {k} is not its closed form')
    rec.c('user_generators_both_formats')


def _run_sametype(case, rec):
    """two (three) variables of one pseudo-random type must each get a series of their own"""
    from ..gen import build
    from ..oracle import evalast
    from ..monitors import engine_proxy as ep

    data = {'x_time': [0.4, -1.2, 2.0, 0.7]}
    betas = {'s1': [0.8, 0], 's2': [0.5, 0]}
    for t, R in (('NORMAL', 7), ('UNIFORM', 2), ('NORMAL_MLHS', 50), ('UNIFORMSYM_ANTI', 4)):
        dvars = [['xi2', t], ['Xi1', t], ['a_xi', 'DET_B']]
        ast = ['mc', ['exp', ['add', ['mul', ['beta', 's1'], ['draws', 'xi2', t]],
                              ['sub', ['mul', ['mul', ['beta', 's2'], ['var', 'x_time']], ['draws', 'Xi1', t]],
                               ['draws', 'a_xi', 'DET_B']]]]]
        spec = {'ast': ast, 'shared': [], 'data': data, 'betas': betas, 'dvars': dvars, 'R': R, 'N': 4}
        cx = _Ctx(rec, spec)
        types = {n: tt for n, tt in dvars}
        expr, _ = build.build(spec)
        db = build.database(spec)
        _register_user(db)
        PROD.clear(); GD_CALLS.clear(); ep.reset()
        try:
            va = np.asarray(expr.get_value_c(database=db, number_of_draws=R, prepare_ids=True), dtype=float)
        except BaseException as e:
            cx.viol(f'montecarlo-raises-{type(e).__name__}', str(e)[:300])
            return
        calls = list(GD_CALLS)
        ho = _handover('one')
        _check_generate_draws_calls(cx, calls, types, 4, R)
        call = _resolve_call(cx, calls, ho, types)
        if call is None:
            cx.viol('engine-given-other-table-than-generated', 'same-type case')
            continue
        tab = ho['table']
        i1, i2 = call['names'].index('xi2'), call['names'].index('Xi1')
        rec.ev()
        rec.key(['sametype', t])
        rec.c('sametype_checked')
        if np.array_equal(tab[:, :, i1], tab[:, :, i2]):
            cx.viol('two-variables-of-one-random-type-share-one-series', f'xi2 and Xi1 (both {t}) received identical series')
        ser = _series_from(call, tab, types, 4, R)
        if ser is None:
            continue
        j = evalast.judge(ast, data, _bv(spec), [], draws=ser)
        if j['ok']:
            rec.ev()
            if not close(va, j['value'], 1e-9, 1e-11):
                cx.viol('montecarlo-value-differs-from-mean-over-own-series', f'same-type case {t}: {va.tolist()} vs {j["value"].tolist()}')


# ---------------------------------------------------------------------------
# registration histories on ONE Database object


def _run_hist(case, rec):
    """seeded sequence of set_random_number_generators calls on one Database (same names with other generators,
    disjoint names, a mix, an empty dict, the identical generators again, a refused registration followed by a
    valid one) interleaved with evaluations (get_value_c, BIOGEME + calculate_likelihood, simulate) under a
    changing number of draws. After every evaluation: every user generator the spies saw called is the one
    registered LAST under its type name, that one was called, and the value is the mean over its series.
    A type that is not part of the most recent registration may either be refused (what the unchanged code
    does: the registration replaces the set) or be served by the generator registered last under that name;
    the property text does not choose, so both are accepted and counted."""
    import pandas as pd
    import biogeme.database as bdb
    from biogeme.exceptions import BiogemeError
    from biogeme.native_draws import RandomNumberGeneratorTuple
    from ..gen import build, c10_gen as gen
    from ..oracle import evalast, c10_oracle as co
    from ..monitors import engine_proxy as ep

    directed = case.get('directed')
    rng = random.Random(f'c10/hist/{case["seed"]}/{case["i"]}/{directed}')
    N = rng.randint(2, 8)
    data = {'x_time': [round(rng.uniform(-2, 2), 3) for _ in range(N)],
            'Cost': [round(rng.uniform(0.2, 3), 3) for _ in range(N)]}
    betas = {'mu': [round(rng.uniform(0.2, 0.9), 3), 0], 'B_time': [round(rng.uniform(-1.2, -0.2), 3), 0],
             'k_fix': [0.6, 1]}
    db = bdb.Database('hist', pd.DataFrame(data))
    TYPES = ['MYTYPE', 'DET_A', 'zz_user', 'Tri', 'LOGN_user']
    NATIVE = ['NORMAL_HALTON2', 'UNIFORM', 'UNIFORMSYM_MLHS', 'NORMAL', 'UNIFORM_HALTON3']
    gens = {}  # gid -> (type, code, low, span, function object)
    reg_last = {}  # type name -> gid registered last under that name
    current = set()  # names of the most recent successful registration
    reregistered = set()  # names registered at least twice with different generators
    plan_log = []
    state = {'code': 10 + rng.randint(0, 5), 'lastR': None, 'fmt': 0}
    cx = _Ctx(rec, {'history': plan_log, 'data': data, 'betas': betas})

    def new_gen(t):
        state['code'] += 1
        gid = len(gens)
        code, low, span = state['code'], round(rng.uniform(-2, 1), 2), round(rng.uniform(0.5, 2), 2)

        def f(n, r, _c=code, _l=low, _s=span, _gid=gid, _t=t):
            out = co.coded_series(_c, _l, _s, n, r)
            e = {'type': _t, 'gid': _gid, 'args': (n, r), 'out': np.array(out, copy=True)}
            PROD.append(e)
            PROD_ALL.append(e)
            return out

        gens[gid] = (t, code, low, span, f)
        return gid

    def as_dict(gids):
        d = {}
        for g in gids:
            t, f = gens[g][0], gens[g][4]
            state['fmt'] += 1
            d[t] = (f, f'generator {g} for {t}') if state['fmt'] % 2 else RandomNumberGeneratorTuple(f, f'generator {g} for {t}')
        return d

    def register(kind):
        """returns False when a harness-side expectation about the registration call itself fails"""
        if kind == 'first':
            gids = [new_gen(t) for t in rng.sample(TYPES, rng.randint(1, 3))]
        elif kind == 'same':
            names = sorted(current) if current else rng.sample(TYPES, 1)
            gids = [new_gen(t) for t in rng.sample(names, rng.randint(1, len(names)))]
        elif kind == 'disjoint':
            pool = [t for t in TYPES if t not in current] or TYPES
            gids = [new_gen(t) for t in rng.sample(pool, rng.randint(1, min(2, len(pool))))]
        elif kind == 'mix':
            a = rng.sample(sorted(current), 1) if current else []
            pool = [t for t in TYPES if t not in current and t not in a]
            gids = [new_gen(t) for t in a + (rng.sample(pool, 1) if pool else [])] or [new_gen(TYPES[0])]
        elif kind == 'empty':
            gids = []
        elif kind == 'identical':
            gids = [reg_last[t] for t in sorted(current)]
        elif kind == 'refused_then_valid':
            bad = as_dict([new_gen(t) for t in rng.sample(TYPES, 1)])
            reserved = rng.choice(['NORMAL', 'UNIFORM_MLHS_ANTI', 'UNIFORMSYM_HALTON5'])
            bad[reserved] = (lambda n, r: np.zeros((n, r)), 'reserved')
            plan_log.append({'register_refused': sorted(bad)})
            try:
                db.set_random_number_generators(bad)
                rec.c('hist_reserved_registration_accepted')  # judged by the 'reserved' case, not here
                for t in bad:
                    if t != reserved:
                        g = [k for k, v in gens.items() if v[4] is (bad[t][0] if isinstance(bad[t], tuple) else bad[t].generator)]
                        if g:
                            if t in reg_last and reg_last[t] != g[0]:
                                reregistered.add(t)
                            reg_last[t] = g[0]
                current.clear()
                current.update(t for t in bad if t != reserved)
            except ValueError:
                rec.c('hist_reserved_registration_refused')
            except BaseException as e:
                cx.viol(f'history-registration-raises-{type(e).__name__}', str(e)[:300])
                return False
            # a refused registration registers nothing; an evaluation in between sees the previous state
            if rng.random() < 0.5 and current:
                evaluate()
                if rec.viol:
                    return False
            gids = [new_gen(t) for t in rng.sample(TYPES, rng.randint(1, 2))]
        else:
            raise ValueError(kind)
        d = as_dict(gids)
        plan_log.append({'register': kind, 'types': {gens[g][0]: f'gen{g}(code {gens[g][1]})' for g in gids}})
        try:
            db.set_random_number_generators(d)
        except BaseException as e:
            cx.viol(f'history-registration-raises-{type(e).__name__}', f'{kind}: {str(e)[:300]}')
            return False
        for g in gids:
            t = gens[g][0]
            if t in reg_last and reg_last[t] != g:
                reregistered.add(t)
            reg_last[t] = g
        current.clear()
        current.update(gens[g][0] for g in gids)
        rec.c('hist_reg_' + kind)
        return True

    def evaluate(force_types=None):
        R = rng.choice([r for r in (1, 2, 3, 7, 10, 50) if r != state['lastR']])
        if state['lastR'] is not None:
            rec.c('hist_number_of_draws_changed')
        state['lastR'] = R
        stale = sorted(t for t in reg_last if t not in current)
        use = []
        if force_types:
            use = list(force_types)
        else:
            cur = sorted(current)
            k = rng.randint(1, 3)
            # prefer types whose generator has been replaced
            pref = [t for t in cur if t in reregistered]
            if pref:
                use.append(rng.choice(pref))
            while len(use) < k:
                c = rng.random()
                if c < 0.55 and cur:
                    t = rng.choice(cur)
                elif c < 0.7 and stale:
                    t = rng.choice(stale)
                else:
                    t = rng.choice(NATIVE)
                if t not in use:
                    use.append(t)
                elif c >= 0.7 or not cur:
                    break
        if not use:
            use = [rng.choice(NATIVE)]
        has_stale = any(t in stale for t in use)
        names = rng.sample(gen.DRAW_NAMES, len(use))
        dvars = [[n, t] for n, t in zip(names, use)]
        types = dict(dvars)
        u = ['mul', ['beta', 'B_time'], ['var', 'x_time']]
        for j, (n, t) in enumerate(dvars):
            d = ['draws', n, t]
            term = [['mul', ['beta', 'mu'], d], ['mul', ['var', 'Cost'], ['sin', d]], ['mul', ['beta', 'k_fix'], ['mul', d, ['var', 'x_time']]]][j % 3]
            u = [rng.choice(['add', 'sub']), u, term]
        ast = ['mc', ['exp', ['mul', ['num', 0.3], u]]] if rng.random() < 0.5 else ['log', ['mc', ['div', ['num', 1.0], ['add', ['num', 1.0], ['exp', ['neg', u]]]]]]
        spec = {'ast': ast, 'shared': [], 'data': data, 'betas': betas}
        mode = rng.choice(['value', 'value', 'likelihood', 'likelihood', 'simulate'])
        plan_log.append({'evaluate': mode, 'R': R, 'draw_variables': dvars})
        expr, _ = build.build(spec)
        PROD.clear(); GD_CALLS.clear(); ep.reset()
        bv = _bv(spec)
        val = sim = None
        try:
            if mode == 'value':
                val = np.asarray(expr.get_value_c(database=db, number_of_draws=R, prepare_ids=True), dtype=float)
                kind = 'one'
            else:
                bg = _mk_biogeme(expr, db, R=R, seed=rng.choice([0, 5, 77]), threads=rng.choice([1, 2, 3]))
                free = list(bg.free_beta_names)
                x = [round(bv[n] + rng.uniform(-0.1, 0.1), 4) for n in free]
                bv.update(dict(zip(free, x)))
                if mode == 'likelihood':
                    val = bg.calculate_likelihood(x, scaled=False)
                else:
                    sim = bg.simulate(dict(zip(free, x)))
                    val = sim['log_like'].to_numpy()
                kind = 'biogeme'
        except BiogemeError as e:
            if has_stale and 'Unknown type of draws' in str(e):
                rec.c('hist_stale_type_refused')
                rec.c('hist_stale_type_evaluations')
                return
            cx.viol('history-evaluation-raises-BiogemeError', f'{mode}: {str(e)[:400]}')
            return
        except BaseException as e:
            cx.viol(f'history-evaluation-raises-{type(e).__name__}', f'{mode}: {str(e)[:400]}')
            return
        if has_stale:
            rec.c('hist_stale_type_served_by_generator_registered_last_under_the_name')
            rec.c('hist_stale_type_evaluations')
        calls = list(GD_CALLS)
        prods = list(PROD)
        ho = _handover(kind)
        call = _resolve_call(cx, calls, ho, types)
        if call is None:
            cx.viol('engine-given-other-table-than-generated', f'history ({mode}): no attributable draw table at the engine boundary')
            return
        # who was called?
        rec.ev()
        rec.c('hist_generator_identity_checked')
        for p in prods:
            if 'gid' in p and reg_last.get(p['type']) != p['gid']:
                cx.viol('history-generator-called-is-not-the-one-registered-last-for-its-type',
                        f'type {p["type"]}: generator gen{p["gid"]} was called; registered last under that name: gen{reg_last.get(p["type"])}')
                break
        for t in use:
            if t in reg_last:
                for c in calls:
                    if not any(p.get('gid') == reg_last[t] for p in c['prods']):
                        cx.viol('history-generator-registered-last-was-not-called',
                                f'type {t}: gen{reg_last[t]} (registered last) was not asked for a series during generate_draws')
                        break
        _check_generate_draws_calls(cx, calls, types, N, R)
        closed = {t: co.coded_series(gens[reg_last[t]][1], gens[reg_last[t]][2], gens[reg_last[t]][3], N, R)
                  for t in use if t in reg_last}
        ser = _series_from(call, ho['table'], types, N, R, user_closed=closed)
        if ser is None:
            if not rec.viol:
                cx.viol('generate_draws-no-series-for-variable', 'history: no production of the declared generator for some variable')
            return
        j = evalast.judge(ast, data, bv, [], draws=ser)
        if not j['ok']:
            rec.c('hist_rejected_' + j['reason'].split(':')[0])
            return
        ref = j['value']
        rec.ev()
        rec.c('hist_evaluations_compared')
        rec.c('hist_eval_' + mode)
        if any(t in reregistered for t in use):
            rec.c('hist_evaluations_after_reregistration_of_same_type')
        state['compared'] = state.get('compared', 0) + 1
        target = ref.sum() if mode == 'likelihood' else ref
        if not close(val, target, 1e-9, 1e-11 * max(1, N)):
            cx.viol('history-value-differs-from-mean-over-series-of-generator-registered-last',
                    f'{mode}, R={R}, variables {dvars}: real code {np.asarray(val).tolist()} reference {np.asarray(target).tolist()}')

    # ---- the history
    if directed == 'reregister':
        kinds = ['same', 'same'][: 1 + case['i'] % 2] + (['identical'] if case['i'] == 2 else [])
    else:
        L = rng.randint(2, 6)
        pool = ['same', 'same', 'disjoint', 'mix', 'empty', 'identical', 'refused_then_valid']
        kinds = [rng.choice(pool) for _ in range(L - 1)]
    if not register('first'):
        return
    if rng.random() < 0.8 or directed:
        evaluate()
    for kd in kinds:
        if rec.viol:
            return
        if not register(kd):
            return
        for _ in range(rng.choice([1, 1, 2])):
            if rec.viol:
                return
            evaluate()
    if directed:
        rec.c('hist_directed_' + directed)
    if state.get('compared', 0) >= 1 and len(kinds) >= 1:
        rec.key(['hist', plan_log, data, betas])
    rec.sample({'kind': 'registration history on one Database', 'steps': plan_log, 'rows': N})


# ---------------------------------------------------------------------------
# one Database object reused by several seeded objects / evaluations


def _reuse_model(rng, R, tag):
    from ..gen import c10_gen as gen

    natives = sorted(gen.RANDOM_NATIVE if R % 2 == 0 else [t for t in gen.RANDOM_NATIVE if not t.endswith('_ANTI')])
    k = rng.randint(2, 3)
    tys = [rng.choice(natives)]
    pool = natives + ['DET_A', 'zz_user', 'EXPO_np', 'EXPO_np', 'NORMAL_HALTON3']
    while len(tys) < k:
        t = rng.choice(pool)
        if t not in tys:
            tys.append(t)
    rng.shuffle(tys)
    names = rng.sample(gen.DRAW_NAMES, k)
    if tag == 'other':
        names = [n + '_o' for n in names]
    dvars = [[n, t] for n, t in zip(names, tys)]
    u = ['mul', ['beta', 'B_time'], ['var', 'x_time']]
    for j, (n, t) in enumerate(dvars):
        d = ['draws', n, t]
        term = [['mul', ['beta', 'mu'], d], ['mul', ['var', 'Cost'], ['sin', d]], ['mul', ['beta', 'k_fix'], ['mul', d, ['var', 'x_time']]]][j % 3]
        u = [rng.choice(['add', 'sub']), u, term]
    ast = ['mc', ['exp', ['mul', ['num', 0.3], u]]] if rng.random() < 0.5 else \
        ['log', ['mc', ['div', ['num', 1.0], ['add', ['num', 1.0], ['exp', ['neg', u]]]]]]
    return ast, dvars


def _run_reuse(case, rec):
    """'with a non-zero seed the results are reproducible': the same model, data, number of draws and non-zero
    seed evaluated (1) on a Database object that has been used before -- possibly by an unseeded evaluation of
    the same request, possibly with another model in between --, (2) again, (3) again, and (4) on a freshly built
    Database, must give the same draw tables at the engine boundary and the same results. BIOGEME level: the
    seed parameter. Expression level (get_value_c(prepare_ids=True), create_function): numpy's global generator
    seeded by the caller immediately before the call, which is all the seed parameter does. Every single
    evaluation also passes the Monte-Carlo value oracle."""
    import pandas as pd
    import biogeme.database as bdb
    from ..gen import build
    from ..oracle import evalast
    from ..monitors import engine_proxy as ep

    directed = case.get('directed')
    rng = random.Random(f'c10/reuse/{case["seed"]}/{case["i"]}/{directed}')
    N = rng.randint(1, 8)
    R = rng.choice([1, 2, 3, 4, 7, 10, 50])
    data = {'x_time': [round(rng.uniform(-2, 2), 3) for _ in range(N)],
            'Cost': [round(rng.uniform(0.2, 3), 3) for _ in range(N)]}
    betas = {'mu': [round(rng.uniform(0.2, 0.9), 3), 0], 'B_time': [round(rng.uniform(-1.2, -0.2), 3), 0],
             'k_fix': [0.6, 1]}
    astA, dvA = _reuse_model(rng, R, 'main')
    astO, dvO = _reuse_model(rng, R, 'other')
    levels = ['simulate', 'likelihood', 'value', 'function']
    level = levels[case['i'] % 4] if directed else rng.choice(levels)
    seed = rng.choice([1, 17, 2024, 123456, 2**31 - 1])
    threads = rng.choice([1, 2, 3])
    x = [round(betas['B_time'][0] + rng.uniform(-0.1, 0.1), 4), round(betas['mu'][0] + rng.uniform(-0.1, 0.1), 4)]
    bvx = {'B_time': x[0], 'mu': x[1], 'k_fix': 0.6}
    unseeded_first = True if directed and case['i'] >= 2 else (False if directed else rng.random() < 0.4)
    other_between = False if directed else rng.random() < 0.4
    log = []
    spec_w = {'level': level, 'R': R, 'rows': N, 'seed': seed, 'model': astA, 'draw_variables': dvA, 'data': data,
              'betas': betas, 'steps': log}
    cx = _Ctx(rec, spec_w)
    counter = {'n': 0}

    def mkdb(name):
        d = bdb.Database(name, pd.DataFrame(data))
        _register_user(d, with_numpy_based=True)
        return d

    def run(dbobj, which, seeded, lvl, label):
        ast, dv = (astA, dvA) if which == 'main' else (astO, dvO)
        types = dict(dv)
        counter['n'] += 1
        np.random.seed(7000 + 13 * counter['n'] + case['i'])
        np.random.uniform(size=3 + counter['n'])  # the caller's own use of the global stream between runs
        spec = {'ast': ast, 'shared': [], 'data': data, 'betas': betas}
        expr, _ = build.build(spec)
        PROD.clear(); GD_CALLS.clear(); ep.reset()
        handle = None
        log.append({'run': label, 'database': 'fresh' if label == 'fresh' else 'shared', 'model': which, 'level': lvl,
                    'seed': seed if seeded else 0})
        if lvl in ('simulate', 'likelihood'):
            bg = _mk_biogeme(expr, dbobj, R=R, seed=seed if seeded else 0, threads=threads)
            handle = bg
            if lvl == 'likelihood':
                res = np.asarray(bg.calculate_likelihood(x, scaled=False), dtype=float)
            else:
                res = bg.simulate({'B_time': x[0], 'mu': x[1]})['log_like'].to_numpy()
            kind = 'biogeme'
        elif lvl == 'value':
            if seeded:
                np.random.seed(seed)
            res = np.asarray(expr.get_value_c(database=dbobj, number_of_draws=R, prepare_ids=True, betas={'B_time': x[0], 'mu': x[1]}), dtype=float)
            kind = 'one'
        else:
            if seeded:
                np.random.seed(seed)
            f = expr.create_function(database=dbobj, number_of_draws=R, gradient=False, hessian=False, bhhh=False)
            res = np.asarray(f(list(x)).function, dtype=float)
            kind = 'one'
        ho = _handover(kind)
        calls = list(GD_CALLS)
        table = ho['table']
        call = _resolve_call(cx, calls, ho, types)
        if call is None:
            cx.viol('engine-given-other-table-than-generated', f'reuse ({label}, {lvl}): no attributable draw table at the engine boundary')
            return None
        _check_generate_draws_calls(cx, calls, types, N, R)
        ser = _series_from(call, table, types, N, R)
        if ser is None:
            if not rec.viol:
                cx.viol('generate_draws-no-series-for-variable', f'reuse ({label}): no production of the declared generator for some variable')
            return None
        j = evalast.judge(ast, data, bvx, [], draws=ser)
        if j['ok']:
            rec.ev()
            rec.c('reuse_evaluations_value_checked')
            target = j['value'].sum() if lvl in ('likelihood', 'function') else j['value']
            if not close(res, target, 1e-9, 1e-11 * max(1, N)):
                cx.viol('montecarlo-value-differs-from-mean-over-own-series',
                        f'reuse ({label}, {lvl}): real code {np.asarray(res).tolist()} reference {np.asarray(target).tolist()}')
        return {'res': res, 'table': np.array(table, copy=True), 'handle': handle, 'ok': j['ok']}

    try:
        shared = mkdb('shared')
        if unseeded_first:
            if run(shared, 'main', False, level, 'unseeded-first') is None:
                return
            rec.c('reuse_unseeded_evaluation_first')
        r1 = run(shared, 'main', True, level, 'first')
        if r1 is None or rec.viol:
            return
        if other_between:
            if run(shared, 'other', rng.random() < 0.5, rng.choice(['value', 'likelihood']), 'other-model') is None or rec.viol:
                return
            rec.c('reuse_other_model_in_between')
        r2 = run(shared, 'main', True, level, 'second')
        if r2 is None or rec.viol:
            return
        r3 = run(shared, 'main', True, level, 'third')
        if r3 is None or rec.viol:
            return
        r4 = run(mkdb('fresh'), 'main', True, level, 'fresh')
        if r4 is None or rec.viol:
            return
    except BaseException as e:
        cx.viol(f'reuse-raises-{type(e).__name__}', str(e)[:400])
        return
    rec.ev()
    rec.key(['reuse', level, astA, dvA, data, betas, R, seed, unseeded_first, other_between])
    rec.c('reuse_groups_compared')
    rec.c('reuse_level_' + level)
    if directed:
        rec.c('reuse_directed_' + directed)
    where = 'seed-reused-database' if level in ('simulate', 'likelihood') else 'seeded-expression-evaluation-on-reused-database'
    for lab, r in (('first', r1), ('second', r2), ('third', r3)):
        if r['table'].shape != r4['table'].shape or not np.array_equal(r['table'], r4['table']):
            cx.viol(f'{where}-draws-differ-from-fresh-database',
                    f'{level}, seed={seed}, R={R}: the {lab} seeded use of the shared Database object handed the engine other draws '
                    f'than a freshly built Database with the same seed, model and data '
                    f'(unseeded evaluation first: {unseeded_first}, other model in between: {other_between})')
            break
    for lab, r in (('first', r1), ('second', r2), ('third', r3)):
        if not close(r['res'], r4['res'], 1e-13, 0):
            cx.viol(f'{where}-result-differs-from-fresh-database',
                    f'{level}, seed={seed}, R={R}: {lab} use {np.asarray(r["res"]).tolist()} vs fresh database {np.asarray(r4["res"]).tolist()}')
            break
    # the first object, evaluated again after the others were built on the same Database
    if level in ('simulate', 'likelihood') and not rec.viol:
        try:
            bg = r1['handle']
            again = np.asarray(bg.calculate_likelihood(x, scaled=False), dtype=float) if level == 'likelihood' else \
                bg.simulate({'B_time': x[0], 'mu': x[1]})['log_like'].to_numpy()
        except BaseException as e:
            cx.viol(f'reuse-first-object-raises-{type(e).__name__}', str(e)[:300])
            return
        rec.ev()
        rec.c('reuse_first_object_reevaluated')
        if not close(again, r1['res'], 1e-13, 0):
            cx.viol('biogeme-object-result-changes-after-other-objects-built-on-same-database',
                    f'{level}: first {np.asarray(r1["res"]).tolist()}, same object later {np.asarray(again).tolist()}')
    rec.sample({'kind': 'one Database reused', **{k: spec_w[k] for k in ('level', 'R', 'rows', 'seed', 'draw_variables', 'steps')},
                'results': [np.asarray(r['res']).tolist() for r in (r1, r2, r3, r4)]})


def _run_stale_function(case, rec):
    """directed: a function made by create_function, called again after ANOTHER Monte-Carlo formula was evaluated
    on the same Database object (same number of draw variables and draws, so that shapes agree)"""
    import pandas as pd
    import biogeme.database as bdb
    from ..gen import build
    from ..oracle import c10_oracle as co

    data = {'x_time': [1.0, 2.0, 3.0]}
    betas = {'mu': [0.5, 0]}
    db = bdb.Database('stale', pd.DataFrame(data))
    _register_user(db)
    specF = {'ast': ['mc', ['mul', ['mul', ['draws', 'xi', 'DET_A'], ['beta', 'mu']], ['var', 'x_time']]], 'shared': [],
             'data': data, 'betas': betas}
    specG = {'ast': ['mc', ['mul', ['draws', 'Zd', 'DET_POS'], ['var', 'x_time']]], 'shared': [], 'data': data, 'betas': betas}
    cx = _Ctx(rec, {'f': specF['ast'], 'other_formula': specG['ast'], 'data': data})
    R = 4
    x_arr = np.array(data['x_time'])
    own = float((co.user_series('DET_A', 3, R).mean(axis=1) * 0.5 * x_arr).sum())
    other = float((co.user_series('DET_POS', 3, R).mean(axis=1) * 0.5 * x_arr).sum())
    try:
        ef, _ = build.build(specF)
        f = ef.create_function(database=db, number_of_draws=R, gradient=False, hessian=False, bhhh=False)
        before = float(f([0.5]).function)
        eg, _ = build.build(specG)
        eg.get_value_c(database=db, number_of_draws=R, prepare_ids=True)
        after = float(f([0.5]).function)
    except BaseException as e:
        cx.viol(f'stale-function-raises-{type(e).__name__}', str(e)[:300])
        return
    rec.ev(2)
    rec.key(['stale_function'])
    rec.c('stale_function_checked')
    if not close(before, own, 1e-12, 0):
        cx.viol('montecarlo-value-differs-from-mean-over-own-series', f'create_function value {before}, mean over own series {own}')
    if not close(after, own, 1e-12, 0):
        cx.viol('create_function-called-after-other-model-on-same-database-reads-other-draw-table',
                f'f = MonteCarlo(xi[DET_A]*mu*x).create_function(db, 4 draws): f([0.5]) = {before} (mean over the DET_A series: {own}); '
                f'after MonteCarlo(Zd[DET_POS]*x).get_value_c(database=db, number_of_draws=4, prepare_ids=True) the same call '
                f'returns {after}' + (' = the mean over the DET_POS series' if close(after, other, 1e-12, 0) else ''))
    rec.sample({'kind': 'stale function', 'before': before, 'after': after, 'own_series_value': own, 'other_series_value': other})


# ---------------------------------------------------------------------------
# seeded BIOGEME objects built from dictionaries of formulas


_DICT_LAYOUTS = ['sim_only', 'loglike_plain', 'loglike_draws', 'weight']
_DICT_TYPES = ['random', 'mlhs_anti', 'halton', 'user_np', 'mixed']


def _dict_types(rng, R, cls):
    even = R % 2 == 0
    pools = {
        'random': ['UNIFORM', 'NORMAL', 'UNIFORMSYM'],
        'mlhs_anti': ['UNIFORM_MLHS', 'NORMAL_MLHS', 'UNIFORMSYM_MLHS'] + (
            ['UNIFORM_ANTI', 'NORMAL_ANTI', 'UNIFORMSYM_ANTI', 'UNIFORM_MLHS_ANTI', 'NORMAL_MLHS_ANTI', 'UNIFORMSYM_MLHS_ANTI'] if even else []),
        'halton': ['UNIFORM_HALTON2', 'UNIFORM_HALTON3', 'NORMAL_HALTON2', 'NORMAL_HALTON5', 'UNIFORMSYM_HALTON3', 'UNIFORMSYM_HALTON5'],
        'user_np': ['EXPO_np', 'EXPO_np', 'DET_A', 'zz_user'],
    }
    pools['mixed'] = pools['random'] + pools['mlhs_anti'] + pools['halton'] + pools['user_np']
    return pools[cls]


def _dict_formula(rng, pool, names, must=None):
    """MonteCarlo formula over 1-2 draw variables with the given names"""
    dv = []
    for k, n in enumerate(names):
        t = must if (must and k == 0) else rng.choice(pool)
        dv.append([n, t])
    u = ['mul', ['beta', 'B_time'], ['var', 'x_time']]
    for j, (n, t) in enumerate(dv):
        d = ['draws', n, t]
        term = [['mul', ['beta', 'mu'], d], ['mul', ['var', 'Cost'], ['sin', d]]][j % 2]
        u = [rng.choice(['add', 'sub']), u, term]
    ast = ['mc', ['exp', ['mul', ['num', 0.3], u]]] if rng.random() < 0.5 else \
        ['log', ['mc', ['div', ['num', 1.0], ['add', ['num', 1.0], ['exp', ['neg', u]]]]]]
    return ast, dv


def _run_dict(case, rec):
    """'with a non-zero seed the results are reproducible' for BIOGEME objects built from a DICTIONARY of formulas:
    {only simulation formulas with draws}, {log_like without draws + others with draws}, {log_like with draws +
    others with draws}, {weight formula present}; draw types: pseudo-random native, MLHS / antithetic, Halton
    (deterministic: control), user generators consuming numpy's stream, mixed. Same seed + same formulas + same
    data -> identical draw tables at the engine boundary and identical simulate / likelihood values: two
    constructions in this process (numpy's global state disturbed differently before each), a third one after
    np.random.seed(None), a fourth in a forked child that re-seeds from OS entropy (what a fresh process starts
    from). Where in the seeded stream the table sits is not promised and not judged. Every construction's values
    must also be the means over the series its generators produced (own-series oracle)."""
    import pandas as pd
    import biogeme.database as bdb
    from ..gen import build, c10_gen as gen
    from ..oracle import evalast
    from ..monitors import engine_proxy as ep
    from ..worker import run_forked

    directed = case.get('directed')
    rng = random.Random(f'c10/dict/{case["seed"]}/{case["i"]}/{directed}')
    if directed:
        layout = _DICT_LAYOUTS[case['i'] % 4]
        cls = ['random', 'mlhs_anti', 'user_np', 'halton'][(case['i'] // 4) % 4]
    else:
        layout = rng.choice(_DICT_LAYOUTS)
        cls = rng.choice(_DICT_TYPES)
    N = rng.randint(1, 8)
    R = rng.choice([2, 4, 10, 50] if cls == 'mlhs_anti' and rng.random() < 0.7 else [1, 2, 3, 7, 10, 50])
    pool = _dict_types(rng, R, cls)
    must = 'EXPO_np' if cls == 'user_np' else None
    data = {'x_time': [round(rng.uniform(-2, 2), 3) for _ in range(N)],
            'Cost': [round(rng.uniform(0.2, 3), 3) for _ in range(N)]}
    betas = {'mu': [round(rng.uniform(0.2, 0.9), 3), 0], 'B_time': [round(rng.uniform(-1.2, -0.2), 3), 0]}
    names = rng.sample(gen.DRAW_NAMES, 5)
    plain = ['sub', ['mul', ['beta', 'B_time'], ['var', 'x_time']], ['exp', ['mul', ['beta', 'mu'], ['var', 'Cost']]]]
    f1, dv1 = _dict_formula(rng, pool, names[:rng.randint(1, 2)], must)
    f2, dv2 = _dict_formula(rng, pool, names[2:2 + rng.randint(1, 2)])
    f3, dv3 = _dict_formula(rng, pool, [names[4]] + ([dv1[0][0]] if rng.random() < 0.5 else []))
    if len(dv3) == 2:
        dv3[1][1] = dv1[0][1]  # the same variable as in f1: same declared type
        f3 = _subst_type(f3, dv3[1][0], dv3[1][1])
    forms = {}
    if layout == 'sim_only':
        forms = {'sim_b': f2, 'A_sim': f1, 'plain': plain}
    elif layout == 'loglike_plain':
        forms = {'other': f1, 'log_like': plain, 'Z_other': f2}
    elif layout == 'loglike_draws':
        forms = {'log_like': f1, 'other': f2, 'third': f3}
    else:
        forms = {'weight': ['var', 'Cost'], 'log_like': f1 if rng.random() < 0.5 else plain, 'other': f2}
    types = {}
    for a in forms.values():
        for n, t in _draw_leaves(a):
            types[n] = t
    seed = rng.choice([1, 17, 2024, 123456, 2**31 - 1])
    threads = rng.choice([1, 2, 3])
    x = {'B_time': round(betas['B_time'][0] + rng.uniform(-0.1, 0.1), 4), 'mu': round(betas['mu'][0] + rng.uniform(-0.1, 0.1), 4)}
    spec_w = {'layout': layout, 'type_class': cls, 'formulas': forms, 'draw_variables': types, 'R': R, 'rows': N, 'seed': seed,
              'data': data, 'betas': betas, 'x': x}
    cx = _Ctx(rec, spec_w)
    has_ll = 'log_like' in forms
    counter = {'n': 0}

    def construct(sd, disturb):
        """one construction + simulate (+ likelihood); returns dict with table / values, or None after a violation"""
        counter['n'] += 1
        if disturb == 'entropy':
            np.random.seed(None)
        else:
            np.random.seed(disturb)
            np.random.uniform(size=1 + disturb % 53)
        objs = {}
        for k, a in forms.items():
            objs[k] = build.build({'ast': a, 'shared': [], 'data': data, 'betas': betas})[0]
        db = bdb.Database('dict', pd.DataFrame(data))
        _register_user(db, with_numpy_based=True)
        PROD.clear(); GD_CALLS.clear(); ep.reset()
        bg = _mk_biogeme(objs, db, R=R, seed=sd, threads=threads)
        free = list(bg.free_beta_names)
        sim = bg.simulate({n: x[n] for n in free})
        ll = float(bg.calculate_likelihood([x[n] for n in free], scaled=False)) if has_ll else None
        calls = list(GD_CALLS)
        ho = _handover('biogeme')
        table = ho['table']
        call = _table_call(calls, table)
        if call is None:
            # no log-likelihood signature to attribute columns with: the sorted-name convention is the only handle
            if table is not None and getattr(table, 'ndim', 0) == 3 and table.shape[2] == len(types):
                ho2 = dict(ho)
                call = _resolve_call(cx, calls, ho2, types) if ho['signature'] is not None else None
        if call is None:
            cx.viol('engine-given-other-table-than-generated', f'formula dictionary ({layout}): no attributable draw table at the engine boundary')
            return None
        _check_generate_draws_calls(cx, calls, types, N, R)
        ser = _series_from(call, table, types, N, R)
        if ser is None:
            if not rec.viol:
                cx.viol('generate_draws-no-series-for-variable', f'formula dictionary ({layout}): no production of the declared generator for some variable')
            return None
        cols = {}
        ok_all = True
        for k, a in forms.items():
            j = evalast.judge(a, data, x, [], draws=ser)
            if not j['ok']:
                ok_all = False
                continue
            cols[k] = j['value']
            rec.ev()
            rec.c('dict_simulate_columns_value_checked')
            if not close(sim[k].to_numpy(), j['value'], 1e-9, 1e-11):
                cx.viol('simulate-differs-from-montecarlo-mean',
                        f'formula dictionary ({layout}), formula "{k}": simulate={sim[k].tolist()} reference={j["value"].tolist()}')
        if has_ll and 'log_like' in cols:
            w = cols.get('weight') if 'weight' in forms else np.ones(N)
            if w is not None:
                rec.ev()
                rec.c('dict_likelihood_value_checked')
                tgt = float((w * cols['log_like']).sum())
                if not close(ll, tgt, 1e-9, 1e-11 * max(1, N)):
                    cx.viol('likelihood-differs-from-weighted-sum-of-montecarlo-means',
                            f'formula dictionary ({layout}): calculate_likelihood={ll} reference={tgt}')
        return {'table': np.array(table, copy=True), 'sim': {k: sim[k].to_numpy().copy() for k in forms}, 'll': ll, 'ok': ok_all}

    def child(_):
        import os as _os
        r = construct(seed, 'entropy')
        if r is None:
            return {'failed': True, 'viol': rec.viol[-3:]}
        return {'table': r['table'].tolist(), 'sim': {k: v.tolist() for k, v in r['sim'].items()}, 'll': r['ll'], 'pid': _os.getpid()}

    try:
        a = construct(seed, 1000 + case['i'])
        if a is None or rec.viol:
            return
        b = construct(seed, 52000 + 7 * case['i'])
        if b is None or rec.viol:
            return
        c = construct(seed, 'entropy')
        if c is None or rec.viol:
            return
        o = construct(seed + 1, 1000 + case['i'])  # other seed, same disturbance as the first (informational)
        z = construct(0, 3000 + case['i'])
    except BaseException as e:
        cx.viol(f'formula-dictionary-raises-{type(e).__name__}', f'{layout}/{cls}: {str(e)[:400]}')
        return
    rec.ev()
    rec.key(['dict', layout, cls, forms, data, betas, R, seed])
    rec.c('dict_groups_compared')
    rec.c('dict_layout_' + layout)
    rec.c('dict_types_' + cls)
    if directed:
        rec.c('dict_directed_' + directed)
    uses_numpy_stream = any(t in gen.RANDOM_NATIVE or t == 'EXPO_np' for t in types.values())
    if uses_numpy_stream and o is not None and not np.array_equal(o['table'], a['table']):
        rec.c('dict_other_seed_other_draws')
    if uses_numpy_stream and z is not None and not np.array_equal(z['table'], a['table']):
        rec.c('dict_seed_zero_other_draws')

    def compare(lab, r, table, sim, ll):
        if np.asarray(table).shape != a['table'].shape or not np.array_equal(np.asarray(table, dtype=float), a['table']):
            cx.viol('seed-formula-dictionary-same-seed-different-draws',
                    f'layout {layout}, types {sorted(set(types.values()))}, seed={seed}, R={R}: the {lab} construction handed the engine other '
                    f'draws than the first one')
            return
        for k in forms:
            if not close(np.asarray(sim[k], dtype=float), a['sim'][k], 1e-13, 0):
                cx.viol('seed-formula-dictionary-same-seed-different-results',
                        f'layout {layout}, formula "{k}", seed={seed}: first {a["sim"][k].tolist()}, {lab} {np.asarray(sim[k]).tolist()}')
                return
        if has_ll and not close(ll, a['ll'], 1e-13, 0):
            cx.viol('seed-formula-dictionary-same-seed-different-results', f'layout {layout}: likelihood first {a["ll"]!r}, {lab} {ll!r}')

    compare('second', b, b['table'], b['sim'], b['ll'])
    if not rec.viol:
        compare('third (numpy re-seeded from OS entropy before)', c, c['table'], c['sim'], c['ll'])
    if not rec.viol:
        res = run_forked(child, None, 120)
        if res.get('failed') or 'table' not in res:
            rec.c('dict_fresh_process_not_completed')
            if res.get('viol'):
                for v in res['viol']:
                    rec.violation(v['mech'], '(forked child) ' + v['msg'], v.get('witness'))
        else:
            rec.ev()
            rec.c('dict_fresh_process_compared')
            compare('forked-child (fresh entropy)', res, res['table'], res['sim'], res['ll'])
    rec.sample({'kind': 'formula dictionary', 'layout': layout, 'type_class': cls, 'formulas': forms, 'R': R, 'rows': N,
                'seed': seed, 'simulate_first': {k: v.tolist() for k, v in a['sim'].items()}, 'likelihood_first': a['ll']})


def _draw_leaves(ast):
    out = []

    def walk(n):
        if isinstance(n, list):
            if n and n[0] == 'draws':
                out.append((n[1], n[2]))
                return
            for y in n:
                walk(y)

    walk(ast)
    return out


def _subst_type(ast, name, typ):
    if isinstance(ast, list):
        if ast and ast[0] == 'draws' and ast[1] == name:
            return ['draws', name, typ]
        return [_subst_type(y, name, typ) for y in ast]
    return ast


# ---------------------------------------------------------------------------


def run_case(case):
    rec = Rec(case)
    kind = case['kind']
    {
        'mc': _run_mc, 'int': _run_int, 'der': _run_der, 'seeds': _run_seeds, 'closed': _run_closed,
        'reserved': _run_reserved, 'sametype': _run_sametype, 'derive_linutil': _run_derive_linutil,
        'hist': _run_hist, 'dict': _run_dict, 'reuse': _run_reuse, 'stale_function': _run_stale_function,
    }[kind](case, rec)
    return rec.out()


def extra(seed, tier, workdir):
    """thorough: a slice of the same workload on the ASan/UBSan build of the pinned engine (the draw table,
    the draw / random-variable / literal indices written by the Python side are what the engine dereferences).
    Only when that build is already there (made by setup.sh / C01); its absence is reported in the counters,
    the behavioural monitors above decide the property."""
    from . import _sanitizer

    if tier != 'thorough':
        return []
    if not _sanitizer.available('asan'):
        return [{'n': 0, 'keys': [], 'viol': [], 'cov': {'asan_build_not_available_subcheck_skipped': 1}, 'samples': [],
                 'inconclusive': []}]
    cs = [{'kind': 'mc', 'seed': seed + 1000, 'i': i, 'tier': 'quick'} for i in range(260)]
    cs += [{'kind': 'int', 'seed': seed + 1000, 'i': i, 'tier': 'quick'} for i in range(60)]
    cs += [{'kind': 'der', 'seed': seed + 1000, 'i': i, 'tier': 'quick'} for i in range(80)]
    cs += [{'kind': 'sametype', 'seed': 0, 'i': 0, 'tier': 'quick'}]
    return _sanitizer.run_under_asan('C10', 'biomon.checks.c10', cs, workdir, tier)


def finalize(cov, tier):
    from ..gen import c10_gen as gen

    out = []
    need = ['mc_compared', 'mc_decoded_compared', 'mc_aggregated_compared', 'bg_likelihood_compared', 'bg_simulate_compared',
            'bg_two_formulas_sharing_draws', 'bg_decoded_compared', 'drawid_checked', 'generate_draws_calls_checked',
            'mc_native_and_user_in_one_formula', 'mc_appearance_order_differs_from_alphabetical',
            'mc_directed_square', 'mc_mode_top', 'mc_mode_nested', 'mc_mode_two',
            'seeds_pairs_compared', 'seeds_likelihood_compared', 'int_compared', 'int_decoded_compared',
            'int_closed_form_compared', 'bg_integrate_likelihood_compared', 'int_mode_plain', 'int_mode_nested',
            'int_mode_two', 'int_mode_two_same_rv', 'der_compared', 'der_decoded_compared', 'der_target_free',
            'der_target_fixed', 'der_target_var', 'der_nonzero_derivative', 'der_engine_central_difference_compared',
            'bg_derive_likelihood_compared', 'reserved_names_checked', 'user_generators_both_formats',
            'sametype_checked', 'directed_derive_linutil', 'hist_evaluations_compared',
            'hist_evaluations_after_reregistration_of_same_type', 'hist_eval_value', 'hist_eval_likelihood',
            'hist_eval_simulate', 'hist_reg_same', 'hist_reg_disjoint', 'hist_reg_mix', 'hist_reg_empty',
            'hist_reg_identical', 'hist_reg_refused_then_valid', 'hist_number_of_draws_changed',
            'hist_stale_type_evaluations', 'hist_directed_reregister', 'reuse_groups_compared',
            'reuse_level_simulate', 'reuse_level_likelihood', 'reuse_level_value', 'reuse_level_function',
            'reuse_unseeded_evaluation_first', 'reuse_other_model_in_between', 'reuse_evaluations_value_checked',
            'reuse_first_object_reevaluated', 'reuse_directed_same_request', 'stale_function_checked',
            'dict_groups_compared', 'dict_layout_sim_only', 'dict_layout_loglike_plain', 'dict_layout_loglike_draws',
            'dict_layout_weight', 'dict_types_random', 'dict_types_mlhs_anti', 'dict_types_halton', 'dict_types_user_np',
            'dict_types_mixed', 'dict_fresh_process_compared', 'dict_simulate_columns_value_checked',
            'dict_likelihood_value_checked', 'dict_other_seed_other_draws', 'dict_directed_layout_x_types']
    for k in need:
        if cov.get(k, 0) == 0:
            out.append(f'monitor never evaluated: {k}')
    for R in gen.R_SET[tier]:
        if cov.get(f'mc_R_{R}', 0) == 0:
            out.append(f'number of draws R={R} never compared')
    for K in (1, 2, 3, 4):
        if cov.get(f'mc_K_{K}', 0) == 0:
            out.append(f'{K} draw variables in one formula never compared')
    types_seen = [k for k in cov if k.startswith('type_')]
    cov['distinct_draw_types_compared'] = len(types_seen)
    if len(types_seen) < 20:
        out.append(f'only {len(types_seen)} declared draw types were exercised')
    if cov.get('seeds_other_seed_other_draws', 0) == 0:
        out.append('seed sub-check blind: another seed never changed the draws')
    # fold the per-N counters
    ns = [k for k in cov if k.startswith('mc_N_')]
    cov['distinct_row_counts_compared'] = len(ns)
    for k in ns:
        del cov[k]
    return out
