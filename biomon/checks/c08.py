"""C08 — reported statistics obey their defining formulas.

Workload: seeded synthetic raw estimation outcomes (K 1-8; negative definite,
badly scaled, exactly singular, indefinite and zero Hessians; full / low-rank /
badly scaled BHHH; with and without null likelihood; bootstrap
absent or B in {2,3,10,50,200}; active bounds; names not alphabetical) pushed
through the REAL ``RawResults`` / ``bioResults`` classes with a stub model, real
estimations by the real ``BIOGEME.estimate`` (logit, panel, bounds,
unidentified constant, bootstrap) observed at the ``RawResults`` /
``bioResults`` constructor boundary, and groups of models pushed through
``compile_estimation_results`` and the likelihood-ratio test.

Oracle (biomon/oracle/c08_stats.py): exact rational pseudo-inverse / sandwich /
sample covariance, erfc for the normal tail, own chi-square CDF. Monitors:
(1) matrix level, from the raw outcome; (2) stage level, each reported figure
against its defining formula applied to the reported quantity one stage
upstream (s.e. <- diagonal, t <- s.e., p <- t, correlation <- covariance,
pairwise test <- covariance); (3) view level, every cell of every tabular /
textual view against the quantity its label names.
"""
from __future__ import annotations

import copy
import math
import os
import re

import numpy as np

from .. import env
from ..rec import Rec, close, stable_hash

LEVEL = 'exploration'
RULE = (
    'cases = seeded synthetic raw outcomes (K in 1..8, Hessian kind in {negative definite, parameters in different '
    'units, diagonal, uniformly tiny scale 1e-3..1e-9, one or two directions of curvature 1e-5..1e-8, attributes in a tiny unit, exactly singular by zero row / duplicated row / integer low rank, indefinite, zero}, BHHH kind in '
    '{PSD full, information-equality-like, PSD low rank, PSD badly scaled}, null LL present/absent, bootstrap absent or '
    'B replications, bounds active or not, shuffled names) through the real RawResults/bioResults; groups of 2-4 such '
    'models through compile_estimation_results (formatted x stderr x ttest x short names) and the LR test; real '
    'estimations by BIOGEME.estimate. A case is non-trivial when bioResults was built (or refused) and at least one '
    'matrix-level comparison against the exact-arithmetic oracle was made; distinct = hash of the raw outcome'
)
ASSUMPTIONS = [
    'float64 entries of Hessian/BHHH/replications are taken as exact rationals; the reference pseudo-inverse, sandwich '
    'and sample covariance are computed in exact rational arithmetic (self-tested each run on the Penrose conditions)',
    'varcov is compared with the exact pseudo-inverse with the normwise tolerance max(1e-9, 200 eps cond) that a float64 '
    'computation can deliver (cond = largest / smallest non-zero singular value of -H; the absolute scale of the curvature plays no '
    'role); the comparison is dropped (counted as ill-conditioned, stage-level formulas still judged) only when that tolerance '
    'exceeds 1e-4 or when a computed singular value beyond the exact rank exceeds 2 eps relative (ambiguous rank)',
    'conventions of the code for undefined quantities (zero standard error, non-positive variance, non-positive '
    'variance of a difference) are not judged; the statement defines nothing for them',
    'normal tail by math.erfc, chi-square CDF by own series/continued fraction (cross-checked against scipy.special)',
]
MIN_DISTINCT = {'quick': 350, 'thorough': 8000}
CASE_TIMEOUT = 180

N_SYN = {'quick': 420, 'thorough': 12000}
N_COMPILE = {'quick': 64, 'thorough': 1000}
N_REAL = {'quick': 28, 'thorough': 240}
DIRECTED = ['bootstrap_pvalue', 'compile_unformatted', 'single_parameter_bootstrap', 'panel_bic', 'transposed_pair',
            'tiny_curvature_one_parameter', 'tiny_unit_two_parameters']

FLOAT_MAX = float(np.finfo(float).max)
EPS = float(np.finfo(float).eps)


def cases(seed, tier):
    out = [{'mode': 'directed', 'which': w} for w in DIRECTED]
    out += [{'mode': 'synthetic', 'seed': seed, 'i': i, 'tier': tier} for i in range(N_SYN[tier])]
    out += [{'mode': 'compile', 'seed': seed, 'i': i, 'tier': tier} for i in range(N_COMPILE[tier])]
    out += [{'mode': 'real', 'seed': seed, 'i': i, 'tier': tier} for i in range(N_REAL[tier])]
    return out


def warmup():
    import biogeme.biogeme  # noqa
    import biogeme.results  # noqa
    import biogeme.database  # noqa
    import biogeme.models  # noqa
    import pandas  # noqa


def selftest():
    from ..oracle import c08_stats

    return c08_stats.selftest()


# ----------------------------------------------------------------------------
# helpers
# ----------------------------------------------------------------------------
def _f(x):
    try:
        return float(x)
    except (TypeError, ValueError):
        return float('nan')


def _same(a, b):
    """view consistency: the same float (or both NaN / both None)"""
    if a is None or b is None:
        return a is None and b is None
    a, b = _f(a), _f(b)
    if math.isnan(a) or math.isnan(b):
        return math.isnan(a) and math.isnan(b)
    return a == b or abs(a - b) <= 1e-15 * abs(b)


def _fmt_match(token, ref, digits=range(1, 16)):
    """the printed token is the reference printed with some number of significant digits"""
    token = token.strip()
    if ref is None:
        return token in ('None', '', '???')
    try:
        r = float(ref)
    except (TypeError, ValueError):
        return token == str(ref)
    if isinstance(ref, (int, np.integer)) and not isinstance(ref, bool) and token == str(int(ref)):
        return True
    for d in digits:
        s = f'{r:.{d}g}'
        if token == s or token == s + '.0':
            return True
        if token.upper() == f'{r:.{d}E}':
            return True
    return False


class Rec8(Rec):
    """Recorder with a per-mechanism cap: the witnesses of a recorded finding must never
    crowd a different mechanism out of the (bounded) list of one case."""

    PER_MECH = 3

    def __init__(self, case=None):
        super().__init__(case)
        self._per_mech = {}

    def violation(self, mech, msg, witness=None):
        n = self._per_mech.get(mech, 0)
        self._per_mech[mech] = n + 1
        self.c('violations_raw')
        if n < self.PER_MECH and len(self.viol) < 200:
            from ..rec import jsonable

            self.viol.append({'mech': mech, 'msg': str(msg)[:1500], 'witness': jsonable(witness)})


class Ctx:
    """one bioResults under observation"""

    def __init__(self, rec, raw, tag):
        self.rec = rec
        self.raw = raw
        self.tag = tag
        self.names = list(raw['names'])
        self.K = len(self.names)
        self.beta = np.array(raw['beta'], dtype=float)

    def viol(self, mech, msg, **kw):
        w = {'raw': _raw_witness(self.raw), 'tag': self.tag}
        w.update(kw)
        self.rec.violation('C08/' + mech, msg, w)

    def guarded(self, label, fn):
        try:
            return True, fn()
        except BaseException as e:  # noqa
            self.viol(f'{label}-raises-{type(e).__name__}', f'{label} raised {type(e).__name__}: {e}')
            return False, None


def _raw_witness(raw):
    return {k: raw.get(k) for k in ('names', 'beta', 'bounds', 'L', 'L0', 'Lnull', 'N', 'nobs', 'H', 'BHHH', 'bootstrap',
                                    'hessian_kind', 'bhhh_kind')}


def _raw_key(raw):
    b = raw.get('bootstrap')
    return stable_hash([raw['names'], raw['beta'], raw['L'], raw.get('L0'), raw.get('Lnull'), raw['N'], raw['H'], raw['BHHH'],
                        None if b is None else [list(np.shape(b)), float(np.sum(b))]])


FAMILIES = {
    'classic': ('stdErr', 'tTest', 'pValue'),
    'robust': ('robust_stdErr', 'robust_tTest', 'robust_pValue'),
    'bootstrap': ('bootstrap_stdErr', 'bootstrap_tTest', 'bootstrap_pValue'),
}


# ----------------------------------------------------------------------------
# level 1: general statistics
# ----------------------------------------------------------------------------
def check_general(cx: Ctx, results):
    from ..oracle import c08_stats as st

    rec, raw = cx.rec, cx.raw
    ok, gs = cx.guarded('get_general_statistics', results.get_general_statistics)
    if not ok:
        return None
    L, L0, Ln, K, N = raw['L'], raw.get('L0'), raw.get('Lnull'), cx.K, raw['N']
    ref = st.general_statistics(L, L0, Ln, K, N)
    ref.update({'K': K, 'N': N, 'nobs': raw.get('nobs'), 'L': L, 'L0': L0, 'Lnull': Ln})
    if raw.get('gradient') is not None:
        ref['gnorm'] = math.sqrt(sum(float(x) ** 2 for x in raw['gradient']))
    if raw.get('bounds') is not None:
        act = 0
        for j, n in enumerate(cx.names):
            lb, ub = raw['bounds'][n]
            if (lb is not None and abs(cx.beta[j] - lb) <= 1e-6) or (ub is not None and abs(cx.beta[j] - ub) <= 1e-6):
                act += 1
        ref['Kfree'] = K - act
    scale = max(abs(L), abs(L0 or 0.0), abs(Ln or 0.0), 1.0)
    seen = set()
    for label, item in gs.items():
        value = item[0]
        q = st.GENERAL_LABELS.get(label)
        if q is None:
            rec.c('general_label_not_interpreted')
            continue
        seen.add(q)
        if ref.get(q) is None:
            if q in ('LR_init', 'rho_init', 'rhobar_init', 'LR_null', 'rho_null', 'rhobar_null', 'L0', 'Lnull') and value is not None:
                cx.viol(f'general-statistic-{q}-reported-without-raw-quantity', f'{label} = {value} but the raw outcome has no such likelihood')
            rec.c('general_undefined_not_judged')
            continue
        rec.ev()
        rec.c('general_statistic_compared')
        rec.c('general_' + q)
        atol = 1e-12 * scale if q in ('LR_init', 'LR_null', 'AIC', 'BIC') else 1e-12
        if value is None or not close(_f(value), ref[q], 1e-9, atol):
            cx.viol(f'general-statistic-{q}-differs', f'{label}: reported {value}, defining formula gives {ref[q]}', label=label)
    need = ['K', 'N', 'L', 'AIC', 'BIC']
    if Ln is not None:
        need += ['Lnull', 'LR_null', 'rho_null', 'rhobar_null']
    if L0 is not None:
        need += ['L0', 'LR_init', 'rho_init', 'rhobar_init']
    if raw.get('nobs') is not None and raw['nobs'] != N:
        need += ['nobs']
        rec.c('panel_like_sample_size_differs_from_observations')
    for q in need:
        if q not in seen:
            cx.viol(f'general-statistic-{q}-missing', f'no row of the general statistics names {q}')
    return gs


# ----------------------------------------------------------------------------
# level 1: matrices, stage formulas
# ----------------------------------------------------------------------------
def _frame_to_array(cx, df, what):
    if list(df.index) != cx.names or list(df.columns) != cx.names:
        cx.viol(f'{what}-labels', f'{what}: index {list(df.index)} columns {list(df.columns)} expected {cx.names}')
        return None
    return df.to_numpy(dtype=float)


def check_matrices(cx: Ctx, results):
    """returns dict family -> reported matrix (float array) or None"""
    from ..oracle import c08_stats as st

    rec, raw = cx.rec, cx.raw
    out = {}
    h = np.array(raw['H'], dtype=float)
    b = np.array(raw['BHHH'], dtype=float)
    # classical
    ok, vdf = cx.guarded('get_var_covar', results.get_var_covar)
    v = _frame_to_array(cx, vdf, 'get_var_covar') if ok else None
    out['classic'] = v
    if v is not None:
        pr = st.pinv_reference(h)
        singular = pr['rank'] < cx.K
        rec.c('hessian_exact_rank_deficient' if singular else 'hessian_exact_full_rank')
        if pr['judged']:
            rec.ev()
            rec.c('varcov_compared_with_exact_pseudo_inverse')
            if singular:
                rec.c('varcov_compared_singular_hessian')
            elif pr['smin'] > 0:
                # regular Hessian: how small is its smallest curvature in ABSOLUTE terms, how large its condition number
                dec = min(0, max(-10, int(math.floor(math.log10(pr['smin'])))))
                rec.c('varcov_compared_regular_min_curvature_1e%+03d' % dec if dec < 0 else 'varcov_compared_regular_min_curvature_ge_1')
                if pr['smin'] <= 1e-5:
                    rec.c('varcov_compared_regular_hessian_with_curvature_below_1e-5')
                    if cx.K == 1:
                        rec.c('varcov_compared_one_parameter_curvature_below_1e-5')
                    if pr['cond'] <= 100:
                        rec.c('varcov_compared_well_conditioned_tiny_scale')
                if pr['cond'] >= 1e6:
                    rec.c('varcov_compared_regular_cond_ge_1e6')
            tol = pr['rtol'] * max(np.abs(pr['ref']).max(), 0.0) + 1e-300
            if not np.all(np.isfinite(v)) or np.abs(v - pr['ref']).max() > tol:
                cx.viol('varcov-differs-from-pseudo-inverse-of-minus-hessian' + ('-singular' if singular else ''),
                        f'max |V - (-H)^+| = {np.abs(v - pr["ref"]).max()} > {tol} (rank {pr["rank"]}/{cx.K}, cond {pr["cond"]:.3g})',
                        reported=v, reference=pr['ref'])
        else:
            rec.c('varcov_not_judged_ill_conditioned')
        if not _arr_same(v, getattr(results.data, 'varCovar', None)):
            cx.viol('get_var_covar-differs-from-data', 'get_var_covar() is not the stored varCovar')
    # robust: V B V with the reported V
    ok, rdf = cx.guarded('get_robust_var_covar', results.get_robust_var_covar)
    r = _frame_to_array(cx, rdf, 'get_robust_var_covar') if ok else None
    out['robust'] = r
    if r is not None and v is not None and np.all(np.isfinite(v)):
        ref, scale = st.sandwich_reference(v, b)
        rec.ev()
        rec.c('robust_varcov_compared')
        tol = 1e-11 * scale + 1e-300
        if not np.all(np.isfinite(r)) or np.any(np.abs(r - ref) > tol):
            cx.viol('robust-varcov-differs-from-V-BHHH-V', f'max |R - V B V| = {np.abs(r - ref).max()} (scale {scale.max()})',
                    reported=r, reference=ref)
    # bootstrap
    boot = raw.get('bootstrap')
    ok, cdf = cx.guarded('get_bootstrap_var_covar', results.get_bootstrap_var_covar)
    if ok and boot is None:
        rec.c('no_bootstrap')
        if cdf is not None:
            cx.viol('bootstrap-varcov-without-replications', 'a bootstrap variance-covariance is reported without replications')
        out['bootstrap'] = None
    elif ok:
        if cdf is None:
            cx.viol('bootstrap-varcov-missing', 'replications given but no bootstrap variance-covariance reported')
            out['bootstrap'] = None
        else:
            c = _frame_to_array(cx, cdf, 'get_bootstrap_var_covar')
            out['bootstrap'] = c
            if c is not None:
                boot = np.array(boot, dtype=float)
                ref, mean = st.sample_covariance(boot)
                s = np.sqrt(np.clip(np.diag(ref), 0, None))
                am = np.abs(mean)
                tol = (1e-9 * np.outer(s, s) + 40 * EPS * (np.outer(am, s) + np.outer(s, am)) + (8 * EPS) ** 2 * np.outer(am, am) + 1e-300)
                rec.ev()
                rec.c('bootstrap_varcov_compared')
                rec.c(f'bootstrap_B_{len(boot)}')
                if not np.all(np.isfinite(c)) or np.any(np.abs(c - ref) > tol):
                    cx.viol('bootstrap-varcov-differs-from-sample-covariance',
                            f'max |C - cov| = {np.abs(c - ref).max()} with B = {len(boot)}', reported=c, reference=ref)
    else:
        out['bootstrap'] = None
    return out


def _arr_same(a, b):
    if b is None:
        return False
    b = np.asarray(b, dtype=float)
    if a.shape != b.shape:
        return False
    return bool(np.all((a == b) | (np.isnan(a) & np.isnan(b))))


def check_betas(cx: Ctx, results, mats):
    """Beta objects: s.e. = sqrt(diag), t = estimate / s.e., p = 2(1 - Phi(|t|)) per family."""
    from ..oracle import c08_stats as st

    rec = cx.rec
    betas = list(results.data.betas)
    if [b.name for b in betas] != cx.names:
        cx.viol('beta-objects-names', f'Beta objects are {[b.name for b in betas]}, parameters are {cx.names}')
        return None
    for j, bo in enumerate(betas):
        rec.ev()
        if not _same(bo.value, cx.beta[j]):
            cx.viol('beta-object-value-differs', f'{bo.name}: value {bo.value} estimate {cx.beta[j]}')
    for fam, (a_se, a_t, a_p) in FAMILIES.items():
        m = mats.get(fam)
        if m is None:
            if fam == 'bootstrap' and cx.raw.get('bootstrap') is None:
                for bo in betas:
                    if getattr(bo, a_se) is not None or getattr(bo, a_p) is not None:
                        cx.viol('bootstrap-statistics-without-replications', f'{bo.name} has bootstrap statistics without replications')
            continue
        for j, bo in enumerate(betas):
            se, t, p = getattr(bo, a_se), getattr(bo, a_t), getattr(bo, a_p)
            if se is None or t is None or p is None:
                cx.viol(f'{fam}-statistics-missing', f'{bo.name}: {a_se}={se} {a_t}={t} {a_p}={p}')
                continue
            se, t, p = _f(se), _f(t), _f(p)
            var = float(m[j, j])
            # standard error
            if math.isfinite(var) and var >= 0:
                rec.ev()
                rec.c(f'{fam}_stderr_compared')
                if not close(se, math.sqrt(var), 1e-12, 0.0):
                    cx.viol(f'{fam}-stderr-differs-from-sqrt-of-diagonal', f'{bo.name}: s.e. {se}, sqrt(variance) {math.sqrt(var)}', index=j)
            else:
                rec.c(f'{fam}_nonpositive_variance_not_judged')
            # t
            if se != 0 and math.isfinite(se) and math.isfinite(cx.beta[j] / se):
                rec.ev()
                rec.c(f'{fam}_t_compared')
                if not close(t, cx.beta[j] / se, 1e-12, 1e-300):
                    cx.viol(f'{fam}-t-differs-from-estimate-over-stderr', f'{bo.name}: t {t}, estimate/s.e. {cx.beta[j] / se}', index=j)
            else:
                rec.c(f'{fam}_zero_stderr_not_judged')
            # p
            if math.isfinite(t):
                pref = st.p_value(t)
                rec.ev()
                rec.c(f'{fam}_p_compared')
                if not (abs(p - pref) <= 1e-9 * pref + 1e-15):
                    mech = f'{fam}-pvalue-differs-from-two-sided-normal-tail-of-t'
                    if fam == 'bootstrap' and bo.robust_tTest is not None:
                        palt = st.p_value(_f(bo.robust_tTest))
                        if abs(p - palt) <= 1e-9 * palt + 1e-15:
                            mech = 'bootstrap-pvalue-computed-from-robust-t'
                    cx.viol(mech, f'{bo.name}: {a_p} = {p} but 2(1-Phi(|{t}|)) = {pref}', index=j)
    return betas


# ----------------------------------------------------------------------------
# level 1/2: tables
# ----------------------------------------------------------------------------
PARAM_COLUMNS = {
    'Value': ('value', None), 'Std err': ('stdErr', 'classic'), 't-test': ('tTest', 'classic'), 'p-value': ('pValue', 'classic'),
    'Rob. Std err': ('robust_stdErr', 'robust'), 'Rob. t-test': ('robust_tTest', 'robust'), 'Rob. p-value': ('robust_pValue', 'robust'),
    'Bootstrap t-test': ('bootstrap_tTest', 'bootstrap'), 'Bootstrap p-value': ('bootstrap_pValue', 'bootstrap'),
}


def _param_column(label, cx):
    """which quantity does this column label name? -> attribute of the Beta object"""
    if label in PARAM_COLUMNS:
        return PARAM_COLUMNS[label][0]
    m = re.fullmatch(r'Bootstrap\[(\d+)\] Std err', label)
    if m:
        boot = cx.raw.get('bootstrap')
        if boot is None or int(m.group(1)) != len(boot):
            cx.viol('bootstrap-column-label-replication-count', f'column {label!r} but {None if boot is None else len(boot)} replications')
        return 'bootstrap_stdErr'
    if label == 'Active bound':
        return '__active__'
    return None


def _active(cx, j):
    b = cx.raw.get('bounds')
    if b is None:
        return None
    lb, ub = b[cx.names[j]]
    return 1.0 if ((lb is not None and abs(cx.beta[j] - lb) <= 1e-6) or (ub is not None and abs(cx.beta[j] - ub) <= 1e-6)) else 0.0


def check_param_table(cx: Ctx, results, betas):
    rec = cx.rec
    tables = {}
    for only_robust in (True, False):
        ok, tab = cx.guarded('get_estimated_parameters', lambda: results.get_estimated_parameters(only_robust=only_robust))
        if not ok:
            continue
        tables[only_robust] = tab
        if list(tab.index) != cx.names:
            cx.viol('estimated-parameters-rows', f'rows {list(tab.index)} parameters {cx.names}')
            continue
        seen = set()
        for col in tab.columns:
            attr = _param_column(col, cx)
            if attr is None:
                rec.c('param_table_column_not_interpreted')
                continue
            seen.add(attr)
            for j, bo in enumerate(betas):
                cell = tab.loc[bo.name, col]
                if attr == '__active__':
                    a = _active(cx, j)
                    if a is None:
                        continue
                    rec.ev()
                    rec.c('active_bound_cells_compared')
                    if _f(cell) != a:
                        cx.viol('estimated-parameters-active-bound-differs', f'{bo.name}: Active bound {cell}, bounds {cx.raw["bounds"][bo.name]} value {cx.beta[j]}')
                    continue
                rec.ev()
                rec.c('param_table_cells_compared')
                if not _same(cell, getattr(bo, attr)):
                    cx.viol('estimated-parameters-cell-is-not-the-quantity-of-its-label',
                            f'row {bo.name} column {col!r} holds {cell}; the {attr} of that parameter is {getattr(bo, attr)}', column=col, only_robust=only_robust)
        need = {'value', 'robust_stdErr', 'robust_tTest', 'robust_pValue'}
        if not only_robust:
            need |= {'stdErr', 'tTest', 'pValue'}
            if cx.raw.get('bootstrap') is not None:
                need |= {'bootstrap_stdErr', 'bootstrap_tTest', 'bootstrap_pValue'}
        if cx.raw.get('bounds') is not None and any(_active(cx, j) for j in range(cx.K)):
            need.add('__active__')
            rec.c('tables_with_active_bound')
        for a in sorted(need - seen):
            cx.viol('estimated-parameters-column-missing', f'no column names {a} (only_robust={only_robust}): {list(tab.columns)}')
    return tables


CORR_COLUMNS = {
    'Covariance': ('classic', 'cov'), 'Correlation': ('classic', 'corr'), 't-test': ('classic', 't'), 'p-value': ('classic', 'p'),
    'Rob. cov.': ('robust', 'cov'), 'Rob. corr.': ('robust', 'corr'), 'Rob. t-test': ('robust', 't'), 'Rob. p-value': ('robust', 'p'),
    'Boot. cov.': ('bootstrap', 'cov'), 'Boot. corr.': ('bootstrap', 'corr'), 'Boot. t-test': ('bootstrap', 't'), 'Boot. p-value': ('bootstrap', 'p'),
}


def check_corr_table(cx: Ctx, results, mats):
    from ..oracle import c08_stats as st

    rec = cx.rec
    ok, tab = cx.guarded('get_correlation_results', results.get_correlation_results)
    if not ok:
        return None
    idx = {n: j for j, n in enumerate(cx.names)}
    pairs = {}
    for label in tab.index:
        parts = str(label).split('-')
        if len(parts) != 2 or parts[0] not in idx or parts[1] not in idx or parts[0] == parts[1]:
            cx.viol('correlation-table-row-label', f'row label {label!r} does not name a pair of parameters')
            continue
        pairs[label] = (idx[parts[0]], idx[parts[1]])
    un = sorted(tuple(sorted(p)) for p in pairs.values())
    exp = sorted((j, i) for i in range(cx.K) for j in range(i))
    if un != exp:
        cx.viol('correlation-table-rows', f'rows {list(tab.index)} do not enumerate each pair of {cx.names} once')
    fams = {f for f, _ in CORR_COLUMNS.values() if mats.get(f) is not None}
    seen = set()
    for col in tab.columns:
        if col not in CORR_COLUMNS:
            rec.c('corr_table_column_not_interpreted')
            continue
        fam, what = CORR_COLUMNS[col]
        m = mats.get(fam)
        if m is None:
            if fam == 'bootstrap' and cx.raw.get('bootstrap') is None:
                cx.viol('bootstrap-statistics-without-replications', f'column {col!r} without replications')
            continue
        seen.add((fam, what))
        d = np.diag(m)
        for label, (x, y) in pairs.items():
            cell = _f(tab.loc[label, col])
            if what == 'cov':
                rec.ev()
                rec.c('pair_cov_compared')
                if not (_same(cell, m[x, y]) or _same(cell, m[y, x])):
                    cx.viol(f'{fam}-pair-covariance-differs', f'{label} {col!r}: {cell}, matrix entry {m[x, y]}')
            elif what == 'corr':
                if np.all(np.isfinite(d)) and np.all(d > 0):
                    ref = m[x, y] / math.sqrt(m[x, x] * m[y, y])
                    rec.ev()
                    rec.c(f'{fam}_correlation_compared')
                    if not close(cell, ref, 1e-10, 1e-13):
                        cx.viol(f'{fam}-correlation-differs-from-normalised-covariance', f'{label}: {cell}, cov/sqrt(var var) = {ref}')
                else:
                    rec.c(f'{fam}_correlation_nonpositive_variance_not_judged')
            elif what == 't':
                r = m[x, x] + m[y, y] - 2.0 * m[x, y]
                if math.isfinite(r) and r > 0:
                    canc = (abs(m[x, x]) + abs(m[y, y]) + 2 * abs(m[x, y])) / r
                    rtol = 1e-10 + 16 * EPS * canc
                    if rtol > 1e-3:
                        rec.c(f'{fam}_pair_t_cancellation_not_judged')
                        continue
                    ref = (cx.beta[x] - cx.beta[y]) / math.sqrt(r)
                    rec.ev()
                    rec.c(f'{fam}_pair_t_compared')
                    if cx.beta[x] != cx.beta[y]:
                        rec.c('pair_t_sign_informative')
                    if not close(cell, ref, rtol, 1e-300):
                        mech = f'{fam}-pair-test-differs'
                        if ref != 0 and close(cell, -ref, rtol, 1e-300):
                            mech = f'{fam}-pair-test-sign-opposite-to-row-label'
                        cx.viol(mech, f'{label}: t {cell}; (b1-b2)/sqrt(v1+v2-2cov) = {ref}')
                else:
                    rec.c(f'{fam}_pair_nonpositive_variance_not_judged')
            elif what == 'p':
                tcol = [c for c, v in CORR_COLUMNS.items() if v == (fam, 't')][0]
                if tcol in tab.columns:
                    t = _f(tab.loc[label, tcol])
                    if math.isfinite(t):
                        pref = st.p_value(t)
                        rec.ev()
                        rec.c(f'{fam}_pair_p_compared')
                        if not (abs(cell - pref) <= 1e-9 * pref + 1e-15):
                            cx.viol(f'{fam}-pair-pvalue-differs', f'{label}: p {cell}; 2(1-Phi(|{t}|)) = {pref}')
    if cx.K >= 2:
        for fam in fams:
            for what in ('cov', 'corr', 't', 'p'):
                if (fam, what) not in seen:
                    cx.viol('correlation-table-column-missing', f'no column for {fam} {what}: {list(tab.columns)}')
    # subset view
    if cx.K >= 3:
        sub = cx.names[::2]
        ok, ts = cx.guarded('get_correlation_results-subset', lambda: results.get_correlation_results(subset=sub))
        if ok:
            want = [l for l, (x, y) in pairs.items() if cx.names[x] in sub and cx.names[y] in sub]
            rec.ev()
            rec.c('corr_subset_compared')
            if sorted(ts.index) != sorted(want):
                cx.viol('correlation-subset-rows', f'subset {sub}: rows {list(ts.index)} expected {want}')
            else:
                for l in want:
                    for col in ts.columns:
                        if not _same(ts.loc[l, col], tab.loc[l, col]):
                            cx.viol('correlation-subset-cell-differs', f'{l} {col!r}: {ts.loc[l, col]} vs {tab.loc[l, col]}')
    return tab


# ----------------------------------------------------------------------------
# level 2: textual reports
# ----------------------------------------------------------------------------
def check_text_reports(cx: Ctx, results, gs, betas, ptables, ctab, html_text=None, html_only_robust=None):
    rec = cx.rec
    # print_general_statistics
    ok, txt = cx.guarded('print_general_statistics', results.print_general_statistics)
    if ok and gs is not None:
        rows = dict(line.split(':\t', 1) for line in txt.splitlines() if ':\t' in line)
        for label, item in gs.items():
            if label not in rows:
                cx.viol('printed-general-statistics-row-missing', f'{label} not printed')
                continue
            rec.ev()
            rec.c('printed_general_statistics_compared')
            if not _fmt_match(rows[label], item[0]) and rows[label] != f'{item[0]:{item[1]}}':
                cx.viol('printed-general-statistics-differs', f'{label}: printed {rows[label]!r}, value {item[0]}')
    # HTML
    variant = int(cx.raw.get('_variant', 0))
    # the variants of each textual report alternate over the cases (they are slow: pandas row appends)
    for only_robust in (((True,) if variant % 3 == 0 else (False,)) if html_text is None else (html_only_robust,)):
        if html_text is None:
            ok, html = cx.guarded('get_html', lambda: results.get_html(only_robust=only_robust))
            if not ok:
                continue
        else:
            html = html_text
        rec.c('html_reports_parsed')
        if gs is not None:
            rows = dict(re.findall(r'<strong>(.*?)</strong>: </td> <td>(.*?)</td>', html))
            for label, item in gs.items():
                if item[0] is None:
                    continue
                if label not in rows:
                    cx.viol('html-general-statistics-row-missing', f'{label} not in the HTML report')
                    continue
                if isinstance(item[0], (int, float, np.integer, np.floating)):
                    rec.ev()
                    rec.c('html_general_statistics_compared')
                    if not _fmt_match(rows[label], item[0]):
                        cx.viol('html-general-statistics-differs', f'{label}: HTML {rows[label]!r}, value {item[0]}')
        m = re.search(r'<h1>Estimated parameters</h1>\s*<table[^>]*>(.*?)</table>', html, re.S)
        if not m:
            cx.viol('html-parameter-table-missing', 'no parameter table in the HTML report')
        else:
            trs = re.findall(r'<tr[^>]*>(.*?)</tr>', m.group(1), re.S)
            head = re.findall(r'<th>(.*?)</th>', trs[0]) if trs else []
            body = [re.findall(r'<td>(.*?)</td>', tr) for tr in trs[1:]]
            if [r[0] for r in body if r] != cx.names:
                cx.viol('html-parameter-table-rows', f'rows {[r[0] for r in body if r]} parameters {cx.names}')
            elif betas is not None:
                for j, row in enumerate(body):
                    for col, tok in zip(head[1:], row[1:]):
                        attr = _param_column(col, cx)
                        if attr is None:
                            continue
                        ref = _active(cx, j) if attr == '__active__' else getattr(betas[j], attr)
                        if ref is None:
                            continue
                        rec.ev()
                        rec.c('html_parameter_cells_compared')
                        if not _fmt_match(tok, ref, digits=(3,)):
                            cx.viol('html-parameter-cell-is-not-the-quantity-of-its-label', f'{cx.names[j]} {col!r}: HTML {tok!r}, {attr} = {ref}', only_robust=only_robust)
        m = re.search(r'<h2>Correlation of coefficients</h2>\s*<table[^>]*>(.*?)</table>', html, re.S)
        if m and ctab is not None:
            trs = re.findall(r'<tr[^>]*>(.*?)</tr>', m.group(1), re.S)
            head = re.findall(r'<th>(.*?)</th>', trs[0]) if trs else []
            for tr in trs[1:]:
                row = re.findall(r'<td>(.*?)</td>', tr)
                label = f'{row[0]}-{row[1]}'
                if label not in ctab.index:
                    cx.viol('html-correlation-row-label', f'HTML correlation row {label!r} not a row of the correlation table')
                    continue
                for col, tok in zip(head[2:], row[2:]):
                    if col in ctab.columns:
                        rec.ev()
                        rec.c('html_correlation_cells_compared')
                        if not _fmt_match(tok, ctab.loc[label, col], digits=(3,)):
                            cx.viol('html-correlation-cell-differs', f'{label} {col!r}: HTML {tok!r}, table {ctab.loc[label, col]}')
    # LaTeX parameter table
    ok, tex = (False, None) if variant % 2 else cx.guarded('get_latex', lambda: results.get_latex(only_robust=False))
    if ok and betas is not None:
        m = re.search(r'\\section\{Parameter estimates\}\s*\\begin\{tabular\}\{[^}]*\}(.*?)\\end\{tabular\}', tex, re.S)
        if m:
            lines = [l.strip() for l in m.group(1).strip().splitlines() if '&' in l]
            head = [c.strip() for c in lines[0].rstrip('\\').split('&')]
            body = [[c.strip() for c in l.rstrip('\\').split('&')] for l in lines[1:]]
            body = [r for r in body if r and r[0]]
            if [r[0] for r in body] == cx.names:
                rec.c('latex_reports_parsed')
                for j, row in enumerate(body):
                    for col, tok in zip(head[1:], row[1:]):
                        attr = _param_column(col, cx)
                        if attr is None:
                            continue
                        ref = _active(cx, j) if attr == '__active__' else getattr(betas[j], attr)
                        if ref is None:
                            continue
                        rec.ev()
                        rec.c('latex_parameter_cells_compared')
                        if not _fmt_match(tok, ref, digits=(3,)):
                            cx.viol('latex-parameter-cell-is-not-the-quantity-of-its-label', f'{cx.names[j]} {col!r}: LaTeX {tok!r}, {attr} = {ref}')
            else:
                rec.c('latex_table_not_parsed')
    # F12
    for robust in ((True,) if variant % 2 else (False,)):
        ok, f12 = cx.guarded('get_f12', lambda: results.get_f12(robust_std_err=robust))
        if not ok or betas is None:
            continue
        lines = f12.split('\n')
        rec.c('f12_reports_parsed')
        for j, bo in enumerate(betas):
            toks = lines[3 + j].split()
            if len(toks) != 5 or toks[1] != bo.name[:10]:
                cx.viol('f12-coefficient-line', f'line {lines[3 + j]!r} does not describe {bo.name}')
                continue
            se = bo.robust_stdErr if robust else bo.stdErr
            rec.ev(2)
            rec.c('f12_cells_compared', 2)
            if not close(_f(toks[3]), _f(bo.value), 1e-11, 1e-300):
                cx.viol('f12-value-differs', f'{bo.name}: F12 {toks[3]} value {bo.value}')
            if se is not None and not close(_f(toks[4]), _f(se), 1e-11, 1e-300):
                cx.viol('f12-stderr-differs', f'{bo.name}: F12 {toks[4]} {"robust " if robust else ""}s.e. {se}', robust=robust)
        if len(lines) > 4 + cx.K:
            toks = lines[4 + cx.K].split()
            if len(toks) == 4:
                rec.ev(2)
                if int(toks[0]) != cx.raw['N']:
                    cx.viol('f12-sample-size-differs', f'F12 {toks[0]} N {cx.raw["N"]}')
                if not close(_f(toks[3]), cx.raw['L'], 1e-11, 0):
                    cx.viol('f12-final-loglikelihood-differs', f'F12 {toks[3]} L {cx.raw["L"]}')
                if cx.raw.get('Lnull') is not None and not close(_f(toks[2]), cx.raw['Lnull'], 1e-11, 0):
                    cx.viol('f12-null-loglikelihood-differs', f'F12 {toks[2]} null L {cx.raw["Lnull"]}')


# ----------------------------------------------------------------------------
# one model, everything
# ----------------------------------------------------------------------------
def verify(rec, results, raw, tag, full=True, html_text=None, html_only_robust=None):
    cx = Ctx(rec, raw, tag)
    rec.c(f'K_{cx.K}')
    rec.c('null_present' if raw.get('Lnull') is not None else 'null_absent')
    gs = check_general(cx, results)
    mats = check_matrices(cx, results)
    betas = check_betas(cx, results, mats)
    if mats.get('classic') is not None:
        rec.key(_raw_key(raw))
    if betas is None:
        return cx, gs, None
    ptables = check_param_table(cx, results, betas)
    ctab = check_corr_table(cx, results, mats)
    if full:
        check_text_reports(cx, results, gs, betas, ptables, ctab, html_text, html_only_robust)
    return cx, gs, betas


def build_and_verify(rec, raw, tag, full=True):
    """returns (results or None, gs, betas)"""
    from ..gen import c08_raw

    try:
        results = c08_raw.build_results(raw)
    except BaseException as e:  # noqa
        shape = ''
        if len(raw['names']) == 1 and raw.get('bootstrap') is not None:
            shape = '-single-parameter-bootstrap'
        rec.key(_raw_key(raw))
        rec.ev()
        rec.violation(f'C08/bioresults-construction-raises-{type(e).__name__}{shape}',
                      f'bioResults(RawResults(...)) raised {type(e).__name__}: {e}', {'raw': _raw_witness(raw), 'tag': tag})
        return None, None, None
    rec.c('bioresults_built')
    rec.c('hessian_kind_' + str(raw.get('hessian_kind')))
    rec.c('bhhh_kind_' + str(raw.get('bhhh_kind')))
    _, gs, betas = verify(rec, results, raw, tag, full=full)
    return results, gs, betas


# ----------------------------------------------------------------------------
# several models: compiled table, likelihood-ratio test
# ----------------------------------------------------------------------------
def _parse_row_label(label, all_names):
    """'<name> (std) (t-test)' -> (name, [tags]) or None"""
    tags = []
    s = str(label)
    while True:
        m = re.fullmatch(r'(.*) \((std|t-test|ttest)\)', s)
        if not m:
            break
        s = m.group(1)
        tags.insert(0, 'std' if m.group(2) == 'std' else 'ttest')
    if s in all_names:
        return s, tags
    return None


def check_compile(rec, models, options, witness):
    """models: list of (key, results_or_picklename, results, raw, gs, betas)"""
    import biogeme.results as res
    from ..oracle import c08_stats as st

    def viol(mech, msg, **kw):
        w = dict(witness)
        w.update(kw)
        w['options'] = options
        rec.violation('C08/' + mech, msg, w)

    stats_labels = options['statistics']
    arg = {k: obj for k, obj, *_ in models}
    kwargs = dict(include_robust_stderr=options['stderr'], include_robust_ttest=options['ttest'], formatted=options['formatted'],
                  use_short_names=options['short'])
    if stats_labels is not None:
        kwargs['statistics'] = tuple(stats_labels)
    try:
        df, conf = res.compile_estimation_results(arg, **kwargs)
    except BaseException as e:  # noqa
        viol(f'compile_estimation_results-raises-{type(e).__name__}', f'{type(e).__name__}: {e}')
        return
    mode = ('formatted' if options['formatted'] else 'unformatted')
    rec.c(f'compile_{mode}_stderr{int(options["stderr"])}_ttest{int(options["ttest"])}')
    if options['short']:
        rec.c('compile_short_names')
    # columns <-> models
    col_of = {}
    inv = {v: k for k, v in conf.items()}
    for key, *_ in models:
        col = inv.get(key) if options['short'] else key
        if col is None or col not in df.columns:
            viol('compile-column-missing', f'no column for model {key!r}: columns {list(df.columns)} configurations {conf}')
            return
        col_of[key] = col
    if len(set(col_of.values())) != len(models):
        viol('compile-columns-not-distinct', f'{col_of}')
        return
    used_stats = stats_labels if stats_labels is not None else ['Number of estimated parameters', 'Sample size', 'Final log likelihood',
                                                               'Akaike Information Criterion', 'Bayesian Information Criterion']
    all_names = set()
    for _, _, _, raw, _, _ in models:
        all_names |= set(raw['names'])
    for key, _, results, raw, gs, betas in models:
        col = col_of[key]
        for s in used_stats:
            if s not in df.index:
                viol('compile-statistic-row-missing', f'{s!r} not a row')
                continue
            rec.ev()
            rec.c('compile_statistic_cells_compared')
            if not _same(df.loc[s, col], gs[s][0]):
                viol('compile-statistic-cell-is-not-the-quantity-of-its-label', f'model {key!r} row {s!r}: {df.loc[s, col]!r}; that statistic of that model is {gs[s][0]}')
        bmap = {b.name: b for b in betas}
        conveyed = {n: set() for n in bmap}
        for label in df.index:
            if label in used_stats:
                continue
            pl = _parse_row_label(label, all_names)
            if pl is None:
                rec.c('compile_row_label_not_interpreted')
                continue
            name, tags = pl
            cell = df.loc[label, col]
            if name not in bmap:
                if not (isinstance(cell, str) and cell == ''):
                    viol('compile-cell-for-absent-parameter', f'model {key!r} has no parameter {name} but row {label!r} holds {cell!r}')
                continue
            b = bmap[name]
            if isinstance(cell, str) and cell == '':
                continue
            if options['formatted']:
                toks = str(cell).split()
                nums = [toks[0]] if toks else []
                par = [t[1:-1] for t in toks[1:] if t.startswith('(') and t.endswith(')')]
                if len(toks) != 1 + len(tags) or len(par) != len(tags):
                    viol('compile-formatted-cell-shape', f'row {label!r} cell {cell!r}: {len(tags)} bracketed figures expected')
                    continue
                quantities = [('value', b.value)] + [('std', b.robust_stdErr) if t == 'std' else ('ttest', b.robust_tTest) for t in tags]
                for (q, ref), tok in zip(quantities, nums + par):
                    rec.ev()
                    rec.c('compile_formatted_figures_compared')
                    conveyed[name].add(q)
                    if not _fmt_match(tok, ref, digits=(3,)):
                        viol(f'compile-formatted-{q}-figure-is-not-the-quantity-of-its-label',
                             f'model {key!r} row {label!r} cell {cell!r}: figure {tok!r} should be the {q} {ref} ({ref:.3g})')
            else:
                if len(tags) > 1:
                    rec.c('compile_row_label_not_interpreted')
                    continue
                q = tags[0] if tags else 'value'
                ref = {'value': b.value, 'std': b.robust_stdErr, 'ttest': b.robust_tTest}[q]
                rec.ev()
                rec.c('compile_unformatted_cells_compared')
                conveyed[name].add(q)
                if not _same(cell, ref):
                    if q != 'value' and _same(cell, b.value):
                        mech = f'compile-unformatted-{q}-row-holds-the-estimate'
                    else:
                        mech = f'compile-unformatted-{q}-row-is-not-the-quantity-of-its-label'
                    viol(mech, f'model {key!r} row {label!r} holds {cell!r}; the robust {q} of {name} is {ref}')
        want = {'value'} | ({'std'} if options['stderr'] else set()) | ({'ttest'} if options['ttest'] else set())
        for n, got in conveyed.items():
            if want - got:
                viol('compile-quantity-missing', f'model {key!r} parameter {n}: {sorted(want - got)} not in the table')


def check_lr(rec, models, witness, alpha):
    from biogeme.exceptions import BiogemeError
    from biogeme.tools.likelihood_ratio import likelihood_ratio_test
    from ..oracle import c08_stats as st

    for a in range(len(models)):
        for bidx in range(len(models)):
            if a == bidx:
                continue
            ra, rb = models[a][3], models[bidx][3]
            ka, kb = len(ra['names']), len(rb['names'])
            la, lb = ra['L'], rb['L']
            if ka == kb or la == lb:
                rec.c('lr_same_K_or_same_L_not_judged')
                continue
            (lu, ku), (lr_, kr) = ((la, ka), (lb, kb)) if ka > kb else ((lb, kb), (la, ka))
            for route in ('method', 'function'):
                try:
                    if route == 'method':
                        out = models[a][2].likelihood_ratio_test(models[bidx][2], alpha)
                    else:
                        out = likelihood_ratio_test((la, ka), (lb, kb), alpha)
                except BiogemeError:
                    if lu > lr_:
                        rec.violation('C08/lr-test-refuses-valid-pair', f'unrestricted ({lu},{ku}) restricted ({lr_},{kr}) refused', witness)
                    else:
                        rec.c('lr_refused_unrestricted_lower_likelihood')
                    continue
                except BaseException as e:  # noqa
                    rec.violation(f'C08/lr-test-raises-{type(e).__name__}', f'{e}', witness)
                    continue
                if lu < lr_:
                    rec.c('lr_accepted_unrestricted_lower_likelihood_not_judged')
                    continue
                stat_ref = -2.0 * (lr_ - lu)
                rec.ev(3)
                rec.c('lr_tests_compared')
                w = dict(witness)
                w.update({'unrestricted': [lu, ku], 'restricted': [lr_, kr], 'alpha': alpha, 'reported': list(out), 'route': route})
                if not close(out.statistic, stat_ref, 1e-12, 0):
                    rec.violation('C08/lr-statistic-differs', f'statistic {out.statistic}, -2(L_R - L_U) = {stat_ref}', w)
                thr = _f(out.threshold)
                if not (thr > 0 and abs(st.chi2_cdf(thr, ku - kr) - (1 - alpha)) <= 1e-9):
                    rec.violation('C08/lr-threshold-is-not-the-chi-square-quantile',
                                  f'threshold {thr}: P(chi2_{ku - kr} <= threshold) = {st.chi2_cdf(thr, ku - kr) if thr > 0 else None}, expected {1 - alpha}', w)
                elif abs(stat_ref - thr) > 1e-9 * thr:
                    rejected = stat_ref > thr
                    rec.c('lr_rejected' if rejected else 'lr_not_rejected')
                    says_cannot = 'cannot' in out.message
                    if rejected == says_cannot:
                        rec.violation('C08/lr-message-contradicts-statistic', f'{out.message!r} with statistic {stat_ref} threshold {thr}', w)


# ----------------------------------------------------------------------------
# case runners
# ----------------------------------------------------------------------------
def _run_synthetic(rec, case):
    from ..gen import c08_raw

    raw = c08_raw.make_raw(case['seed'], case['i'], case.get('tier', 'quick'))
    raw['_variant'] = case['i']
    results, gs, betas = build_and_verify(rec, raw, 'synthetic')
    if results is not None:
        rec.sample({'names': raw['names'], 'beta': raw['beta'], 'L': raw['L'], 'L0': raw['L0'], 'Lnull': raw['Lnull'], 'N': raw['N'],
                    'hessian_kind': raw['hessian_kind'], 'H': raw['H'], 'B': None if raw['bootstrap'] is None else len(raw['bootstrap'])})


def _compile_group(rec, raws, tag, rr, pickle_one=False, all_options=True):
    models = []
    for n, raw in enumerate(raws):
        results, gs, betas = build_and_verify(rec, raw, tag, full=False)
        if results is None or gs is None or betas is None:
            return
        models.append([f'model {n} / {raw["model_name"]}', results, results, raw, gs, betas])
    witness = {'raws': [_raw_witness(r) for r in raws], 'tag': tag}
    if pickle_one:
        # one model is handed over as the name of its pickle file
        try:
            fn = models[-1][2].write_pickle()
            models[-1][1] = fn
            rec.c('compile_from_pickle_file')
        except BaseException as e:  # noqa
            rec.violation(f'C08/write_pickle-raises-{type(e).__name__}', str(e), witness)
    have_null = all(r.get('Lnull') is not None for r in raws)
    have_init = all(r.get('L0') is not None for r in raws)
    pool = ['Number of estimated parameters', 'Sample size', 'Final log likelihood', 'Akaike Information Criterion',
            'Bayesian Information Criterion']
    if have_init:
        pool += ['Init log likelihood', 'Likelihood ratio test for the init. model', 'Rho-square for the init. model', 'Rho-square-bar for the init. model']
    if have_null:
        pool += ['Null log likelihood', 'Likelihood ratio test for the null model', 'Rho-square for the null model', 'Rho-square-bar for the null model']
    k = 0
    for formatted in (True, False):
        for stderr in (False, True):
            for ttest in (False, True):
                k += 1
                stats = None if rr.random() < 0.4 else rr.sample(pool, rr.randint(1, len(pool)))
                options = {'formatted': formatted, 'stderr': stderr, 'ttest': ttest, 'short': (k + rr.randint(0, 1)) % 2 == 0, 'statistics': stats}
                check_compile(rec, [tuple(m) for m in models], options, witness)
    check_lr(rec, [tuple(m) for m in models], witness, rr.choice([0.01, 0.05, 0.05, 0.1, 0.2]))


def _run_compile(rec, case):
    import random
    from ..gen import c08_raw

    rr = random.Random(f'c08-compile-{case["seed"]}-{case["i"]}')
    m = rr.randint(2, 4)
    pool = rr.sample(c08_raw.NAME_POOL, rr.randint(3, 7))
    base_l = -(10 ** rr.uniform(1, 4))
    raws = []
    for n in range(m):
        k = rr.randint(1, min(6, len(pool)))
        force = {'K': k, 'pool': pool, 'L': base_l + rr.uniform(-1, 1) * rr.choice([0.5, 3.0, 10.0, 60.0]) if n else base_l}
        raw = c08_raw.make_raw(case['seed'] + 7919, case['i'] * 8 + n, case.get('tier', 'quick'), force=force)
        raws.append(raw)
    _compile_group(rec, raws, 'compile', rr, pickle_one=(case['i'] % 4 == 0))


def _run_real(rec, case):
    import random
    import biogeme.results as res
    from ..gen import c08_raw

    spec = c08_raw.make_real(case['seed'], case['i'])
    rr = random.Random(f'c08-realopts-{case["seed"]}-{case["i"]}')
    outputs = case['i'] % 2 == 0
    bg, av, n_ind, n_rows = c08_raw.build_real(spec, outputs)
    captured = {}
    orig_raw_init = res.RawResults.__init__

    def raw_init(self, the_model, beta_values, f_g_h_b, bootstrap=None):
        # boundary observation: what the estimation hands over as raw outcome
        captured['raw'] = {
            'names': list(the_model.id_manager.free_betas.names), 'beta': np.array(beta_values, dtype=float).copy(),
            'L': float(f_g_h_b.function), 'L0': None if the_model.initLogLike is None else float(the_model.initLogLike),
            'Lnull': None if the_model.nullLogLike is None else float(the_model.nullLogLike),
            'H': np.array(f_g_h_b.hessian, dtype=float).copy(), 'BHHH': np.array(f_g_h_b.bhhh, dtype=float).copy(),
            'gradient': np.array(f_g_h_b.gradient, dtype=float).copy(),
            'bootstrap': None if bootstrap is None else np.array(bootstrap, dtype=float).copy(),
        }
        return orig_raw_init(self, the_model, beta_values, f_g_h_b, bootstrap=bootstrap)

    res.RawResults.__init__ = raw_init
    try:
        try:
            if spec['null']:
                bg.calculate_null_loglikelihood(av)
            results = bg.estimate(run_bootstrap=spec['bootstrap'] > 0)
        finally:
            res.RawResults.__init__ = orig_raw_init
    except BaseException as e:  # noqa
        raw = captured.get('raw')
        if raw is not None:
            # the estimation was complete; building the report failed
            shape = '-single-parameter-bootstrap' if len(raw['names']) == 1 and raw['bootstrap'] is not None else ''
            rec.ev()
            rec.key(_raw_key(dict(raw, N=n_ind)))
            rec.c('real_estimations_run')
            rec.c('real_kind_' + spec['kind'])
            rec.violation(f'C08/bioresults-construction-raises-{type(e).__name__}{shape}',
                          f'estimate(): report construction raised {type(e).__name__}: {e}', {'spec': spec, 'raw': _raw_witness(dict(raw, N=n_ind, nobs=n_rows))})
        else:
            # the optimisation itself failed: no report to judge (C07's subject); tolerated up to 10 % (finalize)
            rec.c('real_estimation_failed_before_results')
            rec.c(f'real_estimation_failed_{type(e).__name__}')
        return
    raw = captured.get('raw')
    if raw is None:
        rec.inconc('RawResults constructor not observed during estimate()')
        return
    raw.update({'N': n_ind, 'nobs': n_rows, 'K': len(raw['names']), 'hessian_kind': 'real_' + spec['kind'], 'bhhh_kind': 'real',
                'model_name': spec['model_name'], '_variant': case['i'],
                'bounds': {n: [(-0.2 if (n == 'B_COST' and spec['kind'] == 'mnl_bounds') else None), None] for n in raw['names']}})
    rec.c('real_estimations_run')
    rec.c('real_kind_' + spec['kind'])
    if raw['bootstrap'] is not None:
        rec.c('real_with_bootstrap')
    html_text = None
    if outputs:
        fn = results.data.htmlFileName
        if fn and os.path.exists(fn):
            with open(fn, encoding='utf-8') as f:
                html_text = f.read()
            rec.c('html_files_written_by_estimate_parsed')
    cx, gs, betas = verify(rec, results, raw, 'real', full=True)
    if html_text is not None and betas is not None:
        # the report file written by estimate() itself (only_robust_stats default: True)
        ctab = results.get_correlation_results()
        cx2 = Ctx(rec, raw, 'real-html-file')
        _check_html_only(cx2, results, gs, betas, ctab, html_text)
    rec.sample({'spec': spec, 'names': raw['names'], 'beta': raw['beta'], 'N': n_ind, 'rows': n_rows})
    # pickle round trip: a bioResults rebuilt from the file reports the same figures
    if outputs and results.data.pickleFileName and os.path.exists(results.data.pickleFileName) and betas is not None:
        try:
            r2 = res.bioResults(pickle_file=results.data.pickleFileName)
        except BaseException as e:  # noqa
            rec.violation(f'C08/bioresults-from-pickle-raises-{type(e).__name__}', str(e), {'spec': spec})
            return
        rec.c('results_rebuilt_from_pickle')
        verify(rec, r2, raw, 'real-from-pickle', full=False)


def _check_html_only(cx, results, gs, betas, ctab, html_text):
    """parse a given HTML text with the HTML part of check_text_reports"""
    rec = cx.rec
    html = html_text
    m = re.search(r'<h1>Estimated parameters</h1>\s*<table[^>]*>(.*?)</table>', html, re.S)
    if not m:
        cx.viol('html-parameter-table-missing', 'no parameter table in the HTML file written by estimate()')
        return
    trs = re.findall(r'<tr[^>]*>(.*?)</tr>', m.group(1), re.S)
    head = re.findall(r'<th>(.*?)</th>', trs[0]) if trs else []
    body = [re.findall(r'<td>(.*?)</td>', tr) for tr in trs[1:]]
    if [r[0] for r in body if r] != cx.names:
        cx.viol('html-parameter-table-rows', f'rows {[r[0] for r in body if r]} parameters {cx.names}')
        return
    for j, row in enumerate(body):
        for col, tok in zip(head[1:], row[1:]):
            attr = _param_column(col, cx)
            if attr is None or attr == '__active__':
                continue
            ref = getattr(betas[j], attr)
            if ref is None:
                continue
            rec.ev()
            rec.c('html_file_parameter_cells_compared')
            if not _fmt_match(tok, ref, digits=(3,)):
                cx.viol('html-parameter-cell-is-not-the-quantity-of-its-label', f'{cx.names[j]} {col!r}: HTML file {tok!r}, {attr} = {ref}')
    rows = dict(re.findall(r'<strong>(.*?)</strong>: </td> <td>(.*?)</td>', html))
    for label, item in (gs or {}).items():
        if isinstance(item[0], (int, float, np.integer, np.floating)) and label in rows:
            rec.ev()
            if not _fmt_match(rows[label], item[0]):
                cx.viol('html-general-statistics-differs', f'{label}: HTML file {rows[label]!r}, value {item[0]}')


def _directed_raw(which):
    """Deterministic outcomes reproducing each recorded mechanism / guarding each monitor."""
    if which in ('bootstrap_pvalue', 'transposed_pair'):
        boot = np.array([[1.0 + 2.0 * s, 2.0 - 0.5 * s * (1 if k % 2 else -1)] for k, s in enumerate([-1.5, -0.5, 0.5, 1.5, -1.0, 1.0, 0.0, 0.25, -0.25, 0.0])])
        return {'names': ['zeta', 'alpha'], 'beta': np.array([1.0, 2.0]), 'bounds': {'zeta': [None, None], 'alpha': [None, None]},
                'L': -100.0, 'L0': -150.0, 'Lnull': -160.0, 'N': 80, 'nobs': 80, 'H': np.array([[-4.0, 0.5], [0.5, -1.0]]),
                'BHHH': np.array([[4.0, -0.25], [-0.25, 1.5]]), 'bootstrap': boot, 'gradient': np.array([1e-6, -2e-6]), 'K': 2,
                'hessian_kind': 'directed', 'bhhh_kind': 'directed', 'as_list': True, 'model_name': 'directed_' + which}
    if which == 'single_parameter_bootstrap':
        return {'names': ['b_time'], 'beta': np.array([-0.7]), 'bounds': {'b_time': [None, None]}, 'L': -50.0, 'L0': -60.0, 'Lnull': None,
                'N': 30, 'nobs': 30, 'H': np.array([[-8.0]]), 'BHHH': np.array([[7.5]]),
                'bootstrap': np.array([[-0.6], [-0.8], [-0.75], [-0.65], [-0.7]]), 'gradient': np.array([1e-7]), 'K': 1,
                'hessian_kind': 'directed', 'bhhh_kind': 'directed', 'as_list': False, 'model_name': 'directed_' + which}
    if which == 'panel_bic':
        return {'names': ['mu', 'a'], 'beta': np.array([0.3, -1.2]), 'bounds': {'mu': [None, None], 'a': [-1.2, None]}, 'L': -321.5, 'L0': -400.25,
                'Lnull': -410.0, 'N': 50, 'nobs': 450, 'H': np.array([[-10.0, 2.0], [2.0, -6.0]]), 'BHHH': np.array([[9.0, -1.0], [-1.0, 7.0]]),
                'bootstrap': None, 'gradient': np.array([0.0, 1e-5]), 'K': 2, 'hessian_kind': 'directed', 'bhhh_kind': 'directed', 'as_list': True,
                'model_name': 'directed_' + which}
    if which == 'tiny_curvature_one_parameter':
        # a perfectly regular one-parameter outcome whose curvature is small in absolute terms: variance 1/4e-6 = 250000
        return {'names': ['b_cost'], 'beta': np.array([-1500.0]), 'bounds': {'b_cost': [None, None]}, 'L': -64.0, 'L0': -69.3, 'Lnull': -69.3,
                'N': 100, 'nobs': 100, 'H': np.array([[-4.0e-6]]), 'BHHH': np.array([[3.5e-6]]), 'bootstrap': None,
                'gradient': np.array([1e-9]), 'K': 1, 'hessian_kind': 'directed', 'bhhh_kind': 'directed', 'as_list': True,
                'model_name': 'directed_' + which}
    if which == 'tiny_unit_two_parameters':
        # second attribute in a 1e-3 unit: -H = D [[8, 2], [2, 5]] D with D = diag(1, 1e-3); eigenvalues ~8 and ~4.5e-6
        return {'names': ['b_time', 'b_cost'], 'beta': np.array([-0.8, -500.0]), 'bounds': {'b_time': [None, None], 'b_cost': [None, None]},
                'L': -80.0, 'L0': -110.0, 'Lnull': None, 'N': 100, 'nobs': 100, 'H': np.array([[-8.0, -2.0e-3], [-2.0e-3, -5.0e-6]]),
                'BHHH': np.array([[7.0, 1.5e-3], [1.5e-3, 6.0e-6]]), 'bootstrap': None, 'gradient': np.array([1e-7, 1e-9]), 'K': 2,
                'hessian_kind': 'directed', 'bhhh_kind': 'directed', 'as_list': True, 'model_name': 'directed_' + which}
    raise KeyError(which)


def _run_directed(rec, case):
    import random

    which = case['which']
    rec.c('directed_' + which)
    if which == 'compile_unformatted':
        a = _directed_raw('panel_bic')
        b = _directed_raw('bootstrap_pvalue')
        b['bootstrap'] = None
        b['model_name'] = 'directed_second'
        _compile_group(rec, [a, b], 'directed-compile', random.Random(1))
        return
    raw = _directed_raw(which)
    build_and_verify(rec, raw, 'directed-' + which)


def run_case(case):
    rec = Rec8(case)
    mode = case['mode']
    if mode == 'synthetic':
        _run_synthetic(rec, case)
    elif mode == 'compile':
        _run_compile(rec, case)
    elif mode == 'real':
        _run_real(rec, case)
    elif mode == 'directed':
        _run_directed(rec, case)
    return rec.out()


def finalize(cov, tier):
    out = []
    need = [
        'bioresults_built', 'general_statistic_compared', 'varcov_compared_with_exact_pseudo_inverse', 'varcov_compared_singular_hessian',
        'varcov_compared_regular_hessian_with_curvature_below_1e-5', 'varcov_compared_one_parameter_curvature_below_1e-5',
        'varcov_compared_well_conditioned_tiny_scale', 'varcov_compared_regular_cond_ge_1e6', 'varcov_compared_regular_min_curvature_ge_1',
        'real_kind_tiny_unit', 'real_kind_tiny_unit_one_parameter', 'real_kind_one_parameter', 'real_kind_unidentified', 'real_kind_mnl_bounds',
        'robust_varcov_compared', 'bootstrap_varcov_compared', 'no_bootstrap', 'null_present', 'null_absent',
        'classic_stderr_compared', 'robust_stderr_compared', 'bootstrap_stderr_compared', 'classic_t_compared', 'robust_t_compared',
        'bootstrap_t_compared', 'classic_p_compared', 'robust_p_compared', 'bootstrap_p_compared', 'param_table_cells_compared',
        'active_bound_cells_compared', 'pair_cov_compared', 'classic_correlation_compared', 'robust_correlation_compared',
        'bootstrap_correlation_compared', 'classic_pair_t_compared', 'robust_pair_t_compared', 'bootstrap_pair_t_compared',
        'pair_t_sign_informative', 'classic_pair_p_compared', 'corr_subset_compared', 'printed_general_statistics_compared',
        'html_reports_parsed', 'html_parameter_cells_compared', 'html_correlation_cells_compared', 'latex_parameter_cells_compared',
        'f12_cells_compared', 'panel_like_sample_size_differs_from_observations',
        'compile_formatted_stderr0_ttest0', 'compile_formatted_stderr0_ttest1', 'compile_formatted_stderr1_ttest0', 'compile_formatted_stderr1_ttest1',
        'compile_unformatted_stderr0_ttest0', 'compile_unformatted_stderr0_ttest1', 'compile_unformatted_stderr1_ttest0',
        'compile_unformatted_stderr1_ttest1', 'compile_short_names', 'compile_from_pickle_file', 'compile_statistic_cells_compared',
        'compile_formatted_figures_compared', 'compile_unformatted_cells_compared',
        'lr_tests_compared', 'lr_rejected', 'lr_not_rejected', 'real_estimations_run', 'real_with_bootstrap', 'real_kind_panel',
        'html_files_written_by_estimate_parsed', 'results_rebuilt_from_pickle', 'K_1', 'K_2', 'K_8',
        'general_AIC', 'general_BIC', 'general_LR_init', 'general_LR_null', 'general_rho_init', 'general_rhobar_init', 'general_rho_null',
        'general_rhobar_null',
    ] + ['directed_' + w for w in DIRECTED]
    for k in need:
        if cov.get(k, 0) == 0:
            out.append(f'monitor never evaluated: {k}')
    failed = cov.get('real_estimation_failed_before_results', 0)
    if failed > 0.1 * (failed + cov.get('real_estimations_run', 0)):
        out.append(f'{failed} real estimations failed before producing a raw outcome')
    if tier == 'thorough' and cov.get('repo_tests_bioresults_observed', 0) == 0:
        out.append('monitor never evaluated: repository tests under the C08 monitor')
    return out


# ----------------------------------------------------------------------------
# thorough: the repository's own tests as extra workload, same monitors
# ----------------------------------------------------------------------------
REPO_TESTS = ['functions/test_results.py', 'functions/test_biogeme.py'] + [
    f'swissmetro/test_{n}.py' for n in ('01', '02', '03', '04', '07', '08', '09', '10', '11', '12', '13', '14', '15', '16', '18', '21')
]


def extra(seed, tier, workdir):
    """Run a copy of the repository's estimation tests (outside /repo: they write files) with
    biomon.oracle.c08_pytest_plugin attached: every bioResults they build goes through verify()."""
    import json
    import shutil
    import subprocess
    import sys

    if tier != 'thorough':
        return []
    d = os.path.join(workdir, 'repo_tests')
    os.makedirs(d, exist_ok=True)
    repo = os.path.dirname(env.SRC.rstrip('/')) if os.path.isdir(os.path.join(os.path.dirname(env.SRC.rstrip('/')), 'tests')) else '/repo'
    picked = []
    for sub in sorted({t.split('/')[0] for t in REPO_TESTS}):
        if os.path.isdir(os.path.join(repo, 'tests', sub)):
            shutil.copytree(os.path.join(repo, 'tests', sub), os.path.join(d, sub), dirs_exist_ok=True,
                            ignore=shutil.ignore_patterns('__pycache__', '*.iter', '*.html', '*.pickle'))
            if os.path.exists(os.path.join(repo, 'biogeme.toml')):
                shutil.copy(os.path.join(repo, 'biogeme.toml'), os.path.join(d, sub, 'biogeme.toml'))
    for t in REPO_TESTS:
        if os.path.exists(os.path.join(d, t)):
            picked.append(t)
    if os.path.exists(os.path.join(repo, 'biogeme.toml')):
        shutil.copy(os.path.join(repo, 'biogeme.toml'), os.path.join(d, 'biogeme.toml'))
    out = os.path.join(workdir, 'c08_plugin.json')
    e = dict(os.environ)
    e['PYTHONPATH'] = env.VERIF + os.pathsep + e.get('PYTHONPATH', '')
    e['C08_PLUGIN_OUT'] = out
    res = {'n': 0, 'keys': [], 'viol': [], 'cov': {}, 'samples': [], 'inconclusive': [], '_case': {'mode': 'repo-tests'}}
    if not picked:
        res['inconclusive'].append('repository tests not found')
        return [res]
    try:
        p = subprocess.run(
            [sys.executable, '-m', 'pytest', '-q', '-p', 'no:cacheprovider', '-p', 'biomon.oracle.c08_pytest_plugin', '--timeout=900',
             '--continue-on-collection-errors'] + picked,
            cwd=d, env=e, stdout=subprocess.PIPE, stderr=subprocess.STDOUT, timeout=2400, text=True)
        tail = p.stdout[-600:]
    except subprocess.TimeoutExpired:
        res['inconclusive'].append('repository tests under the C08 monitor: watchdog fired after 2400 s')
        return [res]
    if not os.path.exists(out):
        res['inconclusive'].append('repository tests under the C08 monitor produced no record: ' + tail)
        return [res]
    with open(out) as f:
        o = json.load(f)
    o['_case'] = {'mode': 'repo-tests', 'tests': picked}
    o.setdefault('cov', {})['repo_tests_pytest_exit_status_%d' % o.get('pytest_exitstatus', -1)] = 1
    o['cov']['repo_tests_files_run'] = len(picked)
    if o['cov'].get('repo_tests_bioresults_observed', 0) == 0:
        o.setdefault('inconclusive', []).append('repository tests built no bioResults under the monitor: ' + tail)
    return [o]
